#!/usr/bin/env python3
"""tools/seed_note.py <name> <caught_by comma list or -> <note>  : append a re-check record to seeded/<name>/meta.json"""
import sys, json, time
name, caught, note = sys.argv[1], sys.argv[2], sys.argv[3]
p = f'/verif/seeded/{name}/meta.json'
m = json.load(open(p))
m.setdefault('rechecks', []).append({'when': time.strftime('%Y-%m-%d %H:%M'), 'caught_by': [] if caught == '-' else caught.split(','), 'note': note})
if caught != '-':
    m['verdict_after_strengthening'] = 'caught'
    m['caught_by_after_strengthening'] = sorted(set(m.get('caught_by_after_strengthening', [])) | set(caught.split(',')))
json.dump(m, open(p, 'w'), indent=1)
print(name, m.get('verdict'), '->', m.get('verdict_after_strengthening'))
