#!/bin/bash
# Run the pinned test-suite of a coba tree (default /repo) and compare with BASELINE.json's stable_pass list.
# usage: tools/suite.sh [repo_dir]     exit 0 iff every stable_pass test passes.
R="${1:-/repo}"
OUT=$(mktemp -d)
cd "$R" && env -u COBA_VERIF PYTHONPATH="$R" /venv/bin/python -W ignore::SyntaxWarning -m pytest -q -p no:cacheprovider --timeout=900 \
   --continue-on-collection-errors --junitxml="$OUT/j.xml" >"$OUT/log" 2>&1
tail -1 "$OUT/log"
/venv/bin/python - "$OUT/j.xml" <<'PY'
import sys, json, xml.etree.ElementTree as ET
base=set(json.load(open('/root/.vp/BASELINE.json'))['stable_pass'])
ok=set()
for tc in ET.parse(sys.argv[1]).getroot().iter('testcase'):
    if not any(c.tag in('failure','error','skipped') for c in tc):
        ok.add(f"{tc.get('classname')}::{tc.get('name')}")
miss=sorted(base-ok)
print(f"stable_pass={len(base)} passing_now={len(base&ok)} missing={len(miss)}")
open(sys.argv[1]+'.miss','w').write('\n'.join(miss))
sys.exit(1 if miss else 0)
PY
rc=$?
if [ $rc -ne 0 ]; then   # parallel runs make timing-sensitive tests flaky: re-run the missing ones serially
  ids=$(/venv/bin/python - "$OUT/j.xml.miss" <<'PY'
import sys
for l in open(sys.argv[1]).read().split('\n'):
    if not l: continue
    cls,name=l.split('::'); parts=cls.split('.'); print('/'.join(parts[:-1])+'.py::'+parts[-1]+'::'+name)
PY
)
  env -u COBA_VERIF PYTHONPATH="$R" /venv/bin/python -W ignore::SyntaxWarning -m pytest -q -p no:cacheprovider --timeout=900 -p no:randomly $ids >"$OUT/log2" 2>&1
  rc=$?; echo "serial re-run of missing: $(tail -1 "$OUT/log2")"; [ $rc -ne 0 ] && grep -E "^(FAILED|ERROR)" "$OUT/log2"
fi
rm -rf "$OUT"
exit $rc
