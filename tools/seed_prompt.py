"""Print the prompt for an independent mutation-seeding agent for property ID working in worktree WT."""
import sys, json
pid, wt = sys.argv[1], sys.argv[2]
p = next(json.loads(l) for l in open('/verif/properties.jsonl') if json.loads(l)['id'] == pid)
print(f"""You are helping to evaluate a verification effort for the Python library coba (VowpalWabbit/coba, a framework for benchmarking contextual bandit learners). Your job is to play the adversary: write realistic code changes ("seeded defects") to coba that BREAK one stated semantic property while still passing coba's existing test suite.

Your private working copy of coba is the git worktree {wt} (a checkout of the current HEAD). Work ONLY inside {wt}. Do not read, list or use anything under /verif or /root/.vp, and do not touch /repo (never edit or commit there). Python is /venv/bin/python (3.12; numpy, pandas, vowpalwabbit, torch, matplotlib and cloudpickle are NOT installed and nothing can be installed). Always run python as: cd {wt} && env PYTHONPATH={wt} /venv/bin/python -W ignore ...   (this makes `import coba` use your worktree).

THE PROPERTY
Title: {p['title']}
Statement: {p['statement']}
Quantified over: {p['quantifier']['text']}
Files where the mechanism lives: {', '.join(p['anchors']['files'])}

WHAT TO PRODUCE: two different, independent seeded defects, A and B. Each one:
1. is a small, realistic change to coba's source (not to its tests) of the kind a developer could plausibly make by mistake during a refactoring/optimisation/bug fix: an off-by-one in cursor/offset logic, a dropped copy, shared mutable state, a check moved before/after the operation it guards, a wrong variable, a lost parameter, a cache keyed too coarsely, a lock released too early, a changed default...;
2. breaks the property above for SOME inputs / schedules / histories;
3. needs something SPECIFIC to manifest - a particular interleaving, a fault or crash at a particular point, a multi-step sequence of operations, an unusual-but-legal input, or two cooperating sites that each look fine alone. Changes that ordinary use would expose at once (every call fails / every result is wrong) are NOT wanted;
4. compiles and keeps the existing test suite's results unchanged. The suite command is:
     cd {wt} && env PYTHONPATH={wt} /venv/bin/python -W ignore -m pytest -q -p no:cacheprovider --timeout=900 --continue-on-collection-errors 2>&1 | tail -15
   On the untouched tree it reports "5 failed, 1840 passed, 147 skipped, 1 error" (those 5 failures and the collection error are pre-existing; the machine is heavily loaded, so timing-sensitive tests in test_performance.py can flake - rerun those alone before concluding). With your change the same tests must pass and fail as before;
5. comes with a demonstration: a small self-contained script demo.py (no pytest needed, no files outside a temp dir, finishes within a minute, deterministic) that exits with status 1 and prints what went wrong when run against the changed tree, and exits 0 against the unchanged tree. The demonstration must exhibit a violation of the PROPERTY AS STATED (not merely some difference in behaviour).

Deliver, inside {wt}/SEED/A/ and {wt}/SEED/B/ :
  patch.diff  - `git -C {wt} diff` of that one defect alone against HEAD (it must apply to a clean checkout with `git apply`);
  demo.py     - the demonstration;
  notes.md    - which clause of the property it breaks, what it needs in order to manifest, why the existing tests do not notice, and the exact commands you ran with their results (suite summary line before/after, demo exit codes before/after).
When you are done the worktree's tracked files must be back to HEAD (git -C {wt} checkout -- .) with only the untracked SEED/ directory left. Leave nothing else under /tmp.

Work method: read the files listed above first; understand how the property is achieved; then look for the subtle places. Verify every claim by running it (suite + demo on both trees). Prefer defects in different mechanisms for A and B. Your final message: a short summary of A and B (what was changed, what is needed to trigger it, the verified results).""")
