"""Regenerate /verif/MANIFEST.json from the property modules that exist (run through ./check's environment):
   PYTHONPATH=/verif:/repo /venv/bin/python -B -W ignore tools/gen_manifest.py"""
import json, os, importlib, sys
from vf.engines import sched; sched.install()   # SCHED props need the patches before coba is imported
VERIF = os.path.dirname(os.path.dirname(os.path.abspath(__file__)))
props = [json.loads(l) for l in open(os.path.join(VERIF, 'properties.jsonl'))]
PENDING = json.load(open(os.path.join(VERIF, 'tools', 'pending.json')))
checks, na = [], []
for p in props:
    pid = p['id']
    if pid in PENDING or not os.path.exists(os.path.join(VERIF, 'vf', 'props', pid.lower() + '.py')):
        na.append({'property_id': pid, 'reason': PENDING.get(pid, 'check not built yet (see DESIGN.md section 4 for the planned bounded-exhaustive exploration)')})
        continue
    c = importlib.import_module(f'vf.props.{pid.lower()}').CHECK
    checks.append({
        'property_id': pid,
        'quick_cmd': f'./check {pid} --tier quick',
        'thorough_cmd': f'./check {pid} --tier thorough',
        'evidence_file': f'/verif/evidence/{pid}.json',
        'replay_cmd_template': f'./check {pid} --replay {{path}}',
        'engine': c.ENGINE,
        'level_claimed': {'category': c.LEVEL, 'text': c.LEVEL_TEXT, 'design_ref': f'DESIGN.md section 4, {pid}'},
        'level_note': c.LEVEL_NOTE,
        'technique': c.TECHNIQUE,
    })
engines = {}
for c in checks:
    for e in c['engine'].split('+'): engines.setdefault(e, []).append(c['property_id'])
ENG = {
 'ENUM': ('vf/core.py', 'bounded-exhaustive input enumeration of the real code against a reference model, sharded over 16 processes'),
 'HIST': ('vf/engines/hist.py', 'explicit-state search over operation histories of real objects (state = history, replayed on fresh objects)'),
 'CRASH': ('vf/engines/crash.py', 'fault enumeration: every byte-prefix of a write history, then the real recovery path'),
 'ORBIT': ('vf/engines/orbit.py', 'full traversal of the 2^30-state LCG orbit on the real generator'),
 'SCHED': ('vf/engines/sched.py', 'stateless model checking: controlled scheduler + simulated spawn context, preemption-bounded DFS with sleep sets over real coba code'),
}
m = {
 'version': 1,
 'setup_cmd': 'true',
 'hooks': {'guard': 'COBA_VERIF', 'enable': 'no hooks in /repo: checks import coba from /repo (PYTHONPATH) and substitute seams from outside; ./check exports COBA_VERIF=1 for future hooks',
           'baseline_off_cmd': 'cd /repo && env -u COBA_VERIF /venv/bin/python -m pytest -ra -q -p no:cacheprovider --timeout=900 --continue-on-collection-errors',
           'source_commits': [], 'add_only': True},
 'engines': [{'name': k, 'path': ENG.get(k, ('vf/props', k))[0], 'serves_properties': v, 'kind_free_text': ENG.get(k, ('', k))[1]} for k, v in sorted(engines.items())],
 'checks': checks,
 'notes': 'All checks: model checking in the sense of bounded exhaustive exploration of the real implementation. See DESIGN.md. known_findings.json lists genuine defects (fixed ones by commit).',
 'not_applicable': na,
}
json.dump(m, open(os.path.join(VERIF, 'MANIFEST.json'), 'w'), indent=1)
print('checks:', [c['property_id'] for c in checks], 'not_applicable:', [n['property_id'] for n in na])
