#!/bin/bash
# tools/apply_fix.sh <fix.diff> <fix.msg>  : apply one proposed repair to /repo, run the unedited pinned suite, commit it ("fix: ...").
set -e
D=$(realpath "$1"); M=$(realpath "$2")
head -1 "$M" | grep -q '^fix: ' || { echo "message must start with 'fix: '"; exit 2; }
cd /repo
[ -z "$(git status --porcelain)" ] || { echo "/repo not clean"; exit 2; }
git apply --check "$D" && git apply "$D"
if /verif/tools/suite.sh /repo; then
  git add -A && git commit -q -F "$M" && echo "COMMITTED $(git log --oneline | head -1)"
else
  echo "SUITE FAILED - reverting"; git checkout -- .; exit 1
fi
