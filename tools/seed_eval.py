#!/usr/bin/env python3
"""Evaluate one independently seeded defect and file it under /verif/seeded/.

usage: tools/seed_eval.py <PROP> <srcdir with patch.diff demo.py notes.md> <name> [--checks C08,C01] [--tier quick]

Steps (all in a scratch worktree of /repo HEAD, removed afterwards):
  1. patch applies;  2. pinned suite still passes on the mutant;  3. demo.py exits 1 on the mutant and 0 on the clean tree;
  4. the property's check (and any extra checks) run against the mutant -> caught iff exit 1 with a VIOLATION line.
Writes /verif/seeded/<name>/{patch.diff,demo.py,notes.md,meta.json}.
"""
import sys, os, subprocess, json, shutil, tempfile, argparse, time

ap = argparse.ArgumentParser()
ap.add_argument('prop'); ap.add_argument('src'); ap.add_argument('name')
ap.add_argument('--checks', default=None); ap.add_argument('--tier', default='quick'); ap.add_argument('--nosuite', action='store_true')
a = ap.parse_args()
checks = (a.checks or a.prop).split(',')


def sh(cmd, **kw):
    r = subprocess.run(cmd, shell=True, capture_output=True, text=True, **kw)
    return r.returncode, (r.stdout + r.stderr)


head = sh('git -C /repo rev-parse --short HEAD')[1].strip()
wt = tempfile.mkdtemp(prefix='seedwt-', dir='/tmp'); os.rmdir(wt)
out = tempfile.mkdtemp(prefix='seedout-', dir='/tmp')
meta = {'property': a.prop, 'name': a.name, 'base_commit': head, 'evaluated': time.strftime('%Y-%m-%d %H:%M'), 'ran': []}
try:
    rc, o = sh(f'git -C /repo worktree add -q --detach {wt} HEAD'); assert rc == 0, o
    env = dict(os.environ, PYTHONPATH=wt)
    demo = os.path.abspath(os.path.join(a.src, 'demo.py'))
    rc0, o0 = sh(f'cd {wt} && timeout 300 /venv/bin/python -W ignore {demo}', env=env)
    meta['demo_clean_rc'] = rc0
    rc, o = sh(f'git -C {wt} apply {os.path.abspath(os.path.join(a.src, "patch.diff"))}')
    if rc != 0:
        rc, o = sh(f'git -C {wt} apply -3 {os.path.abspath(os.path.join(a.src, "patch.diff"))}')
    meta['patch_applies'] = rc == 0
    if rc != 0:
        print('PATCH DOES NOT APPLY', o); meta['verdict'] = 'rejected: patch does not apply'
    else:
        rc1, o1 = sh(f'cd {wt} && timeout 300 /venv/bin/python -W ignore {demo}', env=env)
        meta['demo_mutant_rc'] = rc1
        meta['demo_mutant_output'] = o1[-600:]
        if not a.nosuite:
            rcs, os_ = sh(f'/verif/tools/suite.sh {wt}')
            meta['suite_passes'] = rcs == 0
            meta['suite_summary'] = [l for l in os_.splitlines() if 'stable_pass' in l or 'passed' in l][-2:]
        meta['ran'].append(f'demo.py on clean tree -> rc {rc0}; on mutant -> rc {rc1}; tools/suite.sh on mutant -> {"pass" if meta.get("suite_passes") else "FAIL" if "suite_passes" in meta else "skipped"}')
        caught = {}
        for c in checks:
            t = time.time()
            rc, o = sh(f'COBA_REPO={wt} VERIF_OUT={out} /verif/check {c} --tier {a.tier}')
            viol = [l for l in o.splitlines() if l.strip().startswith('violation')][:6]
            caught[c] = {'rc': rc, 'violations': sum(1 for l in o.splitlines() if l.startswith('VIOLATION')), 'first_keys': [v.strip()[:200] for v in viol], 'wall_s': round(time.time() - t)}
            if rc == 2: caught[c]['harness_error'] = [l for l in o.splitlines() if 'HARNESS' in l][:2]
            meta['ran'].append(f'COBA_REPO=<mutant> ./check {c} --tier {a.tier} -> rc {rc}')
        meta['checks'] = caught
        valid = meta.get('demo_clean_rc') == 0 and meta.get('demo_mutant_rc') not in (0, None) and meta.get('suite_passes', True)
        meta['valid_seed'] = bool(valid)
        meta['caught_by'] = [c for c, v in caught.items() if v['rc'] == 1 and v['violations'] > 0]
        meta['verdict'] = ('caught' if meta['caught_by'] else 'MISSED') if valid else 'invalid seed (demo or suite criteria not met)'
finally:
    sh(f'git -C /repo worktree remove --force {wt}'); shutil.rmtree(wt, ignore_errors=True); shutil.rmtree(out, ignore_errors=True)

dst = f'/verif/seeded/{a.name}'
os.makedirs(dst, exist_ok=True)
for f in ('patch.diff', 'demo.py', 'notes.md'):
    if os.path.exists(os.path.join(a.src, f)): shutil.copy(os.path.join(a.src, f), os.path.join(dst, f))
notes = os.path.join(a.src, 'notes.md')
meta['needs_to_manifest'] = 'see notes.md'
json.dump(meta, open(os.path.join(dst, 'meta.json'), 'w'), indent=1)
print(json.dumps({k: meta.get(k) for k in ('name', 'valid_seed', 'verdict', 'caught_by', 'demo_clean_rc', 'demo_mutant_rc', 'suite_passes')}))
for c, v in meta.get('checks', {}).items(): print(' ', c, v)
