#!/bin/bash
# Run checks against a mutated copy of /repo without touching /repo or /verif's evidence:
#   tools/mut.sh [-s] <patch.diff> <ID> [ID...]     (-s: also run the pinned test-suite on the mutant)
# Prints one line per check: "<ID> rc=<rc> <VIOLATION lines...>"; the scratch worktree is removed afterwards.
SUITE=0; [ "$1" = "-s" ] && { SUITE=1; shift; }
PATCH=$(realpath "$1"); shift
WT=$(mktemp -d /tmp/mut-XXXXXX); OUTD=$(mktemp -d /tmp/mutout-XXXXXX)
git -C /repo worktree add -q --detach "$WT" HEAD || exit 2
trap 'git -C /repo worktree remove --force "$WT" 2>/dev/null; rm -rf "$WT" "$OUTD"' EXIT
git -C "$WT" apply "$PATCH" || { echo "patch does not apply"; exit 2; }
if [ $SUITE = 1 ]; then /verif/tools/suite.sh "$WT" || echo "SUITE-FAILS"; fi
for id in "$@"; do
  out=$(COBA_REPO="$WT" VERIF_OUT="$OUTD" /verif/check "$id" --tier "${VERIF_TIER:-quick}" 2>&1); rc=$?
  echo "$id rc=$rc $(echo "$out" | grep -c '^VIOLATION') violation(s)"
  echo "$out" | grep -E "^( *violation|HARNESS|KNOWN)" | cut -c1-300 | head -8
done
