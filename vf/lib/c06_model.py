"""C06 helpers: environment builder, recording learner, reference model of the documented SequentialCB loop.

Everything here is plain Python owned by the harness; coba is only *driven* (SequentialCB, Batch, reward classes
used as environment data).
"""
import copy, math, re, traceback

from coba.exceptions import CobaException
from coba.primitives import DiscreteReward, BinaryReward, Categorical, Rewards, is_batch
from coba.environments import Batch
from coba.evaluators.sequential import SequentialCB

ACTSETS = {
    'int': lambda: [1, 2],
    'str': lambda: ['a', 'b', 'c'],
    'tup': lambda: [(1, 0), (0, 1)],
    'map': lambda: [{'x': 1}, {'y': 2}],
    'bin': lambda: [0, 1],
    # sets that do / do not contain 0 or 1, as ints and as floats (SafeLearner converts 0/1 and caches per action set)
    'zo3': lambda: [0, 1, 2],
    'hi3': lambda: [3, 4, 5],
    'flt': lambda: [0.0, 0.5, 1.0],
    'fhi': lambda: [2.5, 3.5],
    # the 0/1-ambiguity alphabet: exactly one of 0/1 next to another int (a two-item integer PMF then starts with an object that IS an action)
    'z5': lambda: [0, 5],
    'o5': lambda: [1, 5],
    '5z': lambda: [5, 0],
    '5o': lambda: [5, 1],
    # categorical actions: Finalize (Repr) turns them into one-hot tuples and has to re-key every reward function
    'cat': lambda: [HCat(v, ABC) for v in 'abc'],
    'cat2': lambda: [HCat('c', ABC), HCat('a', ABC)],
}
BASE_ACTSETS = ['int', 'str', 'tup', 'map', 'bin']
CAT_ACTSETS = ['cat', 'cat2']
CTX_KINDS = ['dense', 'none', 'scalar', 'sparse', 'absent']
CAT_CTX_KINDS = ['cat', 'dense_cat', 'sparse_cat']
RWD_KINDS = ['list', 'discrete', 'binary', 'callable']
RWD_MORE = ['dmap', 'drev', 'custom']      # DiscreteReward as a mapping / in another action order, custom Rewards object
ABC = ['a', 'b', 'c']
UVW = ['u', 'v', 'w']


class HCat:
    """Harness-side categorical value (rendered as coba's Categorical for the environment, as its one-hot in the model)."""
    def __init__(self, value, levels): self.value, self.levels = value, list(levels)
    def onehot(self): return [1 if l == self.value else 0 for l in self.levels]
    def __repr__(self): return f'HCat({self.value!r})'


def to_coba(x):
    if isinstance(x, HCat): return Categorical(x.value, list(x.levels))
    if isinstance(x, list): return [to_coba(v) for v in x]
    if isinstance(x, tuple): return tuple(to_coba(v) for v in x)
    if isinstance(x, dict): return {k: to_coba(v) for k, v in x.items()}
    return x


# ------------------------------------------------------------------ environment data (one table, two renderings)

def ctx_value(kind, i):
    if kind == 'none': return None
    if kind == 'scalar': return 3 + i
    if kind == 'dense': return [1 + i, 2 + i]
    if kind == 'sparse': return {'a': 1 + i}
    if kind == 'cat': return HCat(UVW[i % 3], UVW)
    if kind == 'dense_cat': return [1 + i, HCat(UVW[i % 3], UVW), 2 + i]
    if kind == 'sparse_cat': return {'a': 1 + i, 'c': HCat(UVW[i % 3], UVW)}
    raise ValueError(kind)


def reward_table(kind, i, nact):
    if kind == 'binary': return [(i + 2) if j == i % nact else 0 for j in range(nact)]
    return [10 * (i + 1) + j for j in range(nact)]


def extras_of(i, n):
    out = {}
    if n >= 1: out['e1'] = 'x%d' % i
    if n >= 2: out['e2'] = [i, {'k': i}]
    return out


def plain_interactions(env):
    """The harness-owned description of the environment: plain data only (reward tables instead of reward objects)."""
    out = []
    for i in range(env['n']):
        it = {}
        if env['ctx'] != 'absent': it['context'] = ctx_value(env['ctx'], env['cseq'][i] if env.get('cseq') else i)
        if env['acts'] is not None:
            it['actions'] = ACTSETS[env['acts'][i]]()
            if env['rwd']: it['rtable'] = reward_table(env['rwd'], i, len(it['actions']))
        if 'action' in env['log']: it['action'] = it['actions'][(i + 1) % len(it['actions'])] if 'actions' in it else 5 + i
        if 'reward' in env['log']: it['reward'] = 0.5 + i
        if 'probability' in env['log']: it['probability'] = 0.25 * (i + 1)
        it['extras'] = extras_of(i, env['extras'])
        out.append(it)
    return out


def _plain_callable(actions, table):
    def rewards(action):
        return table[actions.index(action)]
    return rewards


class CustomRewards(Rewards):
    """A user-defined reward function object (neither Binary nor Discrete)."""
    def __init__(self, actions, table): self._a, self._t = actions, table
    def __call__(self, action): return self._t[self._a.index(action)]


def coba_interactions(env):
    """Fresh interaction dicts for coba, built independently of the model's copy."""
    out = []
    for i, p in enumerate(plain_interactions(env)):
        it = {}
        if 'context' in p: it['context'] = to_coba(p['context'])
        if 'actions' in p: it['actions'] = to_coba(p['actions'])
        if 'rtable' in p:
            k, A, T = env['rwd'], it['actions'], p['rtable']
            if k == 'list': it['rewards'] = list(T)
            elif k == 'discrete': it['rewards'] = DiscreteReward(A, list(T))
            elif k == 'binary': it['rewards'] = BinaryReward(A[i % len(A)], i + 2)
            elif k == 'callable': it['rewards'] = _plain_callable(list(A), list(T))
            elif k == 'dmap': it['rewards'] = DiscreteReward({a: t for a, t in reversed(list(zip(A, T)))})
            elif k == 'drev': it['rewards'] = DiscreteReward(list(reversed(A)), list(reversed(T)))
            elif k == 'custom': it['rewards'] = CustomRewards(list(A), list(T))
            else: raise ValueError(k)
        for f in ('action', 'reward', 'probability'):
            if f in p: it[f] = to_coba(p[f])
        it.update(p['extras'])
        out.append(it)
    return out


class Env:
    def __init__(self, env):
        self._env = env
        self.reads = 0
    @property
    def params(self): return {}
    def read(self):
        self.reads += 1
        inters = coba_interactions(self._env)
        if self._env['batch']: return Batch(self._env['batch']).filter(iter(inters))
        return iter(inters)


# ------------------------------------------------------------------ values

def norm(x):
    if isinstance(x, dict): return {k: norm(v) for k, v in x.items()}
    if isinstance(x, (list, tuple)): return [norm(v) for v in x]
    return x


def nv(x):
    """Finalize's documented normalisation of one harness-side value (context / action): a categorical becomes its one-hot, inside a
    dense row the one-hot is spliced in place, inside a sparse row key -> '<key>_<level index>': 1; tuples become lists."""
    if isinstance(x, HCat): return x.onehot()
    if isinstance(x, (list, tuple)):
        out = []
        for v in x:
            if isinstance(v, HCat): out.extend(v.onehot())
            else: out.append(nv(v))
        return out
    if isinstance(x, dict):
        out = {}
        for k, v in x.items():
            if isinstance(v, HCat): out[f'{k}_{v.levels.index(v.value)}'] = 1
            else: out[k] = nv(v)
        return out
    return x


def na(actions):
    return None if actions is None else [nv(a) for a in actions]


def snap(x):
    return norm(copy.deepcopy(x))


def _isnum(x):
    return isinstance(x, (int, float)) and not isinstance(x, bool)


def same(a, b):
    if _isnum(a) and _isnum(b): return math.isclose(a, b, rel_tol=1e-9, abs_tol=1e-12)
    if isinstance(a, (list, tuple)) and isinstance(b, (list, tuple)):
        return len(a) == len(b) and all(same(x, y) for x, y in zip(a, b))
    if isinstance(a, dict) and isinstance(b, dict):
        return a.keys() == b.keys() and all(same(a[k], b[k]) for k in a)
    if type(a) is not type(b) and (_isnum(a) or _isnum(b) or a is None or b is None): return False
    try:
        return bool(a == b)
    except Exception:
        return False


# ------------------------------------------------------------------ the learner (pure answer function + recorder)

def choose(spec, k, actions):
    """The learner's answer to its k-th predict call: (action object, probability or None, kwargs)."""
    a = actions[(k + spec['off']) % len(actions)] if actions else 7 + k
    p = (k + 1) / 16 if spec['fmt'] in ('ap', 'apk') else None
    if spec['fmt'] in ('pm', 'pmk') and actions: p = 1          # a one-hot PMF: the chosen action is played with probability 1
    kw = {'k': k, 't': 'kw'} if spec['fmt'] in ('ak', 'apk', 'pmk') else {}
    return a, p, kw


def score_value(j):
    return (j % 4 + 1) / 8


def _render(spec, a, p, kw, k=0, actions=None):
    f = spec['fmt']
    if f in ('pm', 'pmk'):
        if not actions: return a                                # no action set to spread a PMF over: a bare action
        j = (k + spec['off']) % len(actions)
        pmf = [1 if i == j else 0 for i in range(len(actions))] # bare PMF with INTEGER entries
        return pmf if f == 'pm' else (pmf, kw)
    if f == 'a': return a
    if f == 'ap': return (a, p)
    if f == 'ak': return (a, kw)
    return (a, p, kw)


class _NoBatches(Exception):
    pass


class RecLearner:
    """Records every per-row call with deep-copied arguments. Batches are refused or answered row-major."""

    def __init__(self, spec):
        self.spec = spec
        self.trace = []
        self.k = 0          # predict calls answered
        self.j = 0          # score calls answered
        self.refused = 0
        self.probes = 0
        self.bare_mapping = False

    @property
    def params(self): return {'family': 'rec'}

    def _rows(self, *args):
        # a batch-aware learner: every argument that is given is a column of the batch (coba passes predicted
        # actions/probabilities as plain lists or tuples, so is_batch cannot be used per argument)
        n = next(len(a) for a in args if is_batch(a))
        return [[(a[i] if a is not None else None) for a in args] for i in range(n)]

    def _refuse(self, args):
        if any(is_batch(a) for a in args):
            if self.spec['batch'] == 'reject':
                self.refused += 1
                raise _NoBatches('this learner does not take batches')
            return True
        return False

    def _predict1(self, context, actions):
        k = self.k; self.k += 1
        self.trace.append(('predict', snap(context), snap(actions)))
        a, p, kw = choose(self.spec, k, actions)
        if self.spec['fmt'] in ('a', 'ak') and isinstance(a, dict): self.bare_mapping = True     # a bare dict action has been answered
        return _render(self.spec, a, p, kw, k, actions)

    def predict(self, context, actions):
        if self._refuse((context, actions)):
            return [self._predict1(x, A) for x, A in self._rows(context, actions)]
        return self._predict1(context, actions)

    def _learn1(self, context, action, reward, probability, kwargs):
        self.trace.append(('learn', snap(context), snap(action), snap(reward), snap(probability), snap(kwargs)))

    def learn(self, context, action, reward, probability, **kwargs):
        if self._refuse((context, action, reward, probability)):
            for i, (x, a, r, p) in enumerate(self._rows(context, action, reward, probability)):
                self._learn1(x, a, r, p, {k: v[i] for k, v in kwargs.items()})
            return
        self._learn1(context, action, reward, probability, kwargs)


class RecScoreLearner(RecLearner):
    def _score1(self, context, actions, action):
        j = self.j; self.j += 1
        self.trace.append(('score', snap(context), snap(actions), snap(action)))
        return score_value(j)

    def score(self, context, actions, action):
        if context is None and actions is None and action is None:     # SafeLearner.has_score probe
            self.probes += 1
            return 1.0
        if self._refuse((context, actions, action)):
            return [self._score1(x, A, a) for x, A, a in self._rows(context, actions, action)]
        return self._score1(context, actions, action)


# ------------------------------------------------------------------ classification of exceptions

def exc_file(e):
    for fs in reversed(traceback.extract_tb(e.__traceback__)):
        if '/coba/' in fs.filename: return fs.filename.rsplit('/', 1)[-1]
    return '?'


def exc_sig(e):
    """Stable signature of an exception: class @ innermost coba function [+ message of built-in error types]."""
    where = '?'
    for fs in reversed(traceback.extract_tb(e.__traceback__)):
        if '/coba/' in fs.filename:
            where = fs.name; break
    s = f'{type(e).__name__}@{where}'
    if isinstance(e, (UnboundLocalError, NameError, TypeError, AttributeError)):
        msg = re.sub(r'\d+', 'N', str(e))[:70]
        s += f' ({msg})'
    return s


# ------------------------------------------------------------------ the reference model

class Result:
    def __init__(self):
        self.status = '?'
        self.signature = '?'
        self.nontrivial = False
        self.violations = []
    def bad(self, key, what):
        if all(k != key for k, _ in self.violations): self.violations.append((key, what))


def doc_needs(learn, ev):
    need = set()
    if learn == 'on' or ev == 'on': need |= {'actions', 'rewards'}
    if learn == 'off': need |= {'action', 'reward'}
    if learn == 'ips' or ev == 'ips': need |= {'actions', 'action', 'reward', 'probability'}
    return need


def hard_needs(learn, ev, has_score):
    need = set()
    if learn == 'on' or ev == 'on': need |= {'actions', 'rewards'}
    if learn in ('off', 'ips') or ev == 'ips': need |= {'action', 'reward'}
    if learn == 'ips' or (ev == 'ips' and not has_score): need |= {'actions'}
    return need


def units_of(env):
    n, b = env['n'], env['batch']
    if not b: return [[i] for i in range(n)]
    return [list(range(s, min(s + b, n))) for s in range(0, n, b)]


def expected_kinds(units, pred, score, lrn, probe=0):
    out = []
    for n_, u in enumerate(units):
        out += ['predict'] * len(u) * pred + ['predict'] * (probe if n_ == 0 else 0) * pred + ['score'] * len(u) * score + ['learn'] * len(u) * lrn
    return out


def ips_reward(p, action):
    """The documented IPS transform: logged reward / logged probability at the logged action, 0 elsewhere."""
    return p['reward'] / (p.get('probability') or 1) if same(nv(action), nv(p['action'])) else 0


def true_reward(p, action):
    A = na(p['actions'])
    a = nv(action)
    for j, b in enumerate(A):
        if same(a, b): return p['rtable'][j]
    return None


def run_and_compare(env, learn, ev, record, spec):
    res = Result()
    B = 'batched' if env['batch'] else 'unbatched'
    mode = f'learn={learn} eval={ev}'
    plain = plain_interactions(env)
    has = set(plain[0]) - {'extras', 'rtable'} | ({'rewards'} if 'rtable' in plain[0] else set())
    has_score = bool(spec['score'])

    learner = (RecScoreLearner if has_score else RecLearner)(spec)
    environment = Env(env)
    rows, exc = [], None
    try:
        evaluator = SequentialCB(record=list(record), learn=learn, eval=ev, seed=1)
        for r in evaluator.evaluate(environment, learner):
            rows.append(r)
    except Exception as e:      # noqa  (classified below)
        exc = e
    trace = learner.trace

    missing_hard = hard_needs(learn, ev, has_score) - has
    missing_doc = doc_needs(learn, ev) - has

    # ---- rejection
    if missing_hard:
        if exc is None:
            res.status = 'not-rejected'
            res.bad(f'validate|environment lacking required fields is evaluated|missing={sorted(missing_hard)}',
                    f'{mode}: environment has {sorted(has)}, mode needs {sorted(missing_hard)}, got {len(rows)} rows and {len(trace)} learner calls')
        elif rows or trace:
            res.status = 'late-rejection'
            res.bad(f'validate|rejected only after learner calls or rows|missing={sorted(missing_hard)}',
                    f'{mode}: {len(trace)} learner calls and {len(rows)} rows before {exc!r}')
        elif not isinstance(exc, CobaException):
            res.status = 'crash-instead-of-rejection'
            res.bad(f'validate|environment lacking required fields crashes instead of being rejected with CobaException|missing={sorted(missing_hard)}',
                    f'{mode}: environment has {sorted(has)}: {exc!r}')
        else:
            res.status = 'rejected'
        res.signature = f'{res.status}:{type(exc).__name__}'
        return res
    if isinstance(exc, CobaException) and missing_doc and not rows and not trace:
        res.status = 'rejected-documented-need'
        res.signature = res.status
        return res
    if exc is not None and 'actions' in missing_doc:
        # eval=ips on an environment without actions (only possible with a scoring learner): outside the statement
        res.status = 'unconstrained-no-actions'
        res.signature = res.status
        return res
    if exc is not None:
        res.status = 'raised'
        res.signature = 'raised:' + exc_sig(exc)
        what = f'{mode} record={record} on an environment with {sorted(has)}: {exc!r} after {len(trace)} learner calls, {len(rows)} rows'
        if exc_file(exc) == 'safety.py' and learner.bare_mapping:
            # Pred = Action and Action may be a Mapping, but SafeLearner reads every bare dict as a {'pmf'|'action'|'action_prob': ..} hint
            res.bad(f'SafeLearner|bare Mapping action is taken for a format-hint dict|{type(exc).__name__}@{exc_sig(exc).split("@")[1].split(" ")[0]} {B}', what)
        else:
            res.bad(f'evaluate|raises {exc_sig(exc)}|{B}', what)
        return res

    # ---- call pattern
    units = units_of(env)
    kinds = [t[0] for t in trace]
    pattern = None
    # SafeLearner's documented test for a batch answer whose major order cannot be seen (a square answer: batch size == items per row):
    # one extra predict with a batch holding only the first row, right after the first batch's predict; its result is discarded
    square = spec['batch'] == 'rows' and env['batch'] and len(units[0]) == {'a': 1, 'ap': 2, 'ak': 2, 'apk': 3}.get(spec['fmt'], 0)
    probe = 0
    for pred in (0, 1):
        for score in (0, 1):
            for lrn in (0, 1):
                for pb in ((0, 1) if square and pred else (0,)):
                    if kinds == expected_kinds(units, pred, score, lrn, pb) and (kinds or (pred, score, lrn) == (0, 0, 0)):
                        pattern = (pred, score, lrn); probe = pb
    if pattern is None:
        res.status = 'bad-pattern'
        res.signature = 'bad-pattern'
        res.bad(f'trace|calls are not one predict/score/learn group per interaction in order|{B}', f'{mode}: call kinds {kinds} for units {units}')
        return res
    pred, score, lrn = pattern
    rec = set(record)
    need_pred = learn in ('on', 'ips') or ev == 'on' or (ev == 'ips' and not has_score) or bool(ev and rec & {'action', 'probability'})
    if 'actions' not in has and pred:
        # documented needs of ips include actions; predicting without an action set is outside the statement
        res.status = 'unconstrained-no-actions'
        res.signature = res.status
        return res
    if lrn != bool(learn):
        res.bad(f'trace|learn {"not called" if learn else "called"}|learn={learn} {B}', f'call kinds {kinds}')
    if need_pred and not pred:
        res.bad(f'trace|predict not called although its result is needed|{B}', f'{mode}: call kinds {kinds}, record {record}')
    if score and not (ev == 'ips' and has_score):
        res.bad(f'trace|score called outside eval=ips|{B}', f'{mode}: call kinds {kinds}')
    if ev == 'ips' and 'reward' in rec and not (pred or score):
        res.bad(f'trace|neither predict nor score called for an ips evaluation|{B}', f'{mode}: call kinds {kinds}')
    if res.violations:
        res.status = 'bad-pattern'; res.signature = 'bad-pattern'
        return res

    # ---- expected trace and rows: the documented loop, replayed on the harness's own data with the learner's pure answer function
    exp_trace, exp_rows = [], []
    k = j = 0
    for u in units:
        P, S = {}, {}
        if pred:
            for i in u:
                p = plain[i]
                exp_trace.append(('predict', nv(p.get('context')), na(p.get('actions'))))
                P[i] = choose(spec, k, p.get('actions')); k += 1
            if probe and u is units[0]:
                p = plain[u[0]]
                exp_trace.append(('predict', nv(p.get('context')), na(p.get('actions')))); k += 1
        if score:
            for i in u:
                p = plain[i]
                exp_trace.append(('score', nv(p.get('context')), na(p.get('actions')), nv(p['action'])))
                S[i] = score_value(j); j += 1
        if lrn:
            for i in u:
                p = plain[i]
                x = nv(p.get('context'))
                if learn == 'off':
                    exp_trace.append(('learn', x, nv(p['action']), p['reward'], p.get('probability'), {}))
                else:
                    a, pr, kw = P[i]
                    r = true_reward(p, a) if learn == 'on' else ips_reward(p, a)
                    exp_trace.append(('learn', x, nv(a), r, pr, kw))
        for i in u:
            p = plain[i]
            must, may, absent = {}, {}, set()
            if ev:
                if pred:
                    a, pr, _ = P[i]
                    on_r = [true_reward(p, a)] if ev == 'on' else [ips_reward(p, a)]
                else:
                    a = pr = None; on_r = []
                if ev == 'ips' and score: on_r = on_r + [S[i] * (p['reward'] / (p.get('probability') or 1))]
                if pred and score: on_r = on_r[::-1]
                (must if 'reward' in rec else may)['reward'] = on_r
                if pred:
                    (must if 'action' in rec else may)['action'] = [nv(a)]
                    if pr is not None: (must if 'probability' in rec else may)['probability'] = [pr]
                    else: may['probability'] = [None]
            else:
                absent |= {'reward', 'action', 'probability'}
            if 'context' in rec:
                (must if 'context' in p else may)['context'] = [nv(p.get('context'))]
            if 'actions' in rec and 'actions' in p: must['actions'] = [na(p['actions'])]
            if 'rewards' in rec and 'rtable' in p: must['rewards'] = [list(p['rtable'])]
            for kx, vx in p['extras'].items(): must[kx] = [norm(vx)]
            times = set()
            if 'time' in rec:
                if pred: times.add('predict_time')
                if lrn: times.add('learn_time')
            exp_rows.append((must, may, absent, times))

    res.status = 'evaluated'
    res.signature = f'ok:{pred}{score}{lrn}{probe}:{len(rows)}:' + (','.join(sorted(rows[0])) if rows else '-')

    # ---- compare the trace
    for n_, (got, want) in enumerate(zip(trace, exp_trace)):
        if got[0] == 'predict':
            if not same(got[1], want[1]): res.bad(f'trace|predict context differs from the interaction|{B}', f'call {n_}: got {got[1]!r}, interaction has {want[1]!r}')
            if not same(got[2], want[2]): res.bad(f'trace|predict actions differ from the interaction|{B}', f'call {n_}: got {got[2]!r}, interaction has {want[2]!r}')
        elif got[0] == 'score':
            for ix, nm in ((1, 'context'), (2, 'actions'), (3, 'action')):
                if not same(got[ix], want[ix]): res.bad(f'trace|score {nm} differs from the logged interaction|{B}', f'call {n_}: got {got[ix]!r}, expected {want[ix]!r}')
        else:
            for ix, nm in ((1, 'context'), (2, 'action'), (3, 'reward'), (4, 'probability'), (5, 'kwargs')):
                if not same(got[ix], want[ix]):
                    res.bad(f'trace|learn {nm} differs|learn={learn} {B}', f'call {n_} ({mode}): got {got[ix]!r}, expected {want[ix]!r}; full call {got!r}')

    # ---- compare the rows
    n = env['n']
    if any(m for m, _, _, _ in exp_rows): ok_counts = {n}
    elif any(t for _, _, _, t in exp_rows): ok_counts = {n, len(units)}      # rows holding only times may be per batch
    else: ok_counts = {0, n, len(units)}                                     # nothing demanded: rows of optional keys only
    if len(rows) not in ok_counts:
        res.bad(f'rows|not one row per interaction|{B}', f'{len(rows)} rows for {n} interactions ({mode}, record={record}); first row {rows[:1]!r}')
    elif len(rows) == n:
        for i, (row, (must, may, absent, times)) in enumerate(zip(rows, exp_rows)):
            if not isinstance(row, dict):
                res.bad(f'rows|row is not a mapping|{B}', f'row {i}: {row!r}'); continue
            row = norm(row)
            for key, cands in must.items():
                if key not in row:
                    kind = key if key in ('reward', 'action', 'probability', 'context', 'actions', 'rewards') else 'extra field'
                    res.bad(f'rows|{kind} missing|{B}', f'row {i} lacks {key!r} ({mode}, record={record}): {row!r}')
                elif not any(same(row[key], c) for c in cands):
                    kind = key if key in ('reward', 'action', 'probability', 'context', 'actions', 'rewards') else 'extra field'
                    res.bad(f'rows|{kind} differs|eval={ev} {B}' if kind in ('reward', 'action', 'probability') else f'rows|{kind} differs|{B}',
                            f'row {i} {key!r}: got {row[key]!r}, expected {cands if len(cands) > 1 else cands[0]!r} ({mode}, record={record})')
            for key, cands in may.items():
                if cands and key in row and not any(same(row[key], c) for c in cands):
                    res.bad(f'rows|{key} present but not the evaluation value|eval={ev} {B}',
                            f'row {i} {key!r}: got {row[key]!r}, the evaluation value is {cands!r} ({mode}, record={record})')
            for key in absent:
                if key in row:
                    res.bad(f'rows|{key} recorded although eval=None|{B}', f'row {i}: {row!r} ({mode}, record={record})')
            for key in times:
                v = row.get(key)
                if not (_isnum(v) and v >= 0):
                    res.bad(f'rows|{key} missing|{B}', f'row {i}: {row!r} ({mode}, record={record})')
    res.nontrivial = bool(trace) and bool(rows)
    return res
