"""C19 conformance on the REAL OS primitives: two real spawned processes (started with DIFFERENT PYTHONHASHSEED values,
as unrelated interpreters have) share RawArray + Lock + a DiskCacher directory exactly as CobaMultiprocessor arranges.
The writer parks inside its getter; the reader then calls get_set on the same key and must stay blocked until the
writer is done, must not run its own getter and must receive the complete value.

usage: python -m vf.lib.realcache '<json {"key": ..., "second": "get"|"rmv"}>'   -> prints "OBS <json>"
"""
import sys, os, json, time, tempfile, shutil, threading
import multiprocessing as mp
from ctypes import c_short

LINES = ['line one', 'line two', 'line three']


def writer(cacher, key, in_getter, go, out):
    def getter():
        yield LINES[0]
        in_getter.set()
        go.wait(30)
        yield LINES[1]
        yield LINES[2]
    try:
        with cacher.get_set(key, getter) as f:
            got = [l.rstrip('\n') for l in f]
        out.put(('writer', 'value', got))
    except Exception as e:      # noqa
        out.put(('writer', 'raised', type(e).__name__ + ': ' + str(e)[:80]))


def second(cacher, key, kind, in_getter, go, out):
    in_getter.wait(30)
    box = {}
    def work():
        called = []
        def getter():
            called.append(1)
            return ['OTHER']
        try:
            if kind == 'rmv':
                cacher.rmv(key); box['res'] = ('rmv-done', None)
            else:
                with cacher.get_set(key, getter) as f:
                    box['res'] = ('value', [l.rstrip('\n') for l in f])
        except Exception as e:      # noqa
            box['res'] = ('raised', type(e).__name__ + ': ' + str(e)[:80])
        box['getter_calls'] = len(called)
    t = threading.Thread(target=work, daemon=True)
    t.start()
    t.join(2.5)
    finished_while_writing = not t.is_alive()
    go.set()
    t.join(30)
    out.put(('second', 'finished_while_writing', finished_while_writing))
    out.put(('second', 'result', box.get('res', ('hung', None))))
    out.put(('second', 'getter_calls', box.get('getter_calls', 0)))


class RealUser:
    """Filter run by the workers of the real CobaMultiprocessor: populate/read one key through the cacher the worker was given."""
    def __init__(self, key, journal): self.key, self.journal = key, journal

    def filter(self, item):
        from coba.context import CobaContext
        def getter():
            with open(self.journal, 'a') as f: f.write(f'start {os.getpid()}\n')
            yield LINES[0]
            time.sleep(2.5)
            yield LINES[1]
            yield LINES[2]
            with open(self.journal, 'a') as f: f.write(f'end {os.getpid()}\n')
        try:
            with CobaContext.cacher.get_set(self.key, getter) as f:
                yield [item, 'value', [l.rstrip('\n') for l in f]]
        except Exception as e:      # noqa
            yield [item, 'raised', type(e).__name__ + ': ' + str(e)[:80]]


def main_wired(spec):
    """Both callers are workers of the real CobaMultiprocessor on a real DiskCacher directory."""
    from coba.context import CobaContext, DiskCacher, BasicLogger
    from coba.pipes import ListSink
    from coba.multiprocessing import CobaMultiprocessor
    d = tempfile.mkdtemp(prefix='vf-realcache-')
    try:
        journal = os.path.join(d, 'journal.txt')
        CobaContext.logger = BasicLogger(ListSink()); CobaContext.cacher = DiskCacher(os.path.join(d, 'cache')); CobaContext.store = {}
        os.makedirs(os.path.join(d, 'cache'), exist_ok=True)
        got = list(CobaMultiprocessor(RealUser(spec['key'], journal), 2, 0).filter([0, 1]))
        jl = open(journal).read().split('\n') if os.path.exists(journal) else []
        print('OBS ' + json.dumps({'wired': sorted(got, key=str), 'starts': sum(1 for l in jl if l.startswith('start')), 'ends': sum(1 for l in jl if l.startswith('end')),
                                   'log': [str(x)[:120] for x in CobaContext.logger.sink.items][:4]}))
    finally:
        shutil.rmtree(d, ignore_errors=True)


def main():
    spec = json.loads(sys.argv[1])
    if spec.get('second') == 'wired': return main_wired(spec)
    key, kind = spec['key'], spec.get('second', 'get')
    from coba.context import ConcurrentCacher, DiskCacher
    d = tempfile.mkdtemp(prefix='vf-realcache-')
    try:
        ctx = mp.get_context('spawn')
        array = ctx.RawArray(c_short, [0] * 2 ** 16)
        lock = ctx.Lock()
        cacher = ConcurrentCacher(DiskCacher(d), array, lock)
        in_getter, go, out = ctx.Event(), ctx.Event(), ctx.Queue()
        os.environ['PYTHONHASHSEED'] = '101'
        p1 = ctx.Process(target=writer, args=(cacher, key, in_getter, go, out), daemon=True); p1.start()
        os.environ['PYTHONHASHSEED'] = '202'
        p2 = ctx.Process(target=second, args=(cacher, key, kind, in_getter, go, out), daemon=True); p2.start()
        p1.join(60); p2.join(60)
        obs = {'hung': p1.is_alive() or p2.is_alive()}
        while not out.empty():
            who, what, val = out.get()
            obs[f'{who}.{what}'] = val
        obs['cells_nonzero'] = sum(1 for i in range(2 ** 16) if array[i] != 0)
        for p in (p1, p2):
            if p.is_alive(): p.terminate()
        print('OBS ' + json.dumps(obs))
    finally:
        shutil.rmtree(d, ignore_errors=True)


if __name__ == '__main__':
    main()
