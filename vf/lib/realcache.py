"""C19 conformance on the REAL OS primitives: two real spawned processes (started with DIFFERENT PYTHONHASHSEED values,
as unrelated interpreters have) share RawArray + Lock + a DiskCacher directory exactly as CobaMultiprocessor arranges.
The writer parks inside its getter; the reader then calls get_set on the same key and must stay blocked until the
writer is done, must not run its own getter and must receive the complete value.

usage: python -m vf.lib.realcache '<json {"key": ..., "second": "get"|"rmv"}>'   -> prints "OBS <json>"
"""
import sys, os, json, time, tempfile, shutil, threading
import multiprocessing as mp
from ctypes import c_short

LINES = ['line one', 'line two', 'line three']


def writer(cacher, key, in_getter, go, out):
    def getter():
        yield LINES[0]
        in_getter.set()
        go.wait(30)
        yield LINES[1]
        yield LINES[2]
    try:
        with cacher.get_set(key, getter) as f:
            got = [l.rstrip('\n') for l in f]
        out.put(('writer', 'value', got))
    except Exception as e:      # noqa
        out.put(('writer', 'raised', type(e).__name__ + ': ' + str(e)[:80]))


def second(cacher, key, kind, in_getter, go, out):
    in_getter.wait(30)
    box = {}
    def work():
        called = []
        def getter():
            called.append(1)
            return ['OTHER']
        try:
            if kind == 'rmv':
                cacher.rmv(key); box['res'] = ('rmv-done', None)
            else:
                with cacher.get_set(key, getter) as f:
                    box['res'] = ('value', [l.rstrip('\n') for l in f])
        except Exception as e:      # noqa
            box['res'] = ('raised', type(e).__name__ + ': ' + str(e)[:80])
        box['getter_calls'] = len(called)
    t = threading.Thread(target=work, daemon=True)
    t.start()
    t.join(2.5)
    finished_while_writing = not t.is_alive()
    go.set()
    t.join(30)
    out.put(('second', 'finished_while_writing', finished_while_writing))
    out.put(('second', 'result', box.get('res', ('hung', None))))
    out.put(('second', 'getter_calls', box.get('getter_calls', 0)))


def main():
    spec = json.loads(sys.argv[1])
    key, kind = spec['key'], spec.get('second', 'get')
    from coba.context import ConcurrentCacher, DiskCacher
    d = tempfile.mkdtemp(prefix='vf-realcache-')
    try:
        ctx = mp.get_context('spawn')
        array = ctx.RawArray(c_short, [0] * 2 ** 16)
        lock = ctx.Lock()
        cacher = ConcurrentCacher(DiskCacher(d), array, lock)
        in_getter, go, out = ctx.Event(), ctx.Event(), ctx.Queue()
        os.environ['PYTHONHASHSEED'] = '101'
        p1 = ctx.Process(target=writer, args=(cacher, key, in_getter, go, out), daemon=True); p1.start()
        os.environ['PYTHONHASHSEED'] = '202'
        p2 = ctx.Process(target=second, args=(cacher, key, kind, in_getter, go, out), daemon=True); p2.start()
        p1.join(60); p2.join(60)
        obs = {'hung': p1.is_alive() or p2.is_alive()}
        while not out.empty():
            who, what, val = out.get()
            obs[f'{who}.{what}'] = val
        obs['cells_nonzero'] = sum(1 for i in range(2 ** 16) if array[i] != 0)
        for p in (p1, p2):
            if p.is_alive(): p.terminate()
        print('OBS ' + json.dumps(obs))
    finally:
        shutil.rmtree(d, ignore_errors=True)


if __name__ == '__main__':
    main()
