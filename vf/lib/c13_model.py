"""C13 helper: sources, the eager reference model (plain lists / dicts) and the stage alphabet.

Nothing here touches coba's row classes: the reference model applies every stage eagerly to plain Python lists and
dicts.  (coba.primitives.Categorical is used as a *value* only - it is a str subclass carrying its levels.)
"""
from coba.primitives import Categorical


class Precond(Exception):
    """The stage / access is outside the declared precondition table for the current table shape."""


# ------------------------------------------------------------------ encoders (total functions, so they stack)

def _enc_I(v): return int(v) if isinstance(v, str) and v.isdigit() else ('I', v)     # '0' -> 0   (keeps a sparse default sparse)
def _enc_A(v): return ('A', v)                                                       # '0' -> ('A','0') != 0  (default becomes explicit)
def _enc_B(v): return ('B', v)
ENC = {'I': _enc_I, 'A': _enc_A, 'B': _enc_B}


# ------------------------------------------------------------------ sources

LV3 = ['x', 'y', 'z']

ARFF_DENSE = ['@relation t', '@attribute a numeric', '@attribute b {x,y,z}', '@attribute c string', '@data',
              '1,x,u', '?,y,v', '3,z,w']
ARFF_SPARSE = ['@relation t', '@attribute a numeric', '@attribute b {x,y}', '@attribute c numeric', '@data',
               '{0 2, 1 y}', '{2 3}', '{0 ?, 2 5}']
# quoting differs between the lines: the lazy line reader fixes its csv dialect on the first line it PARSES
ARFF_QUOTES = ['@relation t', '@attribute a string', '@attribute b string', '@attribute c numeric', '@data',
               "'p q',r,1", '"s, t",u,2', "v,'w\"',3"]

# four data lines: no quote, both kinds of quote, single quotes only, double quotes only (the shared line reader adopts
# its csv dialect from the lines it has parsed so far, i.e. from the ORDER in which the rows are first accessed)
ARFF_QUOTES4 = ['@relation t', '@attribute a string', '@attribute b string', '@attribute c numeric', '@data',
                'p,r,1', '"it\'s",u,2', "'s t',v,3", '"w, x",y,4']
ORDER_SOURCES = ['aq4', 'aq', 'ad', 'adt', 'ae', 'aet', 'as', 'aes', 'lz', 'lzs']

SOURCES = ['dl', 'dc', 'sk', 'si', 'sc', 'ad', 'as', 'aq', 'lz', 'lzs', 'lzr', 'ae', 'aes', 'adt', 'aet']

# tab-delimited twins of the dense ARFF tables (the line reader accepts ',' and TAB); the missing marker ? sits in a
# first, a middle and a last cell
_HDR_AD = ['@relation t', '@attribute a numeric', '@attribute b {x,y,z}', '@attribute c string', '@data']
ARFF_DENSE_TAB = _HDR_AD + ['1\tx\tu', '3\t?\tw', '5\tz\tv', '4\ty\t?']
_HDR_AE = ['@relation t', '@attribute n numeric', '@attribute s string', '@attribute k {x,?}', '@data']
ARFF_SPECIAL_TAB = _HDR_AE + ["1\t''\tx", '?\t?\t?', '2\t\t?', '3\t?\tx']

# cell values the lazy rows special-case ('', '?', quoted '?', a level named '?', '0', 'None') in numeric, string and
# nominal attributes: every access path must treat them like the eager table does
ARFF_SPECIAL = ['@relation t', '@attribute n numeric', '@attribute s string', '@attribute k {x,?}', '@data',
                "1,'',x", '?,?,?', '0,None,x', ",'?',x", '2,,?']
ARFF_SPARSE_SPECIAL = ['@relation t', '@attribute a numeric', '@attribute b {x,?}', '@attribute c string', '@data',
                       '{0 ?, 1 ?, 2 ?}', '{1 x, 2 0}', '{0 0}']
# LazyDense whose header names sit at other positions than in 'lz' / 'ad' (partner table of the re-use cases)
LZR_RAW = [['12', '10', '11'], ['22', '20', '21']]
LZR_ENC = ['B', 'I', 'A']
LZR_HDR = ['c', 'a', 'b']

# LazyDense / LazySparse constructed the way ArffReader wires them (loader callable, encoders, header maps, not-sparse set),
# but with encoders that are not idempotent, so that an encoder applied twice or to the wrong column is visible
LZ_RAW = [['10', '11', '12'], ['20', '?', '']]          # '?' and '' are cells like any other for encoders that accept them
LZ_ENC = ['I', 'A', 'B']
LZS_RAW = [{0: '10', 2: '12'}, {1: '?', 2: ''}]
LZS_ENC = {0: 'I', 1: 'A', 2: 'B'}
LZ_HDR = ['a', 'b', 'c']


def cat(v, levels): return Categorical(v, list(levels))


class Tbl:
    """The eager table: `rows` are plain lists (dense) or dicts (sparse)."""
    __slots__ = ('kind', 'rows', 'headers', 'missing', 'label', 'plain', 'n', 'arff', 'raw_int_keys', 'pos')

    def __init__(self, kind, rows, headers=None, missing=None, label=None, plain=True, n=None, arff=False, raw_int_keys=False, pos=None):
        if isinstance(headers, list): headers = {h: i for i, h in enumerate(headers)}
        self.kind = kind; self.rows = rows; self.missing = missing; self.label = label
        self.headers = headers             # dense: mapping name -> column (may be partial, may give one column two names) or None
        self.plain = plain                 # rows reaching the next stage are real list / dict objects
        self.n = n if n is not None else (len(rows[0]) if rows and kind == 'dense' else 0)
        self.arff = arff
        self.pos = pos                     # sparse rows keyed by header name: column position -> header (LabelRows accepts a position)
        self.raw_int_keys = raw_int_keys   # sparse rows keyed by column number (HeadRows mapping / EncodeRows list applicable)

    def replace(self, **kw):
        d = {s: getattr(self, s) for s in self.__slots__}
        d.update(kw)
        return Tbl(**d)

    def universe(self):
        u = []
        for r in self.rows:
            for k in r:
                if k not in u: u.append(k)
        return u


def source_model(name):
    if name in OPENML: return openml_model(name)
    if name == 'dl': return Tbl('dense', [['10', '11', '12'], ['20', '21', '22']])
    if name == 'dc': return Tbl('dense', [['10', cat('x', LV3), '12'], ['20', cat('z', LV3), '22']])
    if name == 'sk': return Tbl('sparse', [{'a': '10', 'b': '11'}, {'b': '21', 'c': '22'}])
    if name == 'si': return Tbl('sparse', [{0: '10', 1: '11'}, {1: '21', 2: '22'}], raw_int_keys=True)
    if name == 'sc': return Tbl('sparse', [{'a': '10', 'b': cat('x', LV3)}, {'b': cat('z', LV3), 'c': '22'}])
    if name == 'ad':
        return Tbl('dense', [[1.0, cat('x', LV3), 'u'], [None, cat('y', LV3), 'v'], [3.0, cat('z', LV3), 'w']],
                   headers=['a', 'b', 'c'], missing=[False, True, False], plain=False, arff=True)
    if name == 'as':
        L = ['0', 'x', 'y']
        return Tbl('sparse', [{'a': 2.0, 'b': cat('y', L)}, {'c': 3.0, 'b': cat('0', L)}, {'a': None, 'c': 5.0, 'b': cat('0', L)}],
                   missing=[False, False, True], plain=False, arff=True, pos={0: 'a', 1: 'b', 2: 'c'})
    if name == 'aq':
        return Tbl('dense', [['p q', 'r', 1.0], ['s, t', 'u', 2.0], ['v', 'w"', 3.0]],
                   headers=['a', 'b', 'c'], missing=[False, False, False], plain=False, arff=True)
    if name == 'aq4':
        return Tbl('dense', [['p', 'r', 1.0], ["it's", 'u', 2.0], ['s t', 'v', 3.0], ['w, x', 'y', 4.0]],
                   headers=['a', 'b', 'c'], missing=[False] * 4, plain=False, arff=True)
    if name == 'lz':
        return Tbl('dense', [[ENC[e](v) for e, v in zip(LZ_ENC, r)] for r in LZ_RAW], headers=list(LZ_HDR), missing=[False, False],
                   plain=False, arff=True)
    if name == 'lzr':
        return Tbl('dense', [[ENC[e](v) for e, v in zip(LZR_ENC, r)] for r in LZR_RAW], headers=list(LZR_HDR), missing=[False, False],
                   plain=False, arff=True)
    if name == 'ae':
        L = ['x', '?']
        return Tbl('dense', [[1.0, '', cat('x', L)], [None, None, cat('?', L)], [0.0, 'None', cat('x', L)],
                             [None, None, cat('x', L)], [2.0, '', cat('?', L)]],
                   headers=['n', 's', 'k'], plain=False, arff=True,
                   missing=[False, True, False, None, True])     # row 3 holds a QUOTED ?: whether that is the marker is left open (C12)
    if name == 'adt':
        return Tbl('dense', [[1.0, cat('x', LV3), 'u'], [3.0, None, 'w'], [5.0, cat('z', LV3), 'v'], [4.0, cat('y', LV3), None]],
                   headers=['a', 'b', 'c'], missing=[False, True, False, True], plain=False, arff=True)
    if name == 'aet':
        L = ['x', '?']
        return Tbl('dense', [[1.0, '', cat('x', L)], [None, None, cat('?', L)], [2.0, '', cat('?', L)], [3.0, None, cat('x', L)]],
                   headers=['n', 's', 'k'], missing=[False, True, True, True], plain=False, arff=True)
    if name == 'aes':
        L = ['0', 'x', '?']
        return Tbl('sparse', [{'a': None, 'b': cat('?', L), 'c': None}, {'b': cat('x', L), 'c': '0'}, {'a': 0.0, 'b': cat('0', L), 'c': '0'}],
                   missing=[True, False, False], plain=False, arff=True, pos={0: 'a', 1: 'b', 2: 'c'})
    if name == 'lzs':
        rows = []
        for r in LZS_RAW:
            o = {LZ_HDR[k]: ENC[LZS_ENC[k]](v) for k, v in r.items()}
            for k, e in LZS_ENC.items():
                if k not in r and ENC[e]('0') != 0: o[LZ_HDR[k]] = ENC[e]('0')
            rows.append(o)
        return Tbl('sparse', rows, missing=[False, False], plain=False, arff=True, pos={i: h for i, h in enumerate(LZ_HDR)})
    raise ValueError(name)


# fake openml datasets: columns (name, data_type, is_ignore, is_row_identifier[, levels]) and rows of python values
# (None = the missing marker ?; sparse rows only list their entries)
OPENML = {
    'od': {'sparse': False,
           'cols': [('rowid', 'numeric', False, True), ('a', 'numeric', False, False), ('note', 'string', False, False),
                    ('b', 'nominal', False, False, ['u', 'v']), ('y', 'nominal', False, False, ['n', 'p']), ('junk', 'numeric', True, False)],
           'rows': [[1, 0.5, 'hello', 'u', 'n', 9], [2, None, 'there', 'v', 'p', 9], [3, 1.5, 'world', 'v', 'p', 8]]},
    'os': {'sparse': True,
           'cols': [('rowid', 'numeric', False, True), ('a', 'numeric', False, False), ('b', 'numeric', False, False),
                    ('y', 'nominal', False, False, ['n', 'p']), ('junk', 'numeric', True, False), ('note', 'string', False, False)],
           'rows': [{0: 1, 1: 0.5, 3: 'p', 4: 9}, {0: 2, 2: 7, 5: 'hi'}, {0: 3, 1: 2.5, 2: None, 3: 'p'}, {0: 4, 1: 1.5, 2: 3, 3: 'n', 4: 8}]},
}


def _arff_cell(v): return '?' if v is None else str(v)


def openml_arff(ds):
    d = OPENML[ds]
    lines = ['@relation r']
    for c in d['cols']:
        lines.append('@attribute %s %s' % (c[0], '{' + ','.join(c[4]) + '}' if c[1] == 'nominal' else c[1]))
    lines.append('@data')
    for r in d['rows']:
        if d['sparse']: lines.append('{' + ','.join('%d %s' % (k, _arff_cell(v)) for k, v in sorted(r.items())) + '}')
        else: lines.append(','.join(_arff_cell(v) for v in r))
    return lines


def openml_features(ds):
    return [{'index': str(i), 'name': c[0], 'data_type': c[1], 'is_ignore': str(c[2]).lower(), 'is_row_identifier': str(c[3]).lower()}
            for i, c in enumerate(OPENML[ds]['cols'])]


def openml_ignored(ds, target):
    return [c[0] for c in OPENML[ds]['cols'] if (c[2] or c[3] or c[1] not in ('numeric', 'nominal')) and c[0] != target]


def _typed(c, v, sparse):
    if v is None: return None
    if c[1] == 'numeric': return float(v)
    if c[1] == 'nominal': return cat(v, (['0'] if sparse else []) + c[4])
    return str(v)


def openml_model(ds):
    """The eager table the ARFF text of the dataset describes (before OpenmlSource drops anything)."""
    d = OPENML[ds]; cols = d['cols']
    names = [c[0] for c in cols]
    if not d['sparse']:
        rows = [[_typed(c, v, False) for c, v in zip(cols, r)] for r in d['rows']]
        return Tbl('dense', rows, headers=names, missing=[any(v is None for v in r) for r in d['rows']], plain=False, arff=True)
    rows = []
    for r in d['rows']:
        o = {names[k]: _typed(cols[k], v, True) for k, v in r.items()}
        for k, c in enumerate(cols):           # an absent entry is "0": nominal -> level "0", string -> "0", numeric stays absent
            if k not in r and c[1] == 'nominal': o[c[0]] = cat('0', ['0'] + c[4])
            if k not in r and c[1] == 'string': o[c[0]] = '0'
        rows.append(o)
    return Tbl('sparse', rows, missing=[any(v is None for v in r.values()) for r in d['rows']], plain=False, arff=True,
               pos={i: n for i, n in enumerate(names)})


def source_raw(name):
    """Fresh caller-owned input for the real pipeline (never shared between two builds)."""
    if name in OPENML: return ('arff', openml_arff(name))
    if name == 'ad': return ('arff', list(ARFF_DENSE))
    if name == 'as': return ('arff', list(ARFF_SPARSE))
    if name == 'aq': return ('arff', list(ARFF_QUOTES))
    if name == 'aq4': return ('arff', list(ARFF_QUOTES4))
    if name == 'ae': return ('arff', list(ARFF_SPECIAL))
    if name == 'adt': return ('arff', list(ARFF_DENSE_TAB))
    if name == 'aet': return ('arff', list(ARFF_SPECIAL_TAB))
    if name == 'aes': return ('arff', list(ARFF_SPARSE_SPECIAL))
    if name == 'lzr': return ('lazydense-r', [list(r) for r in LZR_RAW])
    if name == 'lz': return ('lazydense', [list(r) for r in LZ_RAW])
    if name == 'lzs': return ('lazysparse', [dict(r) for r in LZS_RAW])
    t = source_model(name)
    return ('rows', [list(r) if t.kind == 'dense' else dict(r) for r in t.rows])


# ------------------------------------------------------------------ the eager model of every stage

def _pairs(p): return [(k, v) for k, v in p]


def m_apply(t: Tbl, st):
    """Apply stage descriptor `st` eagerly.  Raises Precond when the composition is outside the precondition table."""
    k = st[0]
    if t.label is not None: raise Precond('LabelRows is the last stage')
    if not t.rows: raise Precond('no rows left')
    if k == 'head':                        # dense: list of names
        if t.kind != 'dense' or len(st[1]) != t.n or len(set(st[1])) != t.n: raise Precond()
        return t.replace(headers={h: i for i, h in enumerate(st[1])}, plain=False)
    if k == 'headmap':                     # dense: name -> index mapping in arbitrary order; may leave columns unnamed, may name one twice
        if t.kind != 'dense': raise Precond()
        m = dict(_pairs(st[1]))
        if len(m) != len(st[1]) or any(not (0 <= i < t.n) for i in m.values()): raise Precond()
        return t.replace(headers=m, plain=False)
    if k == 'shead':                       # sparse: name -> underlying key
        if t.kind != 'sparse' or not t.raw_int_keys: raise Precond()
        m = dict(_pairs(st[1])); inv = {v: h for h, v in m.items()}
        if any(kk not in inv for kk in t.universe()) or len(inv) != len(m): raise Precond()
        return t.replace(rows=[{inv[kk]: v for kk, v in r.items()} for r in t.rows], raw_int_keys=False, plain=False, pos=dict(inv))
    if k == 'enc':
        form, spec = st[1], st[2]
        if t.kind == 'dense':
            if form == 'list':
                if len(spec) != t.n: raise Precond()
                fs = [ENC[e] for e in spec]
            else:
                m = dict(_pairs(spec))
                fs = [None] * t.n
                for kk, e in m.items():
                    if isinstance(kk, str):
                        if not t.headers or kk not in t.headers: raise Precond('by-name needs that header upstream')
                        c = t.headers[kk]
                    else:
                        if not (0 <= kk < t.n): raise Precond()
                        c = kk
                    if fs[c] is not None: raise Precond('one column named twice')
                    fs[c] = ENC[e]
            rows = [[(f(v) if f else v) for f, v in zip(fs, r)] for r in t.rows]
            return t.replace(rows=rows, plain=False)
        else:
            if form == 'list':
                if not t.raw_int_keys: raise Precond()
                m = dict(enumerate(spec))
            else:
                m = dict(_pairs(spec))
            uni = t.universe()
            if any(kk not in uni for kk in m): raise Precond()
            rows = []
            for r in t.rows:
                o = {kk: (ENC[m[kk]](v) if kk in m else v) for kk, v in r.items()}
                for kk, e in m.items():       # an absent entry of a sparse row is "0"; it stays absent only if it encodes to 0
                    if kk not in o and ENC[e]('0') != 0: o[kk] = ENC[e]('0')
                rows.append(o)
            return t.replace(rows=rows, plain=False)
    if k == 'drop':
        cols, pred = st[1], st[2]
        keep_rows = list(range(len(t.rows)))
        if pred is not None:
            if pred[0] == 'missing':
                if t.missing is None or any(m is None for m in t.missing): raise Precond('a row whose missing flag is left open')
                keep_rows = [i for i in keep_rows if not t.missing[i]]
            else:
                _, key, j = pred
                if j >= len(t.rows): raise Precond()
                if t.kind == 'dense':
                    if isinstance(key, str):
                        if not t.headers or key not in t.headers: raise Precond()
                        c = t.headers[key]
                    else:
                        if not (0 <= key < t.n): raise Precond()
                        c = key
                    val = t.rows[j][c]
                    keep_rows = [i for i in keep_rows if not _veq(t.rows[i][c], val)]
                else:
                    if key not in t.rows[j]: raise Precond()
                    val = t.rows[j][key]
                    keep_rows = [i for i in keep_rows if not (key in t.rows[i] and _veq(t.rows[i][key], val))]
        if t.kind == 'dense':
            dropc = set()
            for c in cols:
                if isinstance(c, str):
                    if not t.headers or c not in t.headers: raise Precond()
                    dropc.add(t.headers[c])
                else:
                    if not (0 <= c < t.n): raise Precond()
                    dropc.add(c)
            if len(dropc) != len(cols): raise Precond('column named twice')
            if len(dropc) >= t.n: raise Precond('all columns dropped')
            keepc = [i for i in range(t.n) if i not in dropc]
            rows = [[t.rows[i][c] for c in keepc] for i in keep_rows]
            hdr = {h: keepc.index(i) for h, i in t.headers.items() if i in keepc} if t.headers is not None else None
            return t.replace(rows=rows, headers=hdr, n=len(keepc), plain=(t.plain and not cols),
                             missing=[t.missing[i] for i in keep_rows] if t.missing else None)
        else:
            uni = t.universe()
            if any(c not in uni for c in cols): raise Precond()
            rows = [{kk: v for kk, v in t.rows[i].items() if kk not in cols} for i in keep_rows]
            return t.replace(rows=rows, plain=(t.plain and not cols),
                             missing=[t.missing[i] for i in keep_rows] if t.missing else None)
    if k == 'label':
        key, tipe = st[1], st[2]
        if t.kind == 'dense':
            if isinstance(key, str):
                if not t.headers or key not in t.headers: raise Precond()
                ind = t.headers[key]
            else:
                if not (0 <= key < t.n): raise Precond()
                ind = key
            return t.replace(label=(ind, tipe), plain=False)
        else:
            if not isinstance(key, str) and t.pos: key = t.pos.get(key, key)     # a position names the header at that position
            if key not in t.universe(): raise Precond()
            # a sparse row without the label entry has label 0 and shows the entry
            rows = [dict(r) if key in r else {**r, key: 0} for r in t.rows]
            return t.replace(rows=rows, label=(key, tipe), plain=False)
    if k == 'cat':
        tipe = st[1]
        if not t.plain: raise Precond('EncodeCatRows transforms materialised rows only')
        first = t.rows[0]
        if t.kind == 'dense':
            cc = [i for i, v in enumerate(first) if isinstance(v, Categorical)]
            if not cc: raise Precond()
            rows = []
            for r in t.rows:
                o = []
                for i, v in enumerate(r):
                    if i not in cc: o.append(v)
                    elif tipe == 'string': o.append(str(v))
                    elif tipe == 'onehot_tuple': o.append(tuple(v.as_onehot))
                    else: o.extend(v.as_onehot)
                rows.append(o)
            return t.replace(rows=rows, n=len(rows[0]))
        else:
            cc = [kk for kk, v in first.items() if isinstance(v, Categorical)]
            if not cc: raise Precond()
            if any(kk not in r for r in t.rows for kk in cc): raise Precond('categorical entry absent in a row')
            rows = []
            for r in t.rows:
                o = {}
                for kk, v in r.items():
                    if kk not in cc: o[kk] = v
                    elif tipe == 'string': o[kk] = str(v)
                    elif tipe == 'onehot_tuple': o[kk] = tuple(v.as_onehot)
                    else: o[f'{kk}_{v.as_int}'] = 1
                rows.append(o)
            return t.replace(rows=rows)
    raise ValueError(st)


def _veq(a, b):
    try:
        return bool(a == b)
    except Exception:   # noqa
        return False


def run_model(src, stages):
    t = source_model(src)
    for st in stages: t = m_apply(t, st)
    return t


# ------------------------------------------------------------------ stage alphabet for a table shape

NAMES = ['a', 'b', 'c', 'd', 'e', 'f']
NAMES2 = ['p', 'q', 'r', 's', 't', 'u']
TIPES = ['c', 'r', 'm']


def stage_options(t: Tbl, wide: bool):
    """Stage descriptors applicable to table `t` (core alphabet; `wide` adds the extended one), simplest first.
    Every option is validated against the model's precondition table by the caller."""
    out = []
    if t.label is not None or not t.rows: return out
    if t.kind == 'dense':
        n, H = t.n, (list(t.headers) if t.headers else t.headers)      # H: the header NAMES (not necessarily one per column)
        # header assignment
        if H is None:
            out.append(['head', NAMES[:n]])
            if n >= 2:
                out.append(['headmap', [[NAMES[i], i] for i in list(range(n - 1, -1, -1))]])     # a mapping listed in another order than the columns
                out.append(['headmap', [[NAMES[i], i] for i in range(n) if i != (1 if n >= 3 else 0)]])     # partial: one column (a gap) stays unnamed
                out.append(['headmap', [[NAMES[i], i] for i in range(n)] + [['z', 0]]])                     # column 0 has two names
        elif wide:
            out.append(['head', NAMES2[:n]])
        # per-column encoding
        out.append(['enc', 'list', [['I', 'A', 'B'][i % 3] for i in range(n)]])
        out.append(['enc', 'dict', [[0, 'A']]])
        if n >= 2: out.append(['enc', 'dict', [[n - 1, 'B']]])
        if H:
            out.append(['enc', 'dict', [[H[-1], 'A']]])
            if wide and n >= 2: out.append(['enc', 'dict', [[H[0], 'B'], [n - 1, 'A']]])
            if len(H) > n: out.append(['enc', 'dict', [[H[-1], 'B']]]); out.append(['enc', 'dict', [[H[0], 'A']]])
        # column / row dropping
        if n >= 2:
            for i in range(n): out.append(['drop', [i], None])
            if n >= 3: out.append(['drop', [0, n - 1], None])
            if H:
                for h in H: out.append(['drop', [h], None])
                if wide and n >= 3 and len(H) >= 2: out.append(['drop', [H[1], n - 1], None])
        out.append(['drop', [], ['eqrow', 0, 0]])
        if len(t.rows) >= 2: out.append(['drop', [], ['eqrow', n - 1, len(t.rows) - 1]])
        if H: out.append(['drop', [], ['eqrow', H[-1], 0]])
        if n >= 2: out.append(['drop', [0], ['eqrow', n - 1, 0]])
        if t.missing is not None:
            out.append(['drop', [], ['missing']])
            if H and n >= 2: out.append(['drop', [H[0]], ['missing']])
        # label selection
        for i in range(n): out.append(['label', i, TIPES[i % 3]])
        if H:
            for i, h in enumerate(H): out.append(['label', h, TIPES[(i + 1) % 3]])
        if t.plain and any(isinstance(v, Categorical) for v in t.rows[0]):
            for tp in ('onehot', 'onehot_tuple', 'string'): out.append(['cat', tp])
    else:
        uni = t.universe()
        if not uni: return out
        if t.raw_int_keys:
            out.append(['shead', [[NAMES[kk], kk] for kk in sorted(uni)]])
            out.append(['enc', 'list', [['I', 'A', 'B'][i % 3] for i in range(max(uni) + 1)]])
        ks = sorted(uni, key=repr)
        out.append(['enc', 'dict', [[ks[0], 'A']]])
        out.append(['enc', 'dict', [[ks[-1], 'I']]])
        if len(ks) >= 2: out.append(['enc', 'dict', [[ks[0], 'I'], [ks[-1], 'B']]])
        if wide and len(ks) >= 3: out.append(['enc', 'dict', [[ks[1], 'B']]])
        if len(ks) >= 2:
            for kk in ks: out.append(['drop', [kk], None])
            if len(ks) >= 3: out.append(['drop', [ks[0], ks[-1]], None])
        for j in range(len(t.rows)):
            kk = sorted(t.rows[j], key=repr)
            if kk:
                out.append(['drop', [], ['eqrow', kk[0], j]])
                if wide and len(kk) >= 2: out.append(['drop', [], ['eqrow', kk[-1], j]])
        if len(ks) >= 2:
            kk = sorted(t.rows[0], key=repr)
            if kk: out.append(['drop', [ks[-1]], ['eqrow', kk[0], 0]])
        if t.missing is not None:
            out.append(['drop', [], ['missing']])
            if len(ks) >= 2: out.append(['drop', [ks[0]], ['missing']])
        for i, kk in enumerate(ks): out.append(['label', kk, TIPES[i % 3]])
        if t.pos:                              # header-keyed sparse rows labelled by POSITION
            valid = [pp for pp in sorted(t.pos) if t.pos[pp] in uni]
            for pp in (valid if wide else valid[-1:]): out.append(['label', pp, TIPES[pp % 3]])
        if t.plain and any(isinstance(v, Categorical) for v in t.rows[0].values()):
            for tp in ('onehot', 'onehot_tuple', 'string'): out.append(['cat', tp])
    return out


def stage_kind(st):
    """Coarse class of a stage for violation keys (no values)."""
    k = st[0]
    if k in ('head', 'headmap', 'shead'): return {'head': 'Head(list)', 'headmap': 'Head(mapping)', 'shead': 'Head(mapping)'}[k]
    if k == 'enc':
        if st[1] == 'list': return 'Encode(list)'
        by = {('name' if isinstance(kk, str) else 'index') for kk, _ in st[2]}
        return 'Encode(dict by %s)' % '+'.join(sorted(by))
    if k == 'drop':
        parts = []
        if st[1]:
            by = {('name' if isinstance(c, str) else 'index') for c in st[1]}
            parts.append('cols by %s' % '+'.join(sorted(by)))
        if st[2]: parts.append('rows by missing' if st[2][0] == 'missing' else 'rows by %s' % ('name' if isinstance(st[2][1], str) else 'index'))
        return 'Drop(%s)' % ', '.join(parts)
    if k == 'label': return 'Label(by %s)' % ('name' if isinstance(st[1], str) else 'index')
    if k == 'cat': return 'EncodeCat(%s)' % st[1]
    raise ValueError(st)


SRC_KIND = {'dl': 'dense lists', 'dc': 'dense lists with Categorical', 'sk': 'sparse dicts', 'si': 'sparse dicts (int keys)',
            'sc': 'sparse dicts with Categorical', 'ad': 'ARFF dense', 'as': 'ARFF sparse', 'aq': 'ARFF dense (mixed quoting)',
            'lz': 'LazyDense rows', 'lzs': 'LazySparse rows', 'lzr': 'LazyDense rows (other header order)',
            'ae': 'ARFF dense (special cells)', 'aes': 'ARFF sparse (special cells)',
            'od': 'openml-like ARFF dense', 'os': 'openml-like ARFF sparse', 'aq4': 'ARFF dense (4 lines, mixed quoting)', 'adt': 'ARFF dense (tab separated)', 'aet': 'ARFF dense (special cells, tab separated)'}

# re-use cases: the SAME filter objects are applied to table 1, then table 2, then table 1 again
REUSE_GROUPS = [['dl', 'ad', 'lz', 'lzr', 'aq', 'ae', 'adt'],        # dense: unheaded / headed / other header order / other names
                ['sk', 'as', 'lzs', 'aes'],                    # sparse keyed by name
                ['dl', 'si']]                                   # dense vs sparse keyed by column number (index-based stages)
REUSE_SELF = ['dc', 'sc', 'si']


def reuse_pairs():
    out = []
    for g in REUSE_GROUPS:
        for x in g:
            for y in g:
                if x != y and [x, y] not in out: out.append([x, y])
    out += [[x, x] for x in REUSE_SELF]
    return out
