"""Run one C08 configuration on the REAL OS primitives (real spawn processes, real mp.Queue) and print the observation.
usage: python -m vf.lib.realmp '<json case>'"""
import sys, json


def main():
    case = json.loads(sys.argv[1])
    from coba.pipes import Multiprocessor
    from vf.lib.mpharness import TenTimes, InjectedError
    items = list(range(1, case['items'] + 1))
    outs, exc = [], None
    try:
        for o in Multiprocessor(TenTimes(case['faults'], case.get('exc', 'custom'), case.get('fan', 'one')), case['n'], case['m']).filter(items): outs.append(o)
    except Exception as e:      # noqa
        exc = e
    print('OBS ' + json.dumps({'outs': outs, 'exc': type(exc).__name__ if exc is not None else None,
                               'exc_item': None if exc is None else (str(getattr(exc, 'item', None) if hasattr(exc, 'item') else (exc.args[0] if exc.args else None))[:40]), 'handled': [(o[0], o[1] // 10) for o in outs if o is not None]}))


if __name__ == '__main__':
    main()
