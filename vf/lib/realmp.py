"""Run one C08 configuration on the REAL OS primitives (real spawn processes, real mp.Queue) and print the observation.
usage: python -m vf.lib.realmp '<json case>'"""
import sys, json


def main():
    case = json.loads(sys.argv[1])
    from coba.pipes import Multiprocessor
    from vf.lib.mpharness import TenTimes, InjectedError
    items = list(range(1, case['items'] + 1))
    outs, exc = [], None
    try:
        for o in Multiprocessor(TenTimes(case['faults'], case.get('exc', 'custom')), case['n'], case['m']).filter(items): outs.append(o)
    except Exception as e:      # noqa
        exc = e
    print('OBS ' + json.dumps({'outs': outs, 'exc': type(exc).__name__ if exc is not None else None,
                               'exc_item': getattr(exc, 'item', None) if exc is None or hasattr(exc, 'item') else (exc.args[0] if exc.args else None), 'handled': [(p, v // 10) for p, v in outs]}))


if __name__ == '__main__':
    main()
