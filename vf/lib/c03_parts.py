"""Picklable experiment components for C03 (module level, importable by spawned / simulated child processes).

Everything is deterministic and built FRESH from a small descriptor by `build_components(faults)`:

  Env03   two environments with different data (E0: 3 interactions over actions a,b,c; E1: 2 over x,y); every
          interaction carries the extra key 'env' (recorded in the rows by SequentialCB, so rows identify their env).
          build_components(chunk=...) optionally pipes them into coba's Chunk filter (own / one shared Chunk object),
          which makes ChunkTasks hand several tasks to one ProcessTasks.filter call.
  Lrn03   a HISTORY-REVEALING learner: the action it picks, the probability it reports and what it writes to
          CobaContext.learning_info are functions of everything it was taught so far (number of learn calls and
          the rewards seen), so any state carried from one evaluation into another changes the rows.  One of the
          learning_info keys is written by this learner only, so a stale entry of another evaluation stays visible.
  Lrn03F  the same learner with a clean-up hook `finish()` (coba calls it on the copy it made of a learner that is listed
          in several triples).  Like a learner that releases a buffer it allocates on its first successful predict, its
          finish SUCCEEDS after a complete evaluation (it writes one line 'C03-FINISH<...>' to the coba logger, which is how
          the call is observed, also from worker processes) and RAISES Fault03('C03-FINISH-BROKEN<...>') when the object
          was never successfully asked to predict or one of its own predict / learn calls raised.
          Both learner classes take ONE interaction at a time (a batched call is rejected with TypeError before anything
          is touched), so on a batched environment coba's SafeLearner has to fall back to row-by-row calls.
  Seq03   coba's real SequentialCB (subclassed only to carry a tag / the fault hooks).
  Scr03   a scripted generator evaluator: predicts on every interaction, teaches the learner on the even ones.

A fault descriptor is {'at': kind, 'k': int, 'on': [e, l, v]}.  It is armed on the component(s) of the designated
triple `on` and raises Fault03(fault_text(f)):

  env.params / lrn.params / val.params   when the params property of that component object is read
  env.read   k                           when the k-th interaction of environment e is produced by read()
  predict    k                           at the k-th predict call that learner l receives for a context of environment e
  learn      k                           at the k-th learn   call that learner l receives for a context of environment e
  evaluate                               when evaluator v is asked to evaluate (environment e, learner l)
  lrn.finish                             (Lrn03F only) when finish() is called on a learner-l object that was used on environment e
"""
from coba.context import CobaContext
from coba.evaluators import SequentialCB
from coba.primitives import Learner, Evaluator, Environment, SimulatedInteraction, is_batch

N_ITEMS = {0: 3, 1: 2}
N_LONG = 32          # length of E0 in the 'long' variant (more than one 25-interaction slice of coba's Cache filter)


def n_items(e, long=False):
    return N_LONG if (long and e == 0) else N_ITEMS[e]
ACTIONS = {0: ['a', 'b', 'c'], 1: ['x', 'y']}
FAULT_KINDS = ('env.params', 'env.read', 'lrn.params', 'predict', 'learn', 'val.params', 'evaluate', 'lrn.finish')


class Fault03(Exception):
    """The injected failure."""


def fault_text(f):
    e, l, v = f['on']
    at, k = f['at'], f.get('k', 0)
    if at == 'env.params': return f'C03-FAULT<env.params E{e}>'
    if at == 'env.read': return f'C03-FAULT<env.read E{e} item {k}>'
    if at == 'lrn.params': return f'C03-FAULT<lrn.params L{l}>'
    if at == 'predict': return f'C03-FAULT<predict L{l} on E{e} call {k}>'
    if at == 'learn': return f'C03-FAULT<learn L{l} on E{e} call {k}>'
    if at == 'val.params': return f'C03-FAULT<val.params V{v}>'
    if at == 'evaluate': return f'C03-FAULT<evaluate V{v} on E{e} L{l}>'
    if at == 'lrn.finish': return f'C03-FAULT<finish L{l} after E{e}>'
    raise ValueError(at)


def rewards_of(e, i):
    if e == 0: return [i + 1, 2 * (i + 1), 3 * (i + 1)]
    return [5 + i, 7 + 2 * i]


class Env03(Environment):
    def __init__(self, e, faults=(), n=None):
        self.e = e
        self.n = N_ITEMS[e] if n is None else n
        self._params_fault = [fault_text(f) for f in faults if f['at'] == 'env.params' and f['on'][0] == e]
        self._read_faults = {f['k']: fault_text(f) for f in faults if f['at'] == 'env.read' and f['on'][0] == e}

    @property
    def params(self):
        if self._params_fault: raise Fault03(self._params_fault[0])
        return {'tag': f'E{self.e}'}

    def read(self):
        for i in range(self.n):
            if i in self._read_faults: raise Fault03(self._read_faults[i])
            yield SimulatedInteraction((self.e, i), list(ACTIONS[self.e]), rewards_of(self.e, i), env=f'E{self.e}')


class Lrn03(Learner):
    def __init__(self, l, faults=()):
        self.l = l
        self.hist = []          # every (context, action, reward) it was taught
        self.calls = {}         # (kind, env) -> number of calls received
        self.broken = False     # one of its own calls raised
        self.finished = 0       # finish() calls received (Lrn03F)
        self._params_fault = [fault_text(f) for f in faults if f['at'] == 'lrn.params' and f['on'][1] == l]
        self._call_faults = {(f['at'], f['on'][0], f['k']): fault_text(f) for f in faults
                             if f['at'] in ('predict', 'learn') and f['on'][1] == l}

    @property
    def params(self):
        if self._params_fault: raise Fault03(self._params_fault[0])
        return {'tag': f'L{self.l}'}

    def untouched(self):
        return not self.hist and not self.calls and not self.finished

    def _call(self, kind, context):
        # like most user-written learners it takes ONE interaction at a time: a batch is rejected before anything is
        # touched (coba's SafeLearner then falls back to row-by-row calls)
        if is_batch(context) or not (isinstance(context, (tuple, list)) and len(context) == 2 and isinstance(context[0], int)):
            raise TypeError('Lrn03 takes one interaction at a time')
        e = context[0]
        k = self.calls.get((kind, e), 0)
        self.calls[(kind, e)] = k + 1
        msg = self._call_faults.get((kind, e, k))
        if msg:
            self.broken = True
            raise Fault03(msg)

    def predict(self, context, actions):
        self._call('predict', context)
        n = len(self.hist)
        s = sum(int(r) for _, _, r in self.hist)
        return actions[(n + s + self.l) % len(actions)], (1 + n) / 16

    def learn(self, context, action, reward, probability, **kwargs):
        if is_batch(context): raise TypeError('Lrn03 takes one interaction at a time')
        info = CobaContext.learning_info
        info['lrn'] = self.l                # an int on purpose: coba's Unbatch indexes into strings
        info['n_taught'] = len(self.hist)
        info[f'L{self.l}_calls'] = self.calls.get(('learn', context[0]), 0)      # a key only this learner writes (stale entries stay visible)
        info['sum_taught'] = sum(int(r) for _, _, r in self.hist)
        self._call('learn', context)
        self.hist.append((tuple(context), action, reward))


FINISH_MARK = 'C03-FINISH<'
FINISH_BROKEN = 'C03-FINISH-BROKEN<'


class Lrn03F(Lrn03):
    """Lrn03 with a clean-up hook (see the module docstring)."""
    def __init__(self, l, faults=()):
        Lrn03.__init__(self, l, faults)
        self._buffer = None     # allocated by the first successful predict, released by finish
        self._finish_faults = {f['on'][0]: fault_text(f) for f in faults if f['at'] == 'lrn.finish' and f['on'][1] == l}

    def predict(self, context, actions):
        out = Lrn03.predict(self, context, actions)
        if self._buffer is None: self._buffer = []
        return out

    def finish(self):
        self.finished += 1
        envs = sorted({e for _, e in self.calls})
        msg = None
        if self._buffer is None or self.broken:
            msg = f'{FINISH_BROKEN}L{self.l}: finish() of a learner whose evaluation was cut short>'
        else:
            msg = next((self._finish_faults[e] for e in envs if e in self._finish_faults), None)
        # the observable trace of the call (a plain log line; it says whether the call is about to raise, not with what)
        CobaContext.logger.log(f"{FINISH_MARK}L{self.l} used on {'+'.join('E%d' % e for e in envs) or 'nothing'} taught {len(self.hist)} "
                               f"call {self.finished} {'raises' if msg else 'ok'}>")
        if msg: raise Fault03(msg)
        self._buffer = None


def env_index(environment):
    """The index of the Env03 behind an environment (bare, or the source of a [Env03, Chunk, ...] pipeline)."""
    return environment.e if hasattr(environment, 'e') else environment[0].e


class _ValFaults:
    def _arm(self, v, faults):
        self.v = v
        self._params_fault = [fault_text(f) for f in faults if f['at'] == 'val.params' and f['on'][2] == v]
        self._eval_faults = {(f['on'][0], f['on'][1]): fault_text(f) for f in faults if f['at'] == 'evaluate' and f['on'][2] == v}


class Seq03(SequentialCB, _ValFaults):
    """V0: the real SequentialCB (default record/learn/eval)."""
    def __init__(self, v=0, faults=()):
        SequentialCB.__init__(self)
        self._arm(v, faults)

    @property
    def params(self):
        if self._params_fault: raise Fault03(self._params_fault[0])
        return {**SequentialCB.params.fget(self), 'tag': f'V{self.v}'}

    def evaluate(self, environment, learner):
        msg = self._eval_faults.get((env_index(environment), learner.l))
        if msg: raise Fault03(msg)
        return SequentialCB.evaluate(self, environment, learner)


class Scr03(Evaluator, _ValFaults):
    """V1: scripted evaluator (a generator; teaches on the even interactions only)."""
    def __init__(self, v=1, faults=()):
        self._arm(v, faults)

    @property
    def params(self):
        if self._params_fault: raise Fault03(self._params_fault[0])
        return {'tag': f'V{self.v}'}

    def evaluate(self, environment, learner):
        msg = self._eval_faults.get((env_index(environment), learner.l))
        if msg: raise Fault03(msg)
        for i, inter in enumerate(_single_rows(environment.read())):
            a, p = learner.predict(inter['context'], inter['actions'])
            r = inter['rewards'][inter['actions'].index(a)]
            if i % 2 == 0: learner.learn(inter['context'], a, r, p)
            yield {'val': f'V{self.v}', 'env': inter['env'], 'lrn': learner.l, 'i': i, 'action': a, 'reward': r,
                   'probability': p, 'n_taught': len(learner.hist)}


def _single_rows(interactions):
    """The scripted evaluator works interaction by interaction: batched interactions are taken apart."""
    for inter in interactions:
        if is_batch(inter.get('context')) or is_batch(inter.get('actions')):
            size = len(inter['actions'])
            for j in range(size):
                yield {k: (v[j] if is_batch(v) else v) for k, v in inter.items()}
        else:
            yield inter


def n_calls(kind, e, v, long=False):
    """How many predict / learn calls evaluator v makes on an (unfaulted) evaluation of environment e."""
    n = n_items(e, long)
    if kind == 'predict' or v == 0: return n
    return (n + 1) // 2


def build_components(faults=(), chunk=None, fin=False, long=False, batch=()):
    """Fresh (envs, learners, evaluators) with the faults armed.
    chunk: how the environments are wrapped -
      None           bare Env03 objects
      'per-env'      each piped into its own Chunk filter, like Environments.chunk(cache=False)
      'shared'       both piped into ONE Chunk object, so that every task that has an environment lands in the same chunk of
                     ChunkTasks / the same ProcessTasks.filter call
      'cache'        each piped into coba's Cache(25) filter, like Environments.cache()
      'chunk+cache'  each piped into Chunk and then Cache(25), like Environments.chunk()
    fin:   the learners are Lrn03F (with a finish() hook) instead of Lrn03.
    long:  E0 has N_LONG interactions instead of 3.
    batch: indices of the environments that are additionally piped into Batch(2), like Environments.batch(2)."""
    from coba.pipes import Pipes, Cache
    from coba.environments import Chunk, Batch
    faults = list(faults)
    envs = [Env03(0, faults, n_items(0, long)), Env03(1, faults, n_items(1, long))]
    if chunk == 'per-env': envs = [Pipes.join(e, Chunk()) for e in envs]
    elif chunk == 'shared':
        c = Chunk()
        envs = [Pipes.join(e, c) for e in envs]
    elif chunk == 'cache': envs = [Pipes.join(e, Cache(25)) for e in envs]
    elif chunk == 'chunk+cache': envs = [Pipes.join(Pipes.join(e, Chunk()), Cache(25)) for e in envs]
    elif chunk is not None: raise ValueError(chunk)
    envs = [Pipes.join(e, Batch(2)) if i in tuple(batch) else e for i, e in enumerate(envs)]
    lrn = Lrn03F if fin else Lrn03
    return (envs, [lrn(0, faults), lrn(1, faults)], [Seq03(0, faults), Scr03(1, faults)])
