"""Picklable experiment components and experiment shapes for C01 (importable by real spawned children).

Every shape builds FRESH objects from a descriptor; everything is seeded / deterministic.
"""
from coba.environments import Environments
from coba.learners import RandomLearner, BanditEpsilonLearner, BanditUCBLearner
from coba.evaluators import SequentialCB, RejectionCB
from coba.primitives import Learner, Evaluator


class PmfLearner(Learner):
    """Stateful; answers with a PMF over the actions, so the evaluator's SafeLearner has to sample with its own rng
    (the only place where the experiment seed becomes observable)."""
    def __init__(self, tag='pmf'):
        self.tag = tag
        self.n = 0

    @property
    def params(self): return {'family': 'PmfLearner', 'tag': self.tag}

    def predict(self, context, actions):
        k = len(actions)
        w = [1 + ((self.n + i) % 3) for i in range(k)]
        s = sum(w)
        return [x / s for x in w]

    def learn(self, context, action, reward, probability, **kw):
        self.n += 1


class KwargsLearner(Learner):
    """Stateful; returns (pmf, kwargs) and checks that the kwargs come back in learn."""
    def __init__(self):
        self.n = 0
        self.bad = 0

    @property
    def params(self): return {'family': 'KwargsLearner'}

    def predict(self, context, actions):
        k = len(actions)
        w = [1 + ((2 * self.n + i) % 4) for i in range(k)]
        s = sum(w)
        return [x / s for x in w], {'round': self.n}

    def learn(self, context, action, reward, probability, round=None, **kw):
        if round != self.n: self.bad += 1
        self.n += 1


class InfoLearner(Learner):
    """Stateful round-robin learner that adds columns through CobaContext.learning_info (the documented way)."""
    def __init__(self):
        self.n = 0

    @property
    def params(self): return {'family': 'InfoLearner'}

    def predict(self, context, actions):
        from coba.context import CobaContext
        CobaContext.learning_info['n_pred'] = self.n
        return actions[self.n % len(actions)]

    def score(self, context, actions, action):
        from coba.context import CobaContext
        CobaContext.learning_info['n_score'] = self.n
        return 1.0 if action == actions[self.n % len(actions)] else 0.0

    def learn(self, context, action, reward, probability, **kw):
        from coba.context import CobaContext
        self.n += 1
        CobaContext.learning_info['n_learn'] = self.n


class CountingEvaluator(Evaluator):
    """Custom evaluator: deterministic rows from the interaction order plus the learner's choices (uses the experiment seed)."""
    def __init__(self, tag='count'):
        self.tag = tag

    @property
    def params(self): return {'eval_type': 'Counting', 'tag': self.tag}

    def evaluate(self, environment, learner):
        from coba.context import CobaContext
        from coba.safety import SafeLearner
        seed = CobaContext.store.get('experiment_seed')
        lrn = SafeLearner(learner, seed)
        for i, inter in enumerate(environment.read()):
            a, p, kw = lrn.predict(inter.get('context'), inter['actions'])
            r = inter['rewards'](a) if callable(inter['rewards']) else inter['rewards'][inter['actions'].index(a)]
            lrn.learn(inter.get('context'), a, r, p, **kw)
            yield {'i': i, 'reward': r, 'n_actions': len(inter['actions']), 'seed': seed}


class SummaryEvaluator(Evaluator):
    """Custom evaluator that yields ONE summary row per evaluation - also for an environment without interactions."""
    @property
    def params(self): return {'eval_type': 'Summary'}

    def evaluate(self, environment, learner):
        n = 0; total = 0.0
        for inter in environment.read():
            n += 1
            r = inter['rewards']
            a = inter['actions'][0]
            total += r(a) if callable(r) else r[0]
        yield {'n_interactions': n, 'first_action_total': total}


def _syn(n=4, seed=1, **kw):
    return Environments.from_linear_synthetic(n, n_actions=3, n_context_features=2, n_action_features=2, seed=seed, **kw)


def build(shape):
    """-> kwargs/args for coba.experiments.Experiment: ('cross', envs, learners, evaluators) or ('triples', list)."""
    if shape == 'S1':
        return ('cross', _syn(4, 1), [RandomLearner(seed=3)], SequentialCB())
    if shape == 'S2':
        return ('cross', _syn(4, 1) + _syn(3, 2), [RandomLearner(seed=3), BanditEpsilonLearner(0.1, seed=2)], SequentialCB())
    if shape == 'S3':
        return ('cross', _syn(5, 1).chunk().shuffle(n=2), [BanditEpsilonLearner(0.2, seed=5), BanditUCBLearner(seed=4)], SequentialCB())
    if shape == 'S4':
        e1, e2 = _syn(4, 1)[0], _syn(4, 2)[0]
        lg = _syn(6, 3).logged(RandomLearner(seed=7))[0]
        shared = BanditEpsilonLearner(0.1, seed=2)
        other = RandomLearner(seed=9)
        v1, v2 = SequentialCB(), RejectionCB(seed=11)
        return ('triples', [(e1, shared, v1), (e2, shared, v1), (lg, other, v2), (lg, shared, v2), (e1, other, SequentialCB(record=['reward', 'probability']))])
    if shape == 'S5':
        return ('cross', _syn(4, 1) + _syn(4, 4), [PmfLearner(), KwargsLearner()], SequentialCB(record=['reward', 'action', 'probability']))
    if shape == 'S6':
        return ('cross', _syn(4, 1).cache().shuffle(n=2), [PmfLearner('a'), RandomLearner(seed=1)], [CountingEvaluator(), SequentialCB()])
    if shape == 'S7':   # a RejectionCB evaluation (leaves learning_info behind) next to learners that write learning_info
        lg = _syn(6, 3).logged(RandomLearner(seed=7))[0]
        e1 = _syn(4, 1)[0]
        return ('triples', [(lg, BanditEpsilonLearner(0.1, seed=2), RejectionCB(seed=11)), (e1, InfoLearner(), SequentialCB()), (lg, InfoLearner(), RejectionCB(seed=5)), (e1, RandomLearner(seed=3), SequentialCB())])
    if shape == 'S8':   # one environment, one stateful learner, several evaluators
        return ('cross', _syn(5, 1), [InfoLearner()], [SequentialCB(), SequentialCB(record=['action', 'reward'])])
    if shape == 'S9':   # the same behind a chunk (both evaluations end up in one chunk)
        return ('cross', _syn(5, 2).chunk(), [InfoLearner(), BanditEpsilonLearner(0.3, seed=6)], [SequentialCB(), SequentialCB(record=['action', 'reward', 'probability'])])
    if shape == 'S10':  # an environment that turns out to be EMPTY (dropped by where) next to a normal one, behind one chunk
        envs = (_syn(4, 1) + _syn(3, 2)).chunk().where(n_interactions=(4, None))
        return ('cross', envs, [RandomLearner(seed=3)], [SummaryEvaluator(), SequentialCB()])
    if shape.startswith('P:'):
        envs, kind = PIPES[shape[2:]]()
        if kind == 'greedy': return ('cross', envs, [GreedyLearner()], SequentialCB(record=['reward', 'action', 'probability']))
        lrns = [RandomLearner(seed=3), PmfLearner()] if kind == 'igl' else [BanditEpsilonLearner(0.3, seed=6), PmfLearner()]
        return ('cross', envs, lrns, _pipe_evaluator(kind))
    if shape.startswith('L:'):
        return ('cross', (_syn0(5, 1) + _syn0(4, 2)).binary() if 'corral' in shape else _env_for('sim'), [_learners()[shape[2:]](), RandomLearner(seed=3)], SequentialCB(record=['reward', 'action', 'probability']))
    if shape.startswith('V:'):
        val, kind = _evaluators()[shape[2:]]()
        lrns = [RandomLearner(seed=3), PmfLearner()] if kind == 'igl' else [BanditEpsilonLearner(0.3, seed=6), BanditUCBLearner(seed=4) if kind.startswith('log') else PmfLearner()]
        return ('cross', _env_for(kind), lrns, val)
    raise ValueError(shape)


def make_experiment(shape):
    from coba.experiments import Experiment
    spec = build(shape)
    if spec[0] == 'cross': return Experiment(spec[1], spec[2], spec[3])
    return Experiment(spec[1])


TIMING = ('predict_time', 'learn_time')


def canon(result):
    """The four tables (rows as sorted-key dicts, in table order, timing columns dropped) + experiment meta."""
    def rows(table):
        out = []
        for r in table.to_dicts():
            out.append({k: _c(v) for k, v in sorted(r.items(), key=lambda kv: str(kv[0])) if k not in TIMING})
        return out
    return {'environments': rows(result.environments), 'learners': rows(result.learners), 'evaluators': rows(result.evaluators),
            'interactions': rows(result.interactions), 'experiment': {k: _c(v) for k, v in sorted(result.experiment.items())}}


def _c(v):
    if isinstance(v, float):
        if v != v: return 'nan'
        return repr(v)
    if isinstance(v, (list, tuple)): return [_c(x) for x in v]
    if isinstance(v, dict): return {str(k): _c(x) for k, x in sorted(v.items(), key=lambda kv: str(kv[0]))}
    if v is None or isinstance(v, (int, str, bool)): return v
    return repr(v)


# ---------------------------------------------------------------- the pipeline alphabet (C01 'P:<name>' shapes)
# one environment filter / source each, built with NON-default parameter values (what a worker receives is a pickled copy of the
# pipeline: every parameter has to survive the trip), evaluated by an evaluator that can read its output
def _syn0(n=6, seed=1): return Environments.from_linear_synthetic(n, n_actions=3, n_context_features=2, n_action_features=0, seed=seed)      # hashable (one-hot tuple) actions


def _logged(n=6, seed=3): return _syn(n, seed).logged(RandomLearner(seed=5), seed=2.5)


PIPES = {
    'noise-seeds':    lambda: (_syn(5, 1).noise(context=(0, .5), reward=('i', 0, 1), seed=[2, 3]), 'cb'),
    'noise-action':   lambda: (_syn(5, 1).noise(action=('g', 0, .25), seed=7), 'cb'),
    'shuffle-seeds':  lambda: (_syn(5, 1).shuffle([4, 9]), 'cb'),
    'reservoir':      lambda: (_syn(8, 1).reservoir(4, seeds=[3, 5]), 'cb'),
    'riffle':         lambda: (_syn(6, 1).riffle(2, seed=4), 'cb'),
    'scale-mean-std': lambda: (_syn(6, 1).scale('mean', 'std', using=3), 'cb'),
    'scale-num':      lambda: (_syn(6, 1).scale(0.5, 'maxabs'), 'cb'),
    'impute':         lambda: (_syn(6, 1).impute('median', indicator=False, using=4), 'cb'),
    'sort':           lambda: (_syn(6, 1).sort(1), 'cb'),
    'slice':          lambda: (_syn(8, 1).slice(1, 7, 2), 'cb'),
    'take-strict':    lambda: (_syn(6, 1).take(4, strict=True), 'cb'),
    'cycle':          lambda: (_syn0(6, 1).cycle(2), 'cb'),
    'params':         lambda: (_syn(4, 1).params({'tag': 'z', 'n': 2}), 'cb'),
    'sparse':         lambda: (_syn(5, 1).sparse(context=True, action=True), 'cb'),
    'dense-hash':     lambda: (_syn(5, 1).sparse(context=True, action=True).dense(5, 'hashing', context=True, action=True), 'cb'),
    'dense-lookup':   lambda: (_syn(5, 1).sparse().dense(6, 'lookup'), 'cb'),
    'dense-lookup-2': lambda: ((_syn(5, 1) + _syn(4, 2)).sparse(action=True).dense(12, 'lookup', action=True), 'cb'),      # ONE Densify object shared by two environments
    'flatten':        lambda: (_syn(5, 1).flatten(), 'cb'),
    'materialize':    lambda: (_syn(5, 1).shuffle(seed=3).materialize(), 'cb'),
    'batch':          lambda: (_syn(6, 1).batch(2), 'cb'),
    'mixed-batch':    lambda: (_syn(6, 1) + _syn(6, 2).batch(3), 'cb'),      # one learner class on unbatched AND batched environments, either order
    'mixed-batch-2':  lambda: (_syn(6, 2).batch(2) + _syn(6, 1), 'cb'),
    'unbatch':        lambda: (_syn(6, 1).batch(3).unbatch(), 'cb'),
    'where':          lambda: ((_syn(5, 1) + _syn(3, 2)).where(n_interactions=(4, None)), 'cb'),
    'binary':         lambda: (_syn(5, 1).binary(), 'cb'),
    'logged-seed':    lambda: (_logged(), 'ips'),
    'logged-ope':     lambda: (_logged().ope_rewards('IPS'), 'ips'),
    'logged-reject':  lambda: (_logged(8, 4), 'reject'),
    'grounded':       lambda: (_syn0(6, 1).binary().grounded(4, 2, 5, 2, seed=3), 'igl'),
    'neighbors':      lambda: (Environments.from_neighbors_synthetic(6, n_actions=3, n_context_features=2, n_action_features=1, n_neighborhoods=3, seed=4), 'cb'),
    'kernel':         lambda: (Environments.from_kernel_synthetic(6, n_actions=3, n_context_features=2, n_action_features=1, n_exemplars=2, kernel='exponential', gamma=.5, seed=4), 'cb'),
    'mlp':            lambda: (Environments.from_mlp_synthetic(6, n_actions=3, n_context_features=2, n_action_features=1, seed=4), 'cb'),
    'linear-feats':   lambda: (Environments.from_linear_synthetic(6, n_actions=3, n_context_features=2, n_action_features=2, reward_features=['a', 'xa', 'xxa'], seed=6), 'cb'),
    'tiny-gap':       lambda: (Environments(TinyGapEnv(9)).materialize(), 'greedy'),      # rewards differing by < 1e-5, a learner whose choices hinge on them
    'cache-chunk':    lambda: (_syn(5, 2).shuffle(seed=8).cache().noise(reward=(0, .1), seed=[5, 6]).chunk(cache=False), 'cb'),
}


def _pipe_evaluator(kind):
    from coba.evaluators import SequentialIGL
    if kind == 'cb': return SequentialCB(record=['reward', 'action', 'probability', 'context'])
    if kind == 'ips': return SequentialCB(learn='off', eval='ips', record=['reward', 'action', 'probability'])
    if kind == 'reject': return RejectionCB(seed=11)
    if kind == 'igl': return SequentialIGL(seed=4)
    raise ValueError(kind)


# ---------------------------------------------------------------- learner / evaluator alphabets (C01 'L:<name>' / 'V:<name>' shapes)
def _learners():
    from coba.learners import FixedLearner, CorralLearner, MisguidedLearner
    return {
        'fixed':        lambda: FixedLearner([.2, .3, .5], seed=4),
        'ucb':          lambda: BanditUCBLearner(seed=3),
        'epsilon':      lambda: BanditEpsilonLearner(0.4, seed=9),
        'corral-imp':   lambda: CorralLearner([RandomLearner(seed=2), BanditEpsilonLearner(0.2, seed=4)], eta=.1, T=50, mode='importance', seed=5),
        'corral-off':   lambda: CorralLearner([RandomLearner(seed=2), BanditUCBLearner(seed=4)], eta=.05, mode='off-policy', seed=6),
        'misguided':    lambda: MisguidedLearner(BanditEpsilonLearner(0.2, seed=3), 1, -1),
        'kwargs':       lambda: KwargsLearner(),
        'info':         lambda: InfoLearner(),
    }


def _evaluators():
    from coba.evaluators import SequentialIGL
    return {
        'cb-seed':       lambda: (SequentialCB(seed=5), 'sim'),
        'cb-record':     lambda: (SequentialCB(record=['reward', 'probability', 'action', 'context', 'actions', 'rewards'], seed=2.5), 'sim'),
        'cb-learn-none': lambda: (SequentialCB(learn=None, eval='on'), 'sim'),
        'cb-off-ips':    lambda: (SequentialCB(learn='off', eval='ips', seed=3), 'log'),
        'cb-ips-ips':    lambda: (SequentialCB(learn='ips', eval='ips'), 'log'),
        'cb-ips-on':     lambda: (SequentialCB(learn='ips', eval='on', seed=8), 'log'),
        'reject-seed':   lambda: (RejectionCB(record=['context', 'actions', 'action', 'reward', 'probability'], cpct=.1, cmax=.9, cinit=.5, seed=3), 'log'),
        'reject-dflt':   lambda: (RejectionCB(), 'log'),
        'reject-dflt-2': lambda: (RejectionCB(record=['reward', 'probability']), 'log2'),
        # the data-adaptive start value only matters until the first acceptance: several evaluator seeds = several first draws
        **{f'reject-s{k}': (lambda k=k: (RejectionCB(seed=k), 'log')) for k in (1, 2, 3, 4, 5, 6)},
        'igl-seed':      lambda: (SequentialIGL(record=['reward', 'feedback', 'prob', 'action'], seed=6), 'igl'),
        'summary':       lambda: (SummaryEvaluator(), 'sim'),
        'counting':      lambda: (CountingEvaluator('z'), 'sim'),
    }


LEARNERS = list(_learners())
EVALUATORS = list(_evaluators())


def _env_for(kind):
    if kind == 'sim': return _syn(5, 1) + _syn0(4, 2)
    # two logged environments whose logging policies have DIFFERENT smallest probabilities (1/3 vs 1/6), in both orders: whatever an evaluator
    # object derives from the data of one evaluation must not reach the next evaluation in the same process
    # (fixed one-hot actions, so that the bandit learners really learn and the logged probabilities vary)
    if kind == 'log': return _syn0(12, 2).logged(BanditEpsilonLearner(0.5, seed=2), seed=4) + _syn0(12, 3).logged(RandomLearner(seed=5), seed=2.5)
    if kind == 'log2': return _syn0(12, 3).logged(RandomLearner(seed=5), seed=2.5) + _syn0(12, 2).logged(BanditEpsilonLearner(0.5, seed=2), seed=4)
    if kind == 'igl': return _syn0(6, 1).binary().grounded(4, 2, 5, 2, seed=3)
    raise ValueError(kind)


# ---------------------------------------------------------------- values that must survive the pickle trip EXACTLY
class TinyGapEnv:
    """In-memory environment holding DiscreteReward objects whose values differ by less than 1e-5 (the precision of coba's printed /
    recorded rewards): a worker must see exactly the values the in-process run sees."""
    def __init__(self, n=8): self.n = n

    @property
    def params(self): return {'env_type': 'TinyGap', 'n': self.n}

    def read(self):
        from coba.primitives import DiscreteReward
        base = [0.300001, 0.300004, 0.3000025]
        for i in range(self.n):
            vals = base[i % 3:] + base[:i % 3]
            yield {'context': i % 2, 'actions': [0, 1, 2], 'rewards': DiscreteReward([0, 1, 2], vals)}


class GreedyLearner(Learner):
    """Deterministic: plays the action with the largest mean of the rewards it was shown (ties -> the first), untried actions first."""
    def __init__(self): self.sums = {}; self.cnts = {}

    @property
    def params(self): return {'family': 'GreedyLearner'}

    def predict(self, context, actions):
        for a in actions:
            if a not in self.cnts: return a, 1.0
        return max(actions, key=lambda a: (self.sums[a] / self.cnts[a], -actions.index(a))), 1.0

    def learn(self, context, action, reward, probability, **kw):
        self.sums[action] = self.sums.get(action, 0) + reward
        self.cnts[action] = self.cnts.get(action, 0) + 1
