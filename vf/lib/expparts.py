"""Picklable experiment components and experiment shapes for C01 (importable by real spawned children).

Every shape builds FRESH objects from a descriptor; everything is seeded / deterministic.
"""
from coba.environments import Environments
from coba.learners import RandomLearner, BanditEpsilonLearner, BanditUCBLearner
from coba.evaluators import SequentialCB, RejectionCB
from coba.primitives import Learner, Evaluator


class PmfLearner(Learner):
    """Stateful; answers with a PMF over the actions, so the evaluator's SafeLearner has to sample with its own rng
    (the only place where the experiment seed becomes observable)."""
    def __init__(self, tag='pmf'):
        self.tag = tag
        self.n = 0

    @property
    def params(self): return {'family': 'PmfLearner', 'tag': self.tag}

    def predict(self, context, actions):
        k = len(actions)
        w = [1 + ((self.n + i) % 3) for i in range(k)]
        s = sum(w)
        return [x / s for x in w]

    def learn(self, context, action, reward, probability, **kw):
        self.n += 1


class KwargsLearner(Learner):
    """Stateful; returns (pmf, kwargs) and checks that the kwargs come back in learn."""
    def __init__(self):
        self.n = 0
        self.bad = 0

    @property
    def params(self): return {'family': 'KwargsLearner'}

    def predict(self, context, actions):
        k = len(actions)
        w = [1 + ((2 * self.n + i) % 4) for i in range(k)]
        s = sum(w)
        return [x / s for x in w], {'round': self.n}

    def learn(self, context, action, reward, probability, round=None, **kw):
        if round != self.n: self.bad += 1
        self.n += 1


class InfoLearner(Learner):
    """Stateful round-robin learner that adds columns through CobaContext.learning_info (the documented way)."""
    def __init__(self):
        self.n = 0

    @property
    def params(self): return {'family': 'InfoLearner'}

    def predict(self, context, actions):
        from coba.context import CobaContext
        CobaContext.learning_info['n_pred'] = self.n
        return actions[self.n % len(actions)]

    def score(self, context, actions, action):
        from coba.context import CobaContext
        CobaContext.learning_info['n_score'] = self.n
        return 1.0 if action == actions[self.n % len(actions)] else 0.0

    def learn(self, context, action, reward, probability, **kw):
        from coba.context import CobaContext
        self.n += 1
        CobaContext.learning_info['n_learn'] = self.n


class CountingEvaluator(Evaluator):
    """Custom evaluator: deterministic rows from the interaction order plus the learner's choices (uses the experiment seed)."""
    def __init__(self, tag='count'):
        self.tag = tag

    @property
    def params(self): return {'eval_type': 'Counting', 'tag': self.tag}

    def evaluate(self, environment, learner):
        from coba.context import CobaContext
        from coba.safety import SafeLearner
        seed = CobaContext.store.get('experiment_seed')
        lrn = SafeLearner(learner, seed)
        for i, inter in enumerate(environment.read()):
            a, p, kw = lrn.predict(inter.get('context'), inter['actions'])
            r = inter['rewards'](a) if callable(inter['rewards']) else inter['rewards'][inter['actions'].index(a)]
            lrn.learn(inter.get('context'), a, r, p, **kw)
            yield {'i': i, 'reward': r, 'n_actions': len(inter['actions']), 'seed': seed}


class SummaryEvaluator(Evaluator):
    """Custom evaluator that yields ONE summary row per evaluation - also for an environment without interactions."""
    @property
    def params(self): return {'eval_type': 'Summary'}

    def evaluate(self, environment, learner):
        n = 0; total = 0.0
        for inter in environment.read():
            n += 1
            r = inter['rewards']
            a = inter['actions'][0]
            total += r(a) if callable(r) else r[0]
        yield {'n_interactions': n, 'first_action_total': total}


def _syn(n=4, seed=1, **kw):
    return Environments.from_linear_synthetic(n, n_actions=3, n_context_features=2, n_action_features=2, seed=seed, **kw)


def build(shape):
    """-> kwargs/args for coba.experiments.Experiment: ('cross', envs, learners, evaluators) or ('triples', list)."""
    if shape == 'S1':
        return ('cross', _syn(4, 1), [RandomLearner(seed=3)], SequentialCB())
    if shape == 'S2':
        return ('cross', _syn(4, 1) + _syn(3, 2), [RandomLearner(seed=3), BanditEpsilonLearner(0.1, seed=2)], SequentialCB())
    if shape == 'S3':
        return ('cross', _syn(5, 1).chunk().shuffle(n=2), [BanditEpsilonLearner(0.2, seed=5), BanditUCBLearner(seed=4)], SequentialCB())
    if shape == 'S4':
        e1, e2 = _syn(4, 1)[0], _syn(4, 2)[0]
        lg = _syn(6, 3).logged(RandomLearner(seed=7))[0]
        shared = BanditEpsilonLearner(0.1, seed=2)
        other = RandomLearner(seed=9)
        v1, v2 = SequentialCB(), RejectionCB(seed=11)
        return ('triples', [(e1, shared, v1), (e2, shared, v1), (lg, other, v2), (lg, shared, v2), (e1, other, SequentialCB(record=['reward', 'probability']))])
    if shape == 'S5':
        return ('cross', _syn(4, 1) + _syn(4, 4), [PmfLearner(), KwargsLearner()], SequentialCB(record=['reward', 'action', 'probability']))
    if shape == 'S6':
        return ('cross', _syn(4, 1).cache().shuffle(n=2), [PmfLearner('a'), RandomLearner(seed=1)], [CountingEvaluator(), SequentialCB()])
    if shape == 'S7':   # a RejectionCB evaluation (leaves learning_info behind) next to learners that write learning_info
        lg = _syn(6, 3).logged(RandomLearner(seed=7))[0]
        e1 = _syn(4, 1)[0]
        return ('triples', [(lg, BanditEpsilonLearner(0.1, seed=2), RejectionCB(seed=11)), (e1, InfoLearner(), SequentialCB()), (lg, InfoLearner(), RejectionCB(seed=5)), (e1, RandomLearner(seed=3), SequentialCB())])
    if shape == 'S8':   # one environment, one stateful learner, several evaluators
        return ('cross', _syn(5, 1), [InfoLearner()], [SequentialCB(), SequentialCB(record=['action', 'reward'])])
    if shape == 'S9':   # the same behind a chunk (both evaluations end up in one chunk)
        return ('cross', _syn(5, 2).chunk(), [InfoLearner(), BanditEpsilonLearner(0.3, seed=6)], [SequentialCB(), SequentialCB(record=['action', 'reward', 'probability'])])
    if shape == 'S10':  # an environment that turns out to be EMPTY (dropped by where) next to a normal one, behind one chunk
        envs = (_syn(4, 1) + _syn(3, 2)).chunk().where(n_interactions=(4, None))
        return ('cross', envs, [RandomLearner(seed=3)], [SummaryEvaluator(), SequentialCB()])
    raise ValueError(shape)


def make_experiment(shape):
    from coba.experiments import Experiment
    spec = build(shape)
    if spec[0] == 'cross': return Experiment(spec[1], spec[2], spec[3])
    return Experiment(spec[1])


TIMING = ('predict_time', 'learn_time')


def canon(result):
    """The four tables (rows as sorted-key dicts, in table order, timing columns dropped) + experiment meta."""
    def rows(table):
        out = []
        for r in table.to_dicts():
            out.append({k: _c(v) for k, v in sorted(r.items(), key=lambda kv: str(kv[0])) if k not in TIMING})
        return out
    return {'environments': rows(result.environments), 'learners': rows(result.learners), 'evaluators': rows(result.evaluators),
            'interactions': rows(result.interactions), 'experiment': {k: _c(v) for k, v in sorted(result.experiment.items())}}


def _c(v):
    if isinstance(v, float):
        if v != v: return 'nan'
        return repr(v)
    if isinstance(v, (list, tuple)): return [_c(x) for x in v]
    if isinstance(v, dict): return {str(k): _c(x) for k, x in sorted(v.items(), key=lambda kv: str(kv[0]))}
    if v is None or isinstance(v, (int, str, bool)): return v
    return repr(v)
