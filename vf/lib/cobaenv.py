"""Glue between the SCHED engine and coba: which module/class attributes are process-global state (swapped per
fake pid) and what a fresh interpreter would hold for them."""
from vf.engines import sched


def _safe_config():
    from coba.context import NullLogger, NullCacher
    from coba.context.core import ExperimentConfig
    import collections
    return {'api_keys': collections.defaultdict(lambda: None), 'cacher': NullCacher(), 'logger': NullLogger(),
            'experiment': ExperimentConfig(1, 0, 0, 'source')}


_registered = False


def register():
    """Declare coba's process-global state (call once, after coba is imported)."""
    global _registered
    if _registered: return
    import coba.random
    from coba.context import CobaContext
    from coba.pipes.multiprocessing import UniqueKey
    G = sched.PIDGLOBALS
    M = G._MISSING
    G.add_attr(CobaContext, '_api_keys', lambda: M)
    G.add_attr(CobaContext, '_cacher', lambda: M)
    G.add_attr(CobaContext, '_logger', lambda: M)
    G.add_attr(CobaContext, '_experiment', lambda: M)
    G.add_attr(CobaContext, '_store', dict)
    G.add_attr(CobaContext, '_learning_info', dict)
    G.add_attr(CobaContext, '_config_backing', _safe_config)
    G.add_attr(CobaContext, '_search_paths', list)
    G.add_attr(coba.random, '_random', lambda: coba.random.CobaRandom(20240229))   # a fresh interpreter is time-seeded
    G.add_attr(UniqueKey, 'N', lambda: 0)
    _registered = True


SWAPPED = {('coba.context.core', 'CobaContext', a) for a in
           ('_api_keys', '_cacher', '_logger', '_experiment', '_store', '_learning_info', '_config_backing', '_search_paths')} | \
          {('coba.random', None, '_random'), ('coba.pipes.multiprocessing', 'UniqueKey', 'N')}
