"""Glue between the SCHED engine and coba: which module/class attributes are process-global state (swapped per
fake pid) and what a fresh interpreter would hold for them."""
from vf.engines import sched


def _safe_config():
    from coba.context import NullLogger, NullCacher
    from coba.context.core import ExperimentConfig
    import collections
    return {'api_keys': collections.defaultdict(lambda: None), 'cacher': NullCacher(), 'logger': NullLogger(),
            'experiment': ExperimentConfig(1, 0, 0, 'source')}


_registered = False


def register():
    """Declare coba's process-global state (call once, after coba is imported)."""
    global _registered
    if _registered: return
    import coba.random
    from coba.context import CobaContext
    from coba.pipes.multiprocessing import UniqueKey
    G = sched.PIDGLOBALS
    M = G._MISSING
    G.add_attr(CobaContext, '_api_keys', lambda: M)
    G.add_attr(CobaContext, '_cacher', lambda: M)
    G.add_attr(CobaContext, '_logger', lambda: M)
    G.add_attr(CobaContext, '_experiment', lambda: M)
    G.add_attr(CobaContext, '_store', dict)
    G.add_attr(CobaContext, '_learning_info', dict)
    G.add_attr(CobaContext, '_config_backing', _safe_config)
    G.add_attr(CobaContext, '_search_paths', list)
    G.add_attr(coba.random, '_random', lambda: coba.random.CobaRandom(20240229))   # a fresh interpreter is time-seeded
    G.add_attr(UniqueKey, 'N', lambda: 0)
    import coba, os
    audit(os.path.dirname(os.path.dirname(os.path.abspath(coba.__file__))))
    _registered = True


SWAPPED = {('coba.context.core', 'CobaContext', a) for a in
           ('_api_keys', '_cacher', '_logger', '_experiment', '_store', '_learning_info', '_config_backing', '_search_paths')} | \
          {('coba.random', None, '_random'), ('coba.pipes.multiprocessing', 'UniqueKey', 'N')}


# ---------------------------------------------------------------- audit: no unknown process-global state
# (module, owner, attribute) written at run time somewhere in coba.  Everything here is either swapped per fake pid
# (CobaContext.*, coba.random._random, UniqueKey.N) or reviewed as harmless for the simulation (constant after import).
_AUDIT_KNOWN = {
    ('coba.context.core', 'cls', a) for a in ('_api_keys', '_cacher', '_config_backing', '_experiment', '_learning_info', '_logger', '_search_paths', '_store')
} | {
    ('coba.environments.core', 'CobaContext', 'cacher'), ('coba.environments.core', 'CobaContext', 'logger'),
    ('coba.experiments.core', 'CobaContext', 'logger'), ('coba.experiments.core', 'CobaContext', 'store[...]'),
    ('coba.multiprocessing', 'CobaContext', 'cacher'), ('coba.multiprocessing', 'CobaContext', 'logger'), ('coba.multiprocessing', 'CobaContext', 'store'),
    ('coba.results.core', 'CobaContext', 'logger'),
    ('coba.pipes.multiprocessing', 'UniqueKey', 'N'),
    ('coba.random', 'global', '_random'),
    # reviewed, not swapped: filled once at import / first use with values that do not depend on the run
    ('coba.registry', 'cls', '_endpoints_loaded'), ('coba.registry', 'cls', '_registry'), ('coba.registry', 'cls', '_registry[...]'),
    ('coba.registry', 'cls', '_setstate'), ('coba.environments.filters', 'cls', 'Tensor'), ('coba.results.core', 'cls', '_instance'),
}


def audit(repo):
    """Every `global` statement and every run-time assignment to a class / module attribute in coba is located (ast).
    Known ones are swapped per fake pid or reviewed; an UNKNOWN one is new process-global state: it is isolated
    automatically (swapped per fake pid, a child starts from a deep copy of the import-time value); if that is not
    possible the simulation would silently share it between processes -> harness error."""
    import ast, os, warnings, importlib, copy
    found = {}
    root = os.path.join(repo, 'coba')

    def visit(node, mod, cls):
        for child in ast.iter_child_nodes(node):
            if isinstance(child, ast.ClassDef):
                visit(child, mod, child.name)
                continue
            if isinstance(child, ast.Global):
                for n in child.names: found.setdefault((mod, 'global', n), None)
            tg = []
            if isinstance(child, ast.Assign): tg = child.targets
            elif isinstance(child, (ast.AugAssign, ast.AnnAssign)): tg = [child.target]
            elif isinstance(child, ast.Delete): tg = child.targets
            for t in tg:
                sub = isinstance(t, ast.Subscript)
                a = t.value if sub else t
                if isinstance(a, ast.Attribute) and isinstance(a.value, ast.Name):
                    nm = a.value.id
                    if nm == 'cls' or (nm[0].isupper() and nm != 'T'):
                        found.setdefault((mod, nm, a.attr + ('[...]' if sub else '')), cls)
            visit(child, mod, cls)

    for dp, dn, fn in os.walk(root):
        if 'tests' in dp.split(os.sep): continue
        for f in fn:
            if not f.endswith('.py'): continue
            p = os.path.join(dp, f)
            mod = os.path.relpath(p, repo)[:-3].replace(os.sep, '.')
            if mod.endswith('.__init__'): mod = mod[:-9]
            with warnings.catch_warnings():
                warnings.simplefilter('ignore')
                tree = ast.parse(open(p, encoding='utf-8').read())
            # only writes inside functions are run-time writes
            for node in ast.walk(tree):
                if isinstance(node, ast.ClassDef):
                    for fnode in node.body:
                        if isinstance(fnode, (ast.FunctionDef, ast.AsyncFunctionDef)): visit(fnode, mod, node.name)
            for fnode in tree.body:
                if isinstance(fnode, (ast.FunctionDef, ast.AsyncFunctionDef)): visit(fnode, mod, None)
    unknown = sorted(k for k in found if k not in _AUDIT_KNOWN)
    G = sched.PIDGLOBALS
    for mod, owner, attr in unknown:
        try:
            m = importlib.import_module(mod)
            name = attr.replace('[...]', '')
            if owner == 'global': target = m
            elif owner == 'cls': target = getattr(m, found[(mod, owner, attr)])
            else: target = getattr(m, owner)
            if name in target.__dict__:
                snap = copy.deepcopy(target.__dict__[name])
                G.add_attr(target, name, lambda snap=snap: copy.deepcopy(snap))
            else:
                G.add_attr(target, name, lambda: G._MISSING)
        except Exception as e:      # noqa
            raise sched.SchedError(f'coba writes process-global state {(mod, owner, attr)} that the simulated process layer cannot isolate: {e!r}')
    AUTO_ISOLATED[:] = unknown
    # mutable containers bound at class or module level (a registry / memo that is only MUTATED, never re-assigned, escapes the scan
    # above): a spawned child starts from the import-time value, so each fake pid gets its own deep copy of it
    MUT_CALLS = {'dict', 'list', 'set', 'defaultdict', 'OrderedDict', 'Counter', 'deque'}

    def mutable(v):
        if isinstance(v, (ast.Dict, ast.List, ast.Set, ast.DictComp, ast.ListComp, ast.SetComp)): return True
        if isinstance(v, ast.Call):
            f = v.func
            n = f.id if isinstance(f, ast.Name) else (f.attr if isinstance(f, ast.Attribute) else None)
            return n in MUT_CALLS
        if isinstance(v, ast.BinOp): return mutable(v.left) or mutable(v.right)
        return False

    containers = []

    def scan(body, mod, owner):
        for n in body:
            if isinstance(n, ast.Assign) and mutable(n.value):
                containers.extend((mod, owner, t.id) for t in n.targets if isinstance(t, ast.Name))
            elif isinstance(n, ast.AnnAssign) and n.value is not None and mutable(n.value) and isinstance(n.target, ast.Name):
                containers.append((mod, owner, n.target.id))
            elif isinstance(n, ast.ClassDef):
                scan(n.body, mod, (owner + '.' if owner else '') + n.name)

    for dp, dn, fn in os.walk(root):
        if 'tests' in dp.split(os.sep): continue
        for f in fn:
            if not f.endswith('.py'): continue
            p = os.path.join(dp, f)
            mod = os.path.relpath(p, repo)[:-3].replace(os.sep, '.')
            if mod.endswith('.__init__'): mod = mod[:-9]
            with warnings.catch_warnings():
                warnings.simplefilter('ignore')
                scan(ast.parse(open(p, encoding='utf-8').read()).body, mod, None)
    swapped_names = {(m, a) for m, _, a in SWAPPED} | {(m, a.replace('[...]', '')) for m, _, a in unknown}
    for mod, owner, name in containers:
        if (mod, name) in swapped_names or mod == 'coba.context.core': continue
        try:
            target = importlib.import_module(mod)
            for part in (owner.split('.') if owner else []): target = getattr(target, part)
            if name not in target.__dict__: continue
            snap = copy.deepcopy(target.__dict__[name])
            G.add_attr(target, name, lambda snap=snap: copy.deepcopy(snap))
            CONTAINERS_ISOLATED.append(f"{mod}:{owner + '.' if owner else ''}{name}")
        except Exception as e:      # noqa
            raise sched.SchedError(f'coba keeps a mutable container {(mod, owner, name)} at class/module level that the simulated process layer cannot isolate: {e!r}')
    return len(found)


AUTO_ISOLATED = []
CONTAINERS_ISOLATED = []
