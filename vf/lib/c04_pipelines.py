"""C04 helper: pipeline alphabet (sources, filters), canonical forms and snapshots.

Everything here is built FRESH from a JSON-able descriptor on every call: no coba object is shared between two
executions.  `build_source(name, scratch)` returns a `Built` with the source environment, the caller-owned data
(the objects a user would have passed in: X, Y, rows, lines, lambda tables, Result object, files) and
`make_filter(name, owned)` returns a fresh filter (recording caller-owned constructor arguments in `owned`).
"""
import os, re, math, pickle, copy, types, importlib

from coba import primitives
from coba.primitives import Environment, Categorical, is_batch
from coba.environments import (Environments, LinearSyntheticSimulation, LambdaSimulation, SupervisedSimulation,
                               CsvSource, ArffSource)
from coba.environments import filters as ef
from coba.pipes import ListSource, Pipes
from coba.learners import RandomLearner
from coba.results import Result

N = 5      # interactions per source

# ------------------------------------------------------------------ sources


class Built:
    __slots__ = ('env', 'owned', 'files')

    def __init__(self, env, owned=None, files=None):
        self.env = env              # the source Environment
        self.owned = owned or {}    # name -> caller-owned python object
        self.files = files or {}    # name -> path of a caller-owned file


def _lam_tables():
    ctx = [[1, 2.5], [3, 0.5], [0, 1], [2, 2], [4, 0]]
    act = ['x', 'y', 'z']
    rwd = [[0, 1, .5], [1, 0, .25], [.5, .5, 1], [0, .75, 0], [1, .25, 0]]
    return ctx, act, rwd


def _lambda_env(ctx, act, rwd, n=N):
    return LambdaSimulation(n, lambda i: ctx[i], lambda i, c: act, lambda i, c, a: rwd[i][act.index(a)])


def src_lam(scratch):
    """LambdaSimulation (unseeded, deterministic) handing out the caller's own context lists / action list."""
    ctx, act, rwd = _lam_tables()
    return Built(_lambda_env(ctx, act, rwd), {'contexts': ctx, 'actions': act, 'rewards': rwd})


def src_lam1h(scratch):
    ctx, _, rwd = _lam_tables()
    act = [(1, 0, 0), (0, 1, 0), (0, 0, 1)]
    return Built(_lambda_env(ctx, act, rwd), {'contexts': ctx, 'actions': act, 'rewards': rwd})


def src_lams(scratch):
    """LambdaSimulation with a seed: context / reward drawn from the generator handed to the lambdas."""
    return Built(LambdaSimulation(N, lambda i, rng: [rng.random(), i], lambda i, c, rng: [0, 1, 2],
                                  lambda i, c, a, rng: rng.random() + a, 2))


def src_lamsp(scratch):
    ctx = [{'a': 1, 'b': 2}, {'a': 3}, {'b': 1, 'c': 4}, {'a': 2, 'c': 1}, {'b': 5}]
    _, act, rwd = _lam_tables()
    return Built(_lambda_env(ctx, act, rwd), {'contexts': ctx, 'actions': act, 'rewards': rwd})


def src_lamna(scratch):
    ctx = [[1, None], [None, 2], [3, 4], [5, None], [2, 2]]
    _, _, rwd = _lam_tables()
    act = [(1, 0, 0), (0, 1, 0), (0, 0, 1)]
    return Built(_lambda_env(ctx, act, rwd), {'contexts': ctx, 'actions': act, 'rewards': rwd})


def src_lamv(scratch):
    ctx = [3, 1, None, 2, 5]
    _, _, rwd = _lam_tables()
    act = [0, 1, 2]
    return Built(_lambda_env(ctx, act, rwd), {'contexts': ctx, 'actions': act, 'rewards': rwd})


N_BIG = 40     # > Cache's slice of 25; 40 interactions x 4 actions = 160 function evaluations per read (> any 128-entry memo)
N_HUGE = 1001  # > the 1000-interaction batches of Environments.save


def src_lam40(scratch):
    """A source that is larger than the size bounds visible in the code of the stateful filters (slice / batch / memo sizes)."""
    ctx = [[i % 7, (i * 3) % 5 + 0.5] for i in range(N_BIG)]
    act = ['w', 'x', 'y', 'z']
    rwd = [[((i * 7 + k * 3) % 11) / 10 for k in range(4)] for i in range(N_BIG)]
    return Built(_lambda_env(ctx, act, rwd, N_BIG), {'contexts': ctx, 'actions': act, 'rewards': rwd})


def src_lam1k(scratch):
    act = [0, 1, 2]
    return Built(LambdaSimulation(N_HUGE, lambda i: [i % 7, i % 3], lambda i, c: act, lambda i, c, a: ((i + a) % 5) / 4), {'actions': act})


def src_lam3(scratch):
    """Three interactions with other data than `lam` (second member of a two-environment collection)."""
    ctx = [[9, 8.5], [7, 6.5], [5, 4.5]]
    act = ['x', 'y', 'z']
    rwd = [[1, 0, .25], [.5, 1, 0], [0, .25, 1]]
    return Built(_lambda_env(ctx, act, rwd, 3), {'contexts': ctx, 'actions': act, 'rewards': rwd})


def src_lam2h(scratch):
    """exactly TWO one-hot actions (a reward function whose argmax is a 2-tuple must survive every persistence route)"""
    ctx, _, rwd = _lam_tables()
    act = [(1, 0), (0, 1)]
    rwd = [r[1:] for r in rwd]          # not 0/1 valued: Grounded then builds BinaryReward(argmax) functions
    return Built(_lambda_env(ctx, act, rwd), {'contexts': ctx, 'actions': act, 'rewards': rwd})


def src_lam1a(scratch):
    """exactly ONE (one-hot) action"""
    ctx, _, rwd = _lam_tables()
    act = [(1,)]
    rwd = [r[2:] for r in rwd]
    return Built(_lambda_env(ctx, act, rwd), {'contexts': ctx, 'actions': act, 'rewards': rwd})


ARFF2_LINES = ['@relation t', '@attribute x numeric', '@attribute c {u,v}', '@attribute y {a,b}', '@data',
               '1,u,a', '2,v,b', '3,u,a', '4,v,b', '5,u,b']


def src_arff2(scratch):
    """two-class supervised data with nominal labels: two Categorical actions (one-hot 2-tuples once finalized), BinaryReward(value 1)"""
    lines = list(ARFF2_LINES)
    return Built(SupervisedSimulation(ArffSource(ListSource(lines)), 'y'), {'lines': lines})


def _cat_rows(orders):
    """rows whose nominal features have the SAME level set declared in the given orders (state that differs only in order)"""
    vals = ['u', 'v', 'u', 'u', 'v']
    return [[Categorical(vals[(i + k) % 5], list(o)) for k, o in enumerate(orders)] + [i + 0.5] for i in range(N)]


def _sup_cat(orders):
    X = _cat_rows(orders)
    Y = ['a', 'b', 'a', 'c', 'b']
    return Built(SupervisedSimulation(X, Y), {'X': X, 'Y': Y})


def src_lamcat(scratch):
    ctx = _cat_rows([('u', 'v'), ('v', 'u')])
    _, act, rwd = _lam_tables()
    return Built(_lambda_env(ctx, act, rwd), {'contexts': ctx, 'actions': act, 'rewards': rwd})


ARFFCC_LINES = ['@relation t', '@attribute x numeric', '@attribute c {u,v}', '@attribute d {v,u}', '@attribute y {a,b,c}', '@data',
                '1,u,v,a', '2,v,v,b', '3,u,u,a', '4,v,u,c', '5,u,v,b']


def src_arffcc(scratch):
    lines = list(ARFFCC_LINES)
    return Built(SupervisedSimulation(ArffSource(ListSource(lines)), 'y'), {'lines': lines})


def src_lin(scratch):
    return Built(LinearSyntheticSimulation(N, 3, 2, 2, seed=1))


def _lin(ncx, naf, rf=None, facade=False):
    """LinearSynthetic variants: no context / no action features, reward_features defaulted or passed by the caller."""
    owned = {}
    if rf is not None: owned['reward_features'] = rf
    if facade:
        envs = Environments.from_linear_synthetic(3, 2, ncx, naf, seed=1) if rf is None else Environments.from_linear_synthetic(3, 2, ncx, naf, reward_features=rf, seed=1)
        return Built(envs._envs[0], owned)
    env = LinearSyntheticSimulation(3, 2, ncx, naf, seed=1) if rf is None else LinearSyntheticSimulation(3, 2, ncx, naf, reward_features=rf, seed=1)
    return Built(env, owned)


def tiny_env(j):
    """Environment j of a collection of tiny environments with distinct params (save()/from_save() scenarios)."""
    return LambdaSimulation(2, lambda i, rng: [j, i, rng.random()], lambda i, c, rng: [0, 1], lambda i, c, a, rng: a + j / 100 + rng.random(), j)


def _xy():
    return [[1, 2], [3, 4], [5, 6], [7, 8], [9, 0]], ['a', 'b', 'a', 'c', 'b']


def src_supXY(scratch):
    X, Y = _xy()
    return Built(SupervisedSimulation(X, Y), {'X': X, 'Y': Y})


def src_supXYr(scratch):
    X, _ = _xy()
    Y = [1.5, 2, 0.5, 3, 1]
    return Built(SupervisedSimulation(X, Y), {'X': X, 'Y': Y})


def src_supLS(scratch):
    X, Y = _xy()
    rows = [x + [y] for x, y in zip(X, Y)]
    return Built(SupervisedSimulation(ListSource(rows), 2), {'rows': rows})


def src_supPairs(scratch):
    X, Y = _xy()
    pairs = list(zip(X, Y))
    return Built(SupervisedSimulation(ListSource(pairs)), {'pairs': pairs})


CSV_LINES = ['1,2,a', '3,4,b', '5,6,a', '7,8,c', '9,0,b']
ARFF_LINES = ['@relation t', '@attribute x numeric', '@attribute c {u,v}', '@attribute y {a,b,c}', '@data',
              '1,u,a', '2,v,b', '3,u,a', '4,v,c', '5,u,b']


def _write(scratch, name, lines):
    """The caller's file: (re)written unless it already holds exactly these bytes (every step re-checks the bytes)."""
    p = os.path.join(scratch, name)
    text = '\n'.join(lines) + '\n'
    try:
        with open(p, 'r') as f:
            if f.read() == text: return p
    except OSError:
        pass
    with open(p, 'w') as f: f.write(text)
    return p


def src_csvL(scratch):
    lines = list(CSV_LINES)
    return Built(SupervisedSimulation(CsvSource(ListSource(lines)), 2), {'lines': lines})


def src_csvF(scratch):
    p = _write(scratch, 'data.csv', CSV_LINES)
    return Built(SupervisedSimulation(CsvSource(p), 2), files={'csv file': p})


def src_arffL(scratch):
    lines = list(ARFF_LINES)
    return Built(SupervisedSimulation(ArffSource(ListSource(lines)), 'y'), {'lines': lines})


def src_arffF(scratch):
    p = _write(scratch, 'data.arff', ARFF_LINES)
    return Built(SupervisedSimulation(ArffSource(p), 'y'), files={'arff file': p})


RESULT_LOG = [
    '["version",4]',
    '["experiment",{"n_learners":1,"n_environments":1,"description":null,"seed":1}]',
    '["L",0,{"family":"Random","seed":1}]',
    '["V",0,{"learn":"on","eval":"on","seed":null,"eval_type":"SequentialCB"}]',
    '["E",0,{"env_type":"LinearSynthetic","n_actions":3,"seed":1}]',
    '["I",[0,0,0],{"_packed":{"action":[[1,0,0],[0,0,1],[0,1,0],[1,0,0],[0,1,0]],'
    '"actions":[[[1,0,0],[0,1,0],[0,0,1]],[[1,0,0],[0,1,0],[0,0,1]],[[1,0,0],[0,1,0],[0,0,1]],[[1,0,0],[0,1,0],[0,0,1]],[[1,0,0],[0,1,0],[0,0,1]]],'
    '"context":[[0.125,-0.25],[-0.5,0.75],[-1,0.5],[0.25,1],[2,-2]],'
    '"probability":[0.25,0.5,0.25,0.5,0.25],"reward":[0.5,0.75,1,0,0.25],'
    '"rewards":[[0.5,0.25,0.75],[0,1,0.75],[0,1,0.5],[0,0.75,0.25],[1,0.25,0.5]]}}]',
]


def src_resF(scratch):
    p = _write(scratch, 'result.log', RESULT_LOG)
    envs = Environments.from_result(p)
    return Built(envs._envs[0], files={'result file': p})


def src_resO(scratch):
    p = _write(scratch, 'result_o.log', RESULT_LOG)
    res = Result.from_file(p)
    envs = Environments.from_result(res)
    return Built(envs._envs[0], {'Result.interactions': res.interactions._data}, files={'result file': p})


class MemEnv(Environment):
    """Harness-made, perfectly re-readable source (classification only, never used for a verdict): every read
    hands out what a FRESH upstream pipeline yields."""
    def __init__(self, fresh): self._fresh = fresh
    @property
    def params(self): return {}
    def read(self): return self._fresh()


def src_mem(fresh):
    return Built(MemEnv(fresh))


# name -> (builder, label used in finding keys, static tags)
SOURCES = {
    'lam':      (src_lam,      'LambdaSimulation',                    {'sim'}),
    'lam1h':    (src_lam1h,    'LambdaSimulation',                    {'sim'}),
    'lams':     (src_lams,     'LambdaSimulation(seed)',              {'sim'}),
    'lamsp':    (src_lamsp,    'LambdaSimulation',                    {'sim'}),
    'lamna':    (src_lamna,    'LambdaSimulation',                    {'sim'}),
    'lamv':     (src_lamv,     'LambdaSimulation',                    {'sim'}),
    'lin':      (src_lin,      'LinearSyntheticSimulation',           {'sim'}),
    'lin0x':    (lambda sc: _lin(0, 2),                     'LinearSyntheticSimulation(no context features)', {'sim'}),
    'lin0a':    (lambda sc: _lin(2, 0),                     'LinearSyntheticSimulation(no action features)',  {'sim'}),
    'lin0xr':   (lambda sc: _lin(0, 2, ['x', 'xa']),        'LinearSyntheticSimulation(no context features)', {'sim'}),
    'lin0ar':   (lambda sc: _lin(2, 0, ['a', 'xa']),        'LinearSyntheticSimulation(no action features)',  {'sim'}),
    'linF0x':   (lambda sc: _lin(0, 2, facade=True),        'LinearSyntheticSimulation(no context features)', {'sim'}),
    'linF0ar':  (lambda sc: _lin(2, 0, ['a', 'xa'], True),  'LinearSyntheticSimulation(no action features)',  {'sim'}),
    'linr':     (lambda sc: _lin(2, 2, ['a', 'xa', 'xxa']), 'LinearSyntheticSimulation',                      {'sim'}),
    'lind':     (lambda sc: _lin(2, 2),                     'LinearSyntheticSimulation',                      {'sim'}),
    'linFd':    (lambda sc: _lin(2, 2, facade=True),        'LinearSyntheticSimulation',                      {'sim'}),
    'lam2h':    (src_lam2h,    'LambdaSimulation(2 one-hot actions)', {'sim'}),
    'lam1a':    (src_lam1a,    'LambdaSimulation(1 action)',          {'sim'}),
    'arff2':    (src_arff2,    'SupervisedSimulation(source, 2 classes)', {'sim'}),
    'supXYcat': (lambda sc: _sup_cat([('u', 'v'), ('v', 'u')]), 'SupervisedSimulation(X,Y) with nominal features', {'sim'}),
    'supXYcA':  (lambda sc: _sup_cat([('u', 'v')]),             'SupervisedSimulation(X,Y) with nominal features', {'sim'}),
    'supXYcB':  (lambda sc: _sup_cat([('v', 'u')]),             'SupervisedSimulation(X,Y) with nominal features', {'sim'}),
    'lamcat':   (src_lamcat,   'LambdaSimulation with nominal features', {'sim'}),
    'arffcc':   (src_arffcc,   'SupervisedSimulation(source) with nominal features', {'sim'}),
    'lam3':     (src_lam3,     'LambdaSimulation',                    {'sim'}),
    'lam40':    (src_lam40,    'LambdaSimulation(40 interactions)',   {'sim'}),
    'lam1k':    (src_lam1k,    'LambdaSimulation(1001 interactions)', {'sim'}),
    'supXY':    (src_supXY,    'SupervisedSimulation(X,Y)',           {'sim'}),
    'supXYr':   (src_supXYr,   'SupervisedSimulation(X,Y)',           {'cont'}),
    'supLS':    (src_supLS,    'SupervisedSimulation(source)',        {'sim'}),
    'supPairs': (src_supPairs, 'SupervisedSimulation(source)',        {'sim'}),
    'csvL':     (src_csvL,     'SupervisedSimulation(source)',        {'sim'}),
    'csvF':     (src_csvF,     'SupervisedSimulation(source)',        {'sim'}),
    'arffL':    (src_arffL,    'SupervisedSimulation(source)',        {'sim'}),
    'arffF':    (src_arffF,    'SupervisedSimulation(source)',        {'sim'}),
    'resO':     (src_resO,     'ResultEnvironment(Result)',           {'sim', 'logged'}),
    'resF':     (src_resF,     'ResultEnvironment(file)',             {'sim', 'logged'}),
}


SRC_LIN = ('lin0x', 'lin0a', 'lin0xr', 'lin0ar', 'linF0x', 'linF0ar', 'linr', 'lind', 'linFd')
SRC_ACT = ('lam1a', 'lam2h', 'arff2')      # action-count alphabet 1 / 2 (3 and more: the other sources)
SRC_CAT = ('supXYcat', 'lamcat', 'arffcc')      # nominal features with one level set declared in two orders
CAT_PAIRS = [('supXYcA', 'supXYcB'), ('supXYcB', 'supXYcA'), ('supXYcat', 'lamcat')]
SRC_BIG = ('lam3', 'lam40', 'lam1k', 'supXYcA', 'supXYcB') + SRC_LIN + SRC_ACT + SRC_CAT       # explored by their own plans (see C04.pipelines)


def build_source(name, scratch):
    return SOURCES[name][0](scratch)


# ------------------------------------------------------------------ filters

def _params(owned):
    d = {'p': 1, 'q': [1, 2]}
    owned['Params.params'] = d
    return ef.Params(d)


def _logged(owned):
    lrn = RandomLearner(3)
    owned['Logged.learner'] = lrn
    return ef.Logged(lrn, 1.5)


class CountingLearner:
    """A caller-owned learner whose whole state is plain data (so that any use of the caller's object shows in the snapshot):
    it plays the actions round-robin and remembers every call."""
    def __init__(self): self.calls = []
    @property
    def params(self): return {'family': 'counting'}
    def predict(self, context, actions):
        self.calls.append('predict')
        return actions[len(self.calls) % len(actions)], 1 / len(actions)
    def learn(self, context, action, reward, probability, **kw):
        self.calls.append('learn')


def _logged_counting(owned):
    lrn = CountingLearner()
    owned['Logged.learner'] = lrn
    return ef.Logged(lrn, 2)


def _noise_fn(x, rng):
    return x + rng.randint(0, 3)


# name -> (class label, ctor(owned), needs(tags)->bool, out(tags)->tags)
_any = lambda t: True
_unb = lambda t: 'batched' not in t
_sim = lambda t: 'sim' in t and 'batched' not in t
_same = lambda t: t

FILTERS = {
    'Shuffle':      ('Shuffle',   lambda o: ef.Shuffle(1), _any, _same),
    'Shuffle7':     ('Shuffle',   lambda o: ef.Shuffle(7), _any, _same),
    'Shuffle0':     ('Shuffle',   lambda o: ef.Shuffle(0), _any, _same),      # only used to re-express a shuffle(n=2) sibling
    'Shuffle1':     ('Shuffle',   lambda o: ef.Shuffle(1), _any, _same),
    'Take':         ('Take',      lambda o: ef.Take(3), _any, _same),
    'TakeStrict':   ('Take',      lambda o: ef.Take(4, True), _any, _same),
    'Slice':        ('Slice',     lambda o: ef.Slice(1, 4), _any, _same),
    'SliceStep':    ('Slice',     lambda o: ef.Slice(None, None, 2), _any, _same),
    'Reservoir':    ('Reservoir', lambda o: ef.Reservoir(3, seed=2), _any, _same),
    'ReservoirAll': ('Reservoir', lambda o: ef.Reservoir(None, seed=3), _any, _same),
    'Scale':        ('Scale',     lambda o: ef.Scale('min', 'minmax'), _unb, _same),
    'ScaleStd':     ('Scale',     lambda o: ef.Scale('mean', 'std', using=3), _unb, _same),
    'Scale0':       ('Scale',     lambda o: ef.Scale(0, 'maxabs'), _unb, _same),
    'Impute':       ('Impute',    lambda o: ef.Impute('mean'), _unb, _same),
    'ImputeMode':   ('Impute',    lambda o: ef.Impute('mode', False, using=3), _unb, _same),
    'Sparsify':     ('Sparsify',  lambda o: ef.Sparsify(), _unb, _same),
    'SparsifyA':    ('Sparsify',  lambda o: ef.Sparsify(True, True), _unb, _same),
    'Densify':      ('Densify',   lambda o: ef.Densify(4, 'lookup'), _unb, _same),
    'DensifyA':     ('Densify',   lambda o: ef.Densify(6, 'lookup', True, True), _unb, _same),
    'Cycle':        ('Cycle',     lambda o: ef.Cycle(2), _sim, _same),
    'Flatten':      ('Flatten',   lambda o: ef.Flatten(), _unb, _same),
    'Binary':       ('Binary',    lambda o: ef.Binary(), _sim, _same),
    'Sort':         ('Sort',      lambda o: ef.Sort(), _unb, _same),
    'Sort1':        ('Sort',      lambda o: ef.Sort(1), _unb, _same),
    'Where':        ('Where',     lambda o: ef.Where(n_interactions=(2, None)), _any, _same),
    'WhereA':       ('Where',     lambda o: ef.Where(n_actions=3, n_features=(None, 9)), _sim, _same),
    'Riffle':       ('Riffle',    lambda o: ef.Riffle(1, 3), _any, _same),
    'Noise':        ('Noise',     lambda o: ef.Noise(), _unb, _same),
    'NoiseR':       ('Noise',     lambda o: ef.Noise(reward=('g', 0, .5), action=_noise_fn, seed=2), _sim, _same),
    'Params':       ('Params',    _params, _any, _same),
    'Grounded':     ('Grounded',  lambda o: ef.Grounded(4, 2, 4, 2, 1), _sim, lambda t: t | {'fb'}),
    'Repr':         ('Repr',      lambda o: ef.Repr('onehot', 'onehot'), _unb, _same),
    'ReprStr':      ('Repr',      lambda o: ef.Repr('string', 'onehot_tuple'), _unb, _same),
    'Batch':        ('Batch',     lambda o: ef.Batch(2), _unb, lambda t: t | {'batched'}),
    'Unbatch':      ('Unbatch',   lambda o: ef.Unbatch(), _any, lambda t: t - {'batched'}),
    'Logged':       ('Logged',    _logged, lambda t: 'sim' in t, lambda t: (t | {'logged'}) - {'batched'}),
    'LoggedC':      ('Logged',    _logged_counting, lambda t: 'sim' in t, lambda t: (t | {'logged'}) - {'batched'}),
    'Cache':        ('Cache',     lambda o: ef.Cache(2), _any, _same),
    'Cache25':      ('Cache',     lambda o: ef.Cache(25), _any, _same),
    'Chunk':        ('Chunk',     lambda o: ef.Chunk(), _any, _same),
    'Finalize':     ('BatchSafe(Finalize)', lambda o: ef.BatchSafe(ef.Finalize()), _any, _same),
    'OpeIPS':       ('OpeRewards', lambda o: ef.OpeRewards('IPS'), lambda t: 'logged' in t and 'batched' not in t, lambda t: t | {'sim'}),
}

# one parameterisation per filter class (used where the full list is too expensive)
FILTERS_ONE = ['Shuffle', 'Take', 'Slice', 'Reservoir', 'Scale', 'Impute', 'Sparsify', 'Densify', 'Cycle', 'Flatten', 'Binary',
               'Sort', 'Where', 'Riffle', 'NoiseR', 'Params', 'Grounded', 'Repr', 'Batch', 'Unbatch', 'Logged', 'Cache', 'Chunk',
               'Finalize', 'OpeIPS']
# filters with state that survives between two read() calls (or that draw random numbers): used for chains of length 3
FILTERS_STATEFUL = ['Shuffle', 'Cache', 'Densify', 'Finalize', 'Impute', 'Scale', 'Logged']


# ------------------------------------------------------------------ Environments shortcuts applied ONCE to a whole collection

def _sc_params(e, o):
    d = {'p': 1}
    o['params.params'] = d
    return e.params(d)


def _sc_logged(e, o):
    lrn = RandomLearner(3)
    o['logged.learner'] = lrn
    return e.logged(lrn, 1.5)


# name -> (call on an Environments object, needs(tags of a member) -> bool)
SHORTCUTS = {
    'none':          (lambda e, o: e, _any),                 # the two environments just sit in one Environments object
    'cache':         (lambda e, o: e.cache(), _any),
    'chunk':         (lambda e, o: e.chunk(), _any),
    'chunk_nocache': (lambda e, o: e.chunk(cache=False), _any),
    'materialize':   (lambda e, o: e.materialize(), _any),
    'shuffle':       (lambda e, o: e.shuffle(1), _any),
    'take':          (lambda e, o: e.take(2), _any),
    'slice':         (lambda e, o: e.slice(1, 3), _any),
    'reservoir':     (lambda e, o: e.reservoir(2, 2), _any),
    'riffle':        (lambda e, o: e.riffle(1, 3), _any),
    'sort':          (lambda e, o: e.sort(0), _any),
    'where':         (lambda e, o: e.where(n_interactions=(2, None)), _any),
    'scale':         (lambda e, o: e.scale('min', 'minmax'), _any),
    'scale0':        (lambda e, o: e.scale(0, 'maxabs'), _any),
    'impute':        (lambda e, o: e.impute('mean'), _any),
    'sparse':        (lambda e, o: e.sparse(), _any),
    'dense':         (lambda e, o: e.dense(4, 'lookup'), _any),
    'flatten':       (lambda e, o: e.flatten(), _any),
    'repr':          (lambda e, o: e.repr('onehot', 'onehot'), _any),
    'noise':         (lambda e, o: e.noise(reward=('g', 0, .5), seed=2), _sim),
    'binary':        (lambda e, o: e.binary(), _sim),
    'cycle':         (lambda e, o: e.cycle(2), _sim),
    'grounded':      (lambda e, o: e.grounded(4, 2, 4, 2, 1), _sim),
    'batch':         (lambda e, o: e.batch(2), _any),
    'batch_unbatch': (lambda e, o: e.batch(2).unbatch(), _any),
    'params':        (_sc_params, _any),
    'logged':        (_sc_logged, lambda t: 'sim' in t),
    'ope_rewards':   (lambda e, o: e.ope_rewards('IPS'), lambda t: 'logged' in t),
    # two steps: a cache before / after another shortcut
    'cache_take':    (lambda e, o: e.cache().take(2), _any),
    'take_cache':    (lambda e, o: e.take(2).cache(), _any),
    'shuffle_chunk': (lambda e, o: e.shuffle(1).chunk(), _any),
    'logged_cache':  (lambda e, o: _sc_logged(e, o).cache(), lambda t: 'sim' in t),
    'dense_cache':   (lambda e, o: e.dense(4, 'lookup').cache(), _any),
}
# pairs of DIFFERENT environments held by one Environments object (other data, other length, other kind)
DUO_PAIRS = [('lam', 'lam3'), ('lams', 'lam'), ('lamsp', 'lam3'), ('resO', 'lam1h')]
DUO_PAIRS_MORE = [('arffL', 'supLS'), ('supXY', 'csvF'), ('resF', 'resO'), ('lamna', 'lamv')]


# a degenerate linear synthetic environment next to an ordinary one that relies on the default arguments
LIN_PAIRS = [(a, b) for a in ('lin0x', 'lin0a', 'lin0xr', 'lin0ar', 'linF0x', 'linF0ar') for b in ('lind', 'linFd')] + [('linr', 'lind')]


def duo_compatible(a, b, short):
    needs = SHORTCUTS[short][1]
    return needs(set(SOURCES[a][2])) and needs(set(SOURCES[b][2]))


def apply_shortcut(short, envs, owned):
    return SHORTCUTS[short][0](envs, owned)


def make_filter(name, owned):
    return FILTERS[name][1](owned)


def compatible(src, chain):
    """The declared (static) type-compatibility table: does every filter of the chain get what it needs?"""
    tags = set(SOURCES[src][2])
    for f in chain:
        _, _, needs, out = FILTERS[f]
        if not needs(tags): return False
        tags = set(out(tags))
    return True


# ------------------------------------------------------------------ canonical forms

_ADDR = re.compile(r' at 0x[0-9a-f]+')
PROBES = (0, 1, 2.5)


def cval(v, _d=0):
    """Canonical form of a feature value: Dense -> list, Sparse -> dict, nan -> token; numbers compare by value."""
    if v is None or isinstance(v, (bool, int)): return v
    if isinstance(v, float): return 'NaN' if v != v else v
    if isinstance(v, Categorical): return ('Categorical', str(v), tuple(map(str, v.levels)))
    if isinstance(v, str): return v
    if _d > 8: return _ADDR.sub('', repr(v))
    if isinstance(v, (list, tuple)): return [cval(x, _d + 1) for x in v]
    if isinstance(v, dict): return {k: cval(x, _d + 1) for k, x in v.items()}
    if isinstance(v, primitives.Sparse): return {k: cval(x, _d + 1) for k, x in v.items()}
    if isinstance(v, primitives.Dense): return [cval(x, _d + 1) for x in v]
    return _ADDR.sub('', repr(v))


def _call(fn, a):
    try:
        return cval(fn(a))
    except Exception as e:    # noqa
        return ('raises', type(e).__name__)


def tabulate(fn, actions):
    """A reward / feedback function tabulated over the interaction's actions (over fixed probes when there are none)."""
    if actions: return [_call(fn, a) for a in actions]
    return ('probes', [_call(fn, a) for a in PROBES])


def cinter(it):
    """Canonical form of one interaction (batched interactions are split into their members)."""
    if not isinstance(it, dict): return ('not-a-dict', _ADDR.sub('', repr(it)))
    bk = [k for k, v in it.items() if is_batch(v)]
    if bk:
        n = len(it[bk[0]])
        return ('batch', [cinter({k: (v[i] if is_batch(v) else v) for k, v in it.items()}) for i in range(n)])
    out = {}
    actions = it.get('actions')
    for k, v in it.items():
        if k in ('rewards', 'feedbacks'):
            out[k] = tabulate(v, actions) if callable(v) else cval(v)
        else:
            out[k] = cval(v)
    return out


def cparams(p):
    return cval(dict(p))


def flavour(item):
    """Coarse kind of an interaction (goes into finding keys)."""
    if not isinstance(item, dict): return 'other'
    if 'action' in item and 'reward' in item: return 'logged'
    if any(is_batch(v) for v in item.values()): return 'batched'
    if 'feedbacks' in item: return 'grounded'
    return 'simulated'


# ------------------------------------------------------------------ strict snapshots of caller-owned data

def strict(o, _d=0):
    """A deep, type-exact rendering (any modification at all shows)."""
    if o is None or isinstance(o, (bool, int, str, bytes)): return (type(o).__name__, o)
    if isinstance(o, float): return ('float', repr(o))
    if _d > 10: return ('deep', _ADDR.sub('', repr(o)))
    if isinstance(o, (list, tuple)): return (type(o).__name__, [strict(x, _d + 1) for x in o])
    if isinstance(o, dict): return (type(o).__name__, [(strict(k, _d + 1), strict(v, _d + 1)) for k, v in o.items()])
    if isinstance(o, (set, frozenset)): return (type(o).__name__, sorted((strict(x, _d + 1) for x in o), key=repr))
    d = getattr(o, '__dict__', None)
    if d is not None: return (type(o).__name__, strict(d, _d + 1))
    s = getattr(type(o), '__slots__', None)
    if s: return (type(o).__name__, [(n, strict(getattr(o, n, None), _d + 1)) for n in ([s] if isinstance(s, str) else s)])
    return (type(o).__name__, _ADDR.sub('', repr(o)))


def snapshot(built):
    # plain containers of plain values: repr() is type-exact and fast; objects (learner) are walked attribute by attribute
    out = {k: (repr(v) if type(v) in (list, dict, tuple) else strict(v)) for k, v in built.owned.items()}
    for k, p in built.files.items():
        with open(p, 'rb') as f: out[k] = f.read()
    return out


# ------------------------------------------------------------------ mutable default argument objects (process-global state)

_DEFAULT_MODULES = ['coba.environments.core', 'coba.environments.synthetics', 'coba.environments.filters', 'coba.environments.supervised',
                    'coba.environments.serialized', 'coba.environments.results', 'coba.pipes.filters', 'coba.pipes.sources', 'coba.pipes.rows',
                    'coba.pipes.readers', 'coba.encodings', 'coba.primitives']


def _scan_defaults():
    """[(name, live default object, pristine deep copy)] for every list/dict/set default argument of coba's environment / pipe code."""
    out, seen = [], set()

    def scan(fn, name):
        fn = getattr(fn, '__func__', fn)
        if not isinstance(fn, types.FunctionType) or id(fn) in seen or not (fn.__module__ or '').startswith('coba'): return
        seen.add(id(fn))
        code = fn.__code__
        argnames = code.co_varnames[:code.co_argcount]
        for i, d in enumerate(fn.__defaults__ or ()):
            if isinstance(d, (list, dict, set)):
                out.append((f'{name}({argnames[len(argnames) - len(fn.__defaults__) + i]})', d, copy.deepcopy(d)))
        for k, d in (fn.__kwdefaults__ or {}).items():
            if isinstance(d, (list, dict, set)): out.append((f'{name}({k})', d, copy.deepcopy(d)))

    for m in _DEFAULT_MODULES:
        mod = importlib.import_module(m)
        for n, o in list(vars(mod).items()):
            if isinstance(o, type) and o.__module__ == m:
                for k, v in list(vars(o).items()): scan(v, f'{n}.{k}')
            else:
                scan(o, n)
    return out


DEFAULTS = _scan_defaults()


def defaults_changed():
    """names of the default argument objects that no longer hold what they held at import"""
    return [n for n, live, pristine in DEFAULTS if live != pristine or repr(live) != repr(pristine)]


def defaults_restore():
    """what a fresh interpreter would hold (called between executions only)"""
    for n, live, pristine in DEFAULTS:
        if live != pristine or repr(live) != repr(pristine):
            if isinstance(live, list): live[:] = copy.deepcopy(pristine)
            else:
                live.clear(); live.update(copy.deepcopy(pristine))
