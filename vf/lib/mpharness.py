"""Picklable harness components for the multiprocessing checks (importable by real spawned children too)."""
import os


class InjectedError(Exception):
    def __init__(self, item):
        super().__init__(item)
        self.item = item
    def __reduce__(self): return (InjectedError, (self.item,))
    def __eq__(self, o): return isinstance(o, InjectedError) and o.item == self.item
    def __hash__(self): return hash(('InjectedError', self.item))


def _pid():
    try:
        from vf.engines import sched
        if sched.CUR is not None: return sched.current_pid()
    except Exception:
        pass
    return os.getpid()


class RequiredArgsError(Exception):
    """An ordinary user exception whose class cannot be re-created from its pickled args (cls('1-b') lacks the second argument)."""
    def __init__(self, a, b):
        super().__init__(f'{a}-{b}')


def _required_args_error(x): return RequiredArgsError(x, 'b')


class LambdaError(Exception):
    """An ordinary user exception that cannot be PICKLED (it carries a lambda): the worker cannot even send it."""
    def __init__(self, item):
        super().__init__(item)
        self.item = item
        self.callback = lambda: None


def _huge_error(x): return InjectedError((x, 'x' * 200_000))


FALSY = [None, 0, '', ()]      # item values a stream may legitimately carry and that code is tempted to read as 'nothing'

def aliased(k, offset=0):
    """A stream that re-uses ONE buffer object for all its items (`yield buf; buf[0] = next`): what an item is has to be
    fixed when it is taken from the stream."""
    buf = [0]
    for x in range(offset + 1, offset + k + 1):
        buf[0] = x
        yield buf


EXC_KINDS = {'custom': InjectedError, 'ValueError': ValueError, 'AssertionError': AssertionError, 'EOFError': EOFError,
             'BrokenPipeError': BrokenPipeError, 'TypeError': TypeError, 'KeyError': KeyError,
             'cannot-unpickle': _required_args_error, 'cannot-pickle': LambdaError, 'huge': _huge_error}


class TenTimes:
    """filter(x) = (pid, 10*x); raises for x in faults (InjectedError(x), or the builtin exception type named by
    `exc` - user filters raise ordinary exceptions too).  Records who handled what."""
    def __init__(self, faults=(), exc='custom', fan='one'):
        self.faults = tuple(faults)
        self.exc = exc
        self.fan = fan          # 'one': one output per item; 'two': two outputs per item; 'skip1': item 1 yields nothing; 'none1': item 1's output is None

    def filter(self, x):
        if isinstance(x, list): x = x[0]      # items delivered in a (possibly re-used) one-element buffer
        pid = _pid()
        try:
            from vf.engines import sched
            sched.record(('handled', pid, x))
        except Exception:
            pass
        if x in self.faults and self.fan == 'raise-mid': return self._raise_mid(pid, x)      # a generator that fails AFTER its first output
        if x in self.faults: raise EXC_KINDS[self.exc](x)
        if self.fan == 'echo': return (pid, 'echo:' + repr(x))      # items that are not numbers (None, '', () ...)
        if self.fan == 'two': return iter([(pid, 10 * x), (pid, 10 * x + 1)])
        if self.fan == 'skip1' and x == 1: return iter([])
        if self.fan == 'none1' and x == 1: return None
        return (pid, 10 * x)


    def _raise_mid(self, pid, x):
        yield (pid, 10 * x)
        raise EXC_KINDS[self.exc](x)


class TenTimesGen(TenTimes):
    """Same, but `filter` is a generator (what CobaMultiprocessor.ProcessFilter expects of its inner filter)."""
    def filter(self, x):
        out = TenTimes.filter(self, x)
        if hasattr(out, '__next__'): yield from out
        else: yield out
