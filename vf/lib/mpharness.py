"""Picklable harness components for the multiprocessing checks (importable by real spawned children too)."""
import os


class InjectedError(Exception):
    def __init__(self, item):
        super().__init__(item)
        self.item = item
    def __reduce__(self): return (InjectedError, (self.item,))
    def __eq__(self, o): return isinstance(o, InjectedError) and o.item == self.item
    def __hash__(self): return hash(('InjectedError', self.item))


def _pid():
    try:
        from vf.engines import sched
        if sched.CUR is not None: return sched.current_pid()
    except Exception:
        pass
    return os.getpid()


class TenTimes:
    """filter(x) = (pid, 10*x); raises InjectedError(x) for x in faults.  Records who handled what."""
    def __init__(self, faults=()):
        self.faults = tuple(faults)

    def filter(self, x):
        pid = _pid()
        try:
            from vf.engines import sched
            sched.record(('handled', pid, x))
        except Exception:
            pass
        if x in self.faults: raise InjectedError(x)
        return (pid, 10 * x)


class TenTimesGen(TenTimes):
    """Same, but `filter` is a generator (what CobaMultiprocessor.ProcessFilter expects of its inner filter)."""
    def filter(self, x):
        yield TenTimes.filter(self, x)
