"""Picklable harness components for the multiprocessing checks (importable by real spawned children too)."""
import os


class InjectedError(Exception):
    def __init__(self, item):
        super().__init__(item)
        self.item = item
    def __reduce__(self): return (InjectedError, (self.item,))
    def __eq__(self, o): return isinstance(o, InjectedError) and o.item == self.item
    def __hash__(self): return hash(('InjectedError', self.item))


def _pid():
    try:
        from vf.engines import sched
        if sched.CUR is not None: return sched.current_pid()
    except Exception:
        pass
    return os.getpid()


EXC_KINDS = {'custom': InjectedError, 'ValueError': ValueError, 'AssertionError': AssertionError, 'EOFError': EOFError,
             'BrokenPipeError': BrokenPipeError, 'TypeError': TypeError, 'KeyError': KeyError}


class TenTimes:
    """filter(x) = (pid, 10*x); raises for x in faults (InjectedError(x), or the builtin exception type named by
    `exc` - user filters raise ordinary exceptions too).  Records who handled what."""
    def __init__(self, faults=(), exc='custom'):
        self.faults = tuple(faults)
        self.exc = exc

    def filter(self, x):
        pid = _pid()
        try:
            from vf.engines import sched
            sched.record(('handled', pid, x))
        except Exception:
            pass
        if x in self.faults: raise EXC_KINDS[self.exc](x)
        return (pid, 10 * x)


class TenTimesGen(TenTimes):
    """Same, but `filter` is a generator (what CobaMultiprocessor.ProcessFilter expects of its inner filter)."""
    def filter(self, x):
        yield TenTimes.filter(self, x)
