"""Run one C01 configuration on the REAL OS primitives (real spawn) and print the canonical Result.
usage: python -m vf.lib.realexp '<json case>'"""
import sys, json


def main():
    case = json.loads(sys.argv[1])
    from coba.context import CobaContext, BasicLogger, MemoryCacher
    from coba.pipes import ListSink
    from vf.lib import expparts as P
    CobaContext.search_paths = []
    CobaContext.logger = BasicLogger(ListSink())
    CobaContext.cacher = MemoryCacher()
    p, c, t = case['cfg']
    r = P.make_experiment(case['shape']).run(processes=p, maxchunksperchild=c, maxtasksperchunk=t, seed=case['seed'], quiet=True)
    print('OBS ' + json.dumps(P.canon(r)))


if __name__ == '__main__':
    main()
