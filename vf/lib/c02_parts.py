"""Recording experiment components and experiment shapes for C02 (picklable, importable by spawned children).

Every call of `triples(shape, order)` builds FRESH objects: real coba learners (RandomLearner, BanditEpsilonLearner) and
evaluators (SequentialCB) on a cheap deterministic simulated environment, each wrapped in a thin recording wrapper that
carries a tag.  The evaluator wrapper appends (env tag, learner tag, evaluator tag) to
`CALLS` whenever coba asks it to evaluate a triple, so a harness can tell which triples a (resumed) run really
evaluated.  Tags survive the deep copy coba makes of a learner that occurs in several triples.
"""
import base64, hashlib

from coba.learners import RandomLearner, BanditEpsilonLearner
from coba.evaluators import SequentialCB
from coba.primitives import Learner, Evaluator, Environment, SimulatedInteraction

CALLS = []          # (env tag, learner tag, evaluator tag) per evaluate call, in call order; cleared by the harness
                    # (process-local: a harness that resumes through real child processes has to collect it per process)


class RecEnv(Environment):
    def __init__(self, tag, inner):
        self.tag, self.inner = tag, inner

    @property
    def params(self): return self.inner.params

    def read(self): return self.inner.read()


class RecLearner(Learner):
    def __init__(self, tag, inner):
        self.tag, self.inner = tag, inner

    @property
    def params(self): return self.inner.params

    def predict(self, context, actions): return self.inner.predict(context, actions)

    def learn(self, context, action, reward, probability, **kwargs): return self.inner.learn(context, action, reward, probability, **kwargs)


class RecEval(Evaluator):
    def __init__(self, tag, inner):
        self.tag, self.inner = tag, inner

    @property
    def params(self): return {**self.inner.params, 'tag': self.tag}

    def evaluate(self, environment, learner):
        CALLS.append((environment.tag, learner.tag, self.tag))
        return list(self.inner.evaluate(environment, learner))


class TinyEnv(Environment):
    """A cheap deterministic simulated environment (the synthetic coba environments cost 40 ms per read, which is
    all a crash point would otherwise spend its time on): n interactions, 2 actions, list-valued params."""
    def __init__(self, n, seed):
        self.n, self.seed = n, seed

    @property
    def params(self): return {'env_type': 'Tiny', 'n': self.n, 'seed': self.seed, 'features': ['x', 'a']}

    def read(self):
        for i in range(self.n):
            x = ((i + 1) * (self.seed + 2) % 7) / 7
            yield SimulatedInteraction([round(x, 5), i], [[0.25], [0.75]], [round(x * 0.5, 5), round(1 - x, 5)])


class BlobEval(Evaluator):
    """Yields `rows` rows that carry a `width`-character pseudo-random (hardly compressible, ASCII) string, so that the ONE
    interaction record of its triple is several 64 KiB blocks long in a plain and in a .gz result file."""
    def __init__(self, rows, width):
        self.rows, self.width = rows, width

    @property
    def params(self): return {'rows': self.rows, 'width': self.width}

    def evaluate(self, environment, learner):
        for i in range(self.rows):
            blob = ''
            j = 0
            while len(blob) < self.width:
                blob += base64.b64encode(hashlib.sha256(b'c02-%d-%d' % (i, j)).digest()).decode('ascii').rstrip('=')
                j += 1
            yield {'reward': float(i % 2), 'blob': blob[:self.width]}


class SomeRowsEval(Evaluator):
    """A tiny custom evaluator: one row per interaction of the environment, but NOTHING for the environments whose tag is in
    `empty_for` (what e.g. RejectionCB gives when it rejects everything, or any evaluator on an empty environment)."""
    def __init__(self, empty_for):
        self.empty_for = tuple(empty_for)

    @property
    def params(self): return {'empty_for': list(self.empty_for)}

    def evaluate(self, environment, learner):
        if getattr(environment, 'tag', None) in self.empty_for: return
        for i, _ in enumerate(environment.read()):
            yield {'reward': float(i), 'n': i + 1}


def _syn(n, seed):
    return TinyEnv(n, seed)


SHAPES = ('S1', 'S2', 'S4', 'S5', 'S6')


def base_triples(shape):
    """The triples of a shape as tags, in the shape's canonical order (fixed data, no coba objects)."""
    if shape == 'S1': return [('e0', 'l0', 'v0')]
    if shape == 'S2': return [('e0', 'l0', 'v0'), ('e0', 'l1', 'v0'), ('e1', 'l0', 'v0'), ('e1', 'l1', 'v0')]
    if shape == 'S4': return [('e0', 'l0', 'v0'), ('e1', 'l0', 'v0'), ('e0', 'l1', 'v1'), ('e0', 'l0', 'v1')]
    if shape == 'S5': return [('e0', 'l0', 'v0'), ('e0', 'l0', 'v1'), ('e1', 'l0', 'v0')]
    if shape == 'S6': return [('e0', 'l0', 'v0'), ('e1', 'l0', 'v1'), ('e0', 'l0', 'v1'), ('e1', 'l0', 'v0')]
    raise ValueError(shape)


def zero_row_triples(shape):
    """The triples (as tags) whose evaluation yields no rows at all."""
    return {('e1', 'l0', 'v1')} if shape == 'S6' else set()


def components(shape):
    """Fresh tagged components of a shape: {tag: object}."""
    if shape == 'S1':
        objs = {'e0': _syn(3, 1), 'l0': RandomLearner(seed=3), 'v0': SequentialCB()}
    elif shape == 'S2':      # 2 environments x 2 learners (one stateful), 4 and 3 interactions
        objs = {'e0': _syn(4, 1), 'e1': _syn(3, 2), 'l0': RandomLearner(seed=3), 'l1': BanditEpsilonLearner(0.1, seed=2), 'v0': SequentialCB()}
    elif shape == 'S4':      # explicit triple list: learner l0 shared by three triples (deep-copied per task), two evaluators (one records time)
        objs = {'e0': _syn(3, 1), 'e1': _syn(2, 2), 'l0': BanditEpsilonLearner(0.1, seed=2), 'l1': RandomLearner(seed=9),
                'v0': SequentialCB(), 'v1': SequentialCB(record=['reward', 'time'])}
    elif shape == 'S5':      # one interaction record (e0,l0,v1) longer than 3 x 64 KiB (plain) / 2 x 64 KiB (.gz) between small records
        objs = {'e0': _syn(2, 1), 'e1': _syn(2, 2), 'l0': RandomLearner(seed=3), 'v0': SequentialCB(), 'v1': BlobEval(56, 4096)}
    elif shape == 'S6':      # the evaluation (e1,l0,v1) yields ZERO rows (record ["I",ids,{"_packed":{}}]) between normal triples
        objs = {'e0': _syn(3, 1), 'e1': _syn(2, 2), 'l0': RandomLearner(seed=3), 'v0': SequentialCB(), 'v1': SomeRowsEval(['e1'])}
    else:
        raise ValueError(shape)
    wrap = {'e': RecEnv, 'l': RecLearner, 'v': RecEval}
    return {t: wrap[t[0]](t, o) for t, o in objs.items()}


def triples(shape, order=None):
    """Fresh (env, learner, evaluator) triples; `order` is a permutation of the canonical triple list."""
    base = base_triples(shape)
    order = list(order) if order is not None else list(range(len(base)))
    assert sorted(order) == list(range(len(base)))
    objs = components(shape)
    return [tuple(objs[t] for t in base[i]) for i in order]


def triple_ids(shape, order=None):
    """{(env id, learner id, evaluator id): tag triple} with ids assigned by first appearance in the (permuted) list
    (coba's documented id assignment, MakeTasks)."""
    base = base_triples(shape)
    order = list(order) if order is not None else list(range(len(base)))
    e, l, v, out = {}, {}, {}, {}
    for i in order:
        te, tl, tv = base[i]
        e.setdefault(te, len(e)); l.setdefault(tl, len(l)); v.setdefault(tv, len(v))
        out[(e[te], l[tl], v[tv])] = (te, tl, tv)
    return out
