"""C12 helper: the harness' own dataset *writers* (common dialects + grammar variants), the tables they
denote (reference model) and the observers that materialise what the real coba readers return.

Table model (all JSON-able):
  col  = {'name': str, 'kind': 'numeric'|'string'|'date'|'nominal', 'levels': [str,...]?, 'datefmt': str?}
  cell = None (missing) | str   (numeric cells hold the literal that is written: '1', '2.5', '-3', '0')
  rows = [[cell, ...], ...]
"""
from coba.pipes.readers import ArffReader, CsvReader, LibsvmReader, ManikReader
from coba.primitives import Categorical

# ----------------------------------------------------------------------------------------------- variants
DEFAULT_V = {'q': "'", 'esc': 'weka', 'qall': False, 'comment': None, 'blank': False, 'case': 'lower', 'numkw': 'numeric', 'delim': ',', 'sp': ''}

ARFF_VARIANT_VALUES = [            # every non-default value of every grammar dimension
    ('q', '"'),                    # quote style " instead of '
    ('esc', 'min'),                # only the backslash and the active quote char are escaped inside quotes
    ('qall', True),                # every name / level / string cell is quoted, needed or not
    ('comment', 'head'), ('comment', 'afterdata'), ('comment', 'between'), ('comment', 'end'),
    ('blank', True),               # blank / whitespace-only lines between all lines
    ('case', 'upper'), ('case', 'title'),
    ('numkw', 'integer'), ('numkw', 'real'),   # the other spellings of a numeric attribute (all cells in the alphabet are valid for both)
    ('delim', '\t'),               # tab separated data (and header tokens)
    ('sp', 'after'), ('sp', 'before'), ('sp', 'both'),     # spaces around the separators
]
COMMENT = "% c, 'q' \"d\" ? {0 1}"


def variant(*pairs):
    v = dict(DEFAULT_V)
    for k, x in pairs: v[k] = x
    return v


def variant_pairs(v):
    return [(k, v[k]) for k in DEFAULT_V if v.get(k, DEFAULT_V[k]) != DEFAULT_V[k]]


def variant_name(pairs):
    return ','.join(f'{k}={"tab" if x == chr(9) else "dq" if x == chr(34) else x}' for k, x in pairs) or 'default'


def arff_variants(max_dims):
    """default, then every single non-default value, then every pair over two different dimensions."""
    out = [[]]
    if max_dims >= 1: out += [[p] for p in ARFF_VARIANT_VALUES]
    if max_dims >= 2:
        for i, p in enumerate(ARFF_VARIANT_VALUES):
            for p2 in ARFF_VARIANT_VALUES[i + 1:]:
                if p2[0] != p[0]: out.append([p, p2])
    return out


# ----------------------------------------------------------------------------------------------- value classes
# the characters str.splitlines() treats as line boundaries but a text file / readline() does not
LINESEPS = ['\x0b', '\x0c', '\x1c', '\x1d', '\x1e', '\x85', '\u2028', '\u2029']


def vclass(s):
    if s is None: return 'missing'
    if s == '': return 'empty string'
    if s == '?': return 'qmark'
    if any(c in s for c in LINESEPS): return 'line-boundary character'
    if '\\' in s: return 'backslash'
    if '"' in s: return 'dquote'
    if "'" in s: return 'squote'
    if '%' in s: return 'percent'
    if '{' in s or '}' in s: return 'brace'
    if ',' in s: return 'comma'
    if ' ' in s: return 'space'
    if any(ord(c) > 127 for c in s): return 'unicode'
    return 'plain'


# ----------------------------------------------------------------------------------------------- ARFF writer
_BQ = set('\n\r\'"\\\t%\x1e')


def quote(s, v):
    """weka.core.Utils.quote (q="'", esc='weka'); the variants change quote char / escape set / force quoting."""
    q = v['q']
    need = v['qall'] or any(c in _BQ for c in s) or any(c in '{}, ' for c in s) or s == '?' or s == ''
    if not need: return s
    out = []
    for ch in s:
        if ch == '\\' or ch == q: out.append('\\' + ch)
        elif v['esc'] == 'weka' and ch in '\'"%': out.append('\\' + ch)
        else: out.append(ch)
    return q + ''.join(out) + q


def _kw(word, case):
    if case == 'upper': return word.upper()
    if case == 'title': return ('@' + word[1:].capitalize()) if word[0] == '@' else word.capitalize()
    return word


def _sep(d, sp):
    return {'': d, 'after': d + ' ', 'before': ' ' + d, 'both': ' ' + d + ' '}[sp]


def arff_lines(cols, rows, sparse, v):
    case, d = v['case'], v['delim']
    asep = '\t' if d == '\t' else ' '
    head = [_kw('@relation', case) + asep + 't', '']
    for c in cols:
        k = c['kind']
        if k == 'numeric': t = _kw(v['numkw'], case)
        elif k == 'string': t = _kw('string', case)
        elif k == 'date': t = _kw('date', case) + asep + quote(c['datefmt'], v)
        else: t = '{' + _sep(',', v['sp']).join(quote(l, v) for l in c['levels']) + '}'
        head.append(_kw('@attribute', case) + asep + quote(c['name'], v) + asep + t)
    head += ['', _kw('@data', case)]
    data = []
    for r in rows:
        cells = ['?' if x is None else (x if c['kind'] == 'numeric' else quote(x, v)) for c, x in zip(cols, r)]
        if not sparse:
            data.append(_sep(d, v['sp']).join(cells))
        else:
            kv = [f'{i}{asep}{x}' for i, (c, x) in enumerate(zip(cols, cells)) if not (c['kind'] == 'numeric' and x == '0')]
            data.append('{' + _sep(',', v['sp']).join(kv) + '}')
    if v['comment'] == 'head': head.insert(1, COMMENT)
    if v['comment'] == 'afterdata': data.insert(0, COMMENT)
    if v['comment'] == 'between': data = [l for x in data for l in (x, COMMENT)][:-1] if len(data) > 1 else [COMMENT] + data
    if v['comment'] == 'end': data.append(COMMENT)
    lines = head + data
    if v['blank']:
        lines = [l for i, x in enumerate(lines) for l in (x, '' if i % 2 else '  ')]
    return lines


def arff_expected(cols, rows, sparse):
    """The table the ARFF text denotes: headers, and per row (values, any-missing)."""
    out = []
    for r in rows:
        vals = []
        for c, x in zip(cols, r):
            if x is None: vals.append(None)
            elif c['kind'] == 'numeric': vals.append(float(x))
            elif c['kind'] == 'nominal': vals.append(('cat', x, list(c['levels'])))
            else: vals.append(x)
        out.append((vals, any(x is None for x in r)))
    return [c['name'] for c in cols], out


def _canon(x):
    if isinstance(x, Categorical):     # everything a categorical cell carries: value, ordered levels, as_int, as_onehot
        return ('cat', str(x), [str(l) for l in x.levels], getattr(x, 'as_int', None), tuple(getattr(x, 'as_onehot', None) or ()))
    return x


def observe_row(r, sparse):
    """Everything one returned row shows, through EVERY access path: iteration, index and header name (dense) /
    items() and row[key] (sparse).  The paths must agree (arff_compare / csv_compare check it)."""
    if sparse:
        items = {k: _canon(x) for k, x in r.items()}
        return (items, r.missing, None, {k: _canon(r[k]) for k in r.keys()}, None)
    hdr = dict(r.headers)
    return ([_canon(x) for x in r], r.missing, hdr, [_canon(r[i]) for i in range(len(r))], {h: _canon(r[h]) for h in hdr})


def _paths_agree(i, row, sparse):
    vals, _, hdr, byidx, byname = row
    if sparse:
        if byidx != vals: return ('access paths disagree: items() vs row[key]', f'row {i}: items() {vals!r}, row[key] {byidx!r}')
        return None
    if byidx != vals: return ('access paths disagree: list(row) vs row[i]', f'row {i}: list(row) {vals!r}, row[i] {byidx!r}')
    if any(0 <= j < len(vals) and byname[h] != vals[j] for h, j in hdr.items()):
        return ('access paths disagree: list(row) vs row[name]', f'row {i}: list(row) {vals!r}, row[name] {byname!r}')
    return None


def arff_observe(lines, sparse):
    """Materialise everything the real reader returns (raises whatever coba raises)."""
    return [observe_row(r, sparse) for r in ArffReader().filter(iter(lines))]


def levels_ok(decl, got, sparse):
    """The level list of a cell vs. the written declaration.  Dense: the declaration, in order.  Sparse: coba's documented leading
    '0' exactly once, then the declaration in order (a declared '0' is that leading level).  A declaration that repeats a level is not
    valid ARFF (Weka refuses to build such an attribute): then only a duplicate-free list of exactly the declared levels is demanded."""
    if len(set(got)) != len(got): return False
    if len(set(decl)) != len(decl):
        return set(got) == set(decl) or (sparse and set(got) == set(decl) | {'0'} and got[0] == '0')
    return got == decl or (sparse and got == ['0'] + [l for l in decl if l != '0'])


def _veq(exp, got, sparse):
    if exp is None: return got is None
    if isinstance(exp, float): return isinstance(got, (int, float)) and not isinstance(got, bool) and got == exp
    if isinstance(exp, tuple):
        if not (isinstance(got, tuple) and got[1] == exp[1]): return False
        if not levels_ok(exp[2], got[2], sparse): return False
        i = got[2].index(got[1])            # the level list IN ORDER is the declaration's, so index / one-hot must follow from it
        return got[3] == i and got[4] == tuple(int(j == i) for j in range(len(got[2])))
    return isinstance(got, str) and got == exp


def _cell_mode(exp, got):
    if exp is not None and got is None: return 'value read as missing'
    if isinstance(got, str) and not isinstance(got, tuple):
        e0 = '?' if exp is None else exp[1] if isinstance(exp, tuple) else exp
        if isinstance(e0, str):
            if got != e0 and got.strip(' ') == e0: return 'blanks around the separator kept in value'
            if '\t' in got and '\t' not in e0: return 'cells merged (tab delimiter kept in value)'
    if exp is None: return 'missing read as a value'
    e = exp[1] if isinstance(exp, tuple) else exp
    g = got[1] if isinstance(got, tuple) else got
    if isinstance(e, str) and isinstance(g, str):
        if g == e:
            lv = exp[2] if isinstance(exp, tuple) else None
            if isinstance(got, tuple) and lv is not None and not (levels_ok(lv, got[2], False) or levels_ok(lv, got[2], True)):
                if len(set(got[2])) != len(got[2]): return 'nominal level list repeats a level'
                return 'nominal levels differ (same level set, other order)' if set(got[2]) - {'0'} == set(lv) - {'0'} else 'nominal levels differ'
            return 'nominal as_int/as_onehot do not match the level list'
        if '\\' in e and g == e.replace('\\', ''): return 'backslash dropped from value'
        if len(g) >= 2 and g[0] in '\'"' and g[-1] == g[0]: return 'quotes/escapes kept in value'
        if '\\' in g and '\\' not in e: return 'quotes/escapes kept in value'
    return 'value differs'


def arff_compare(cols, rows, sparse, got):
    """None or (mode, what).  Demands: row count, header names+positions, every cell, the per-row missing flag."""
    names, exp = arff_expected(cols, rows, sparse)
    if len(got) != len(exp):
        return ('row count differs', f'{len(exp)} rows written, {len(got)} read')
    for i, ((ev, em), grow) in enumerate(zip(exp, got)):
        gv, gm, gh = grow[:3]
        bad = _paths_agree(i, grow, sparse)
        if bad: return bad
        if not sparse:
            if gh != {n: j for j, n in enumerate(names)}:
                return ('column names differ', f'written {names}, read {gh}')
            if len(gv) != len(ev): return ('row width differs', f'row {i}: written {ev}, read {gv}')
            for j, (e, g) in enumerate(zip(ev, gv)):
                if not _veq(e, g, False): return ('cell: ' + _cell_mode(e, g), f'row {i} col {j}: written {e!r}, read {g!r}')
        else:
            gv = dict(gv)
            for n, c, e in zip(names, cols, ev):
                if n not in gv:
                    if any(k not in names for k in gv): return ('column names differ', f'written {names}, read keys {sorted(map(str, gv))}')
                    if c['kind'] == 'numeric' and e == 0: continue
                    return ('cell: value absent', f'row {i} col {n!r}: written {e!r}, not in {gv}')
                g = gv.pop(n)
                if not _veq(e, g, True): return ('cell: ' + _cell_mode(e, g), f'row {i} col {n!r}: written {e!r}, read {g!r}')
            if gv: return ('extra entries', f'row {i}: unexpected {gv}')
        if bool(gm) != em: return ('row missing-flag wrong', f'row {i}: any missing written={em}, flag read={gm!r}')
    return None


# ----------------------------------------------------------------------------------------------- CSV (RFC 4180)
DEFAULT_CSV_V = {'qall': False, 'delim': ',', 'blank': False, 'cr': False}
CSV_VARIANT_VALUES = [('qall', True), ('delim', '\t'), ('blank', True), ('cr', True)]


def csv_lines(names, rows, header, v):
    d = v['delim']
    q = v.get('q', '"')             # quote character (a constructor option of the reader in the re-use family)

    def field(s):
        s = '' if s is None else s
        if v['qall'] or any(c in s for c in (q, '\r', '\n', d)): return q + s.replace(q, q + q) + q
        return s

    def line(fields):
        out = d.join(field(f) for f in fields)
        return q + q if out == '' else out          # a record of one empty field is written "" (csv.writer, pandas, R)
    lines = ([line(names)] if header else []) + [line(r) for r in rows]
    if v['blank']: lines = [l for x in lines for l in (x, '')]
    if v['cr']: lines = [l + '\r\n' for l in lines]
    return lines


def csv_rows_observed(rows, header):
    return [(list(r), dict(r.headers) if header else None, [r[i] for i in range(len(r))], {h: r[h] for h in r.headers} if header else None) for r in rows]


def csv_observe(lines, header, v):
    kw = {'delimiter': '\t'} if v['delim'] == '\t' else {}
    return csv_rows_observed(list(CsvReader(has_header=header, **kw).filter(iter(lines))), header)


def csv_compare(names, rows, header, got):
    exp = [['' if x is None else x for x in r] for r in rows]
    if len(got) != len(exp): return ('row count differs', f'{len(exp)} rows written, {len(got)} read')
    for i, (e, (g, h, byidx, byname)) in enumerate(zip(exp, got)):
        if byidx != g: return ('access paths disagree: list(row) vs row[i]', f'row {i}: list(row) {g!r}, row[i] {byidx!r}')
        if header and any(0 <= j < len(g) and byname[n] != g[j] for n, j in h.items()):
            return ('access paths disagree: list(row) vs row[name]', f'row {i}: list(row) {g!r}, row[name] {byname!r}')
        if header and h != {n: j for j, n in enumerate(names)}: return ('column names differ', f'written {names}, read {h}')
        if len(g) != len(e): return ('row width differs', f'row {i}: written {e}, read {g}')
        for j, (a, b) in enumerate(zip(e, g)):
            if not (isinstance(b, str) and a == b): return ('cell: value differs', f'row {i} col {j}: written {a!r}, read {b!r}')
    return None


# ----------------------------------------------------------------------------------------------- LibSVM / Manik
DEFAULT_SVM_V = {'sep': ' ', 'trail': False, 'lead': False, 'blank': False}
SVM_VARIANT_VALUES = [('sep', '\t'), ('sep', '  '), ('trail', True), ('lead', True), ('blank', True)]


def svm_lines(rows, manik, v):
    """rows = [{'labels':[str..], 'feats':[[idx,literal],...]}]"""
    s = v['sep']
    lines = []
    for r in rows:
        l = s.join([','.join(r['labels'])] + [f'{i}:{x}' for i, x in r['feats']])
        if v['lead']: l = ' ' + l
        if v['trail']: l = l + ' '
        lines.append(l)
    if manik:
        nf = 1 + max([i for r in rows for i, _ in r['feats']] + [0])
        nl = len({l for r in rows for l in r['labels']})
        lines.insert(0, f'{len(rows)} {nf} {nl}')
    if v['blank']: lines = [l for x in lines for l in (x, '')]
    return lines


def svm_observe(lines, manik):
    rows = list((ManikReader() if manik else LibsvmReader()).filter(iter(lines)))
    return [(dict(r[0]), list(r[1])) for r in rows]


def svm_compare(rows, got):
    if len(got) != len(rows): return ('row count differs', f'{len(rows)} rows written, {len(got)} read')
    for i, (r, (feats, labels)) in enumerate(zip(rows, got)):
        if labels != r['labels']: return ('labels differ', f'row {i}: written {r["labels"]}, read {labels}')
        exp = {int(k): float(x) for k, x in r['feats']}
        if set(exp) != set(feats): return ('feature indices differ', f'row {i}: written {sorted(exp)}, read {sorted(feats)}')
        for k in exp:
            if not (isinstance(feats[k], (int, float)) and feats[k] == exp[k]):
                return ('feature value differs', f'row {i} index {k}: written {exp[k]}, read {feats[k]!r}')
    return None
