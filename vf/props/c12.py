"""C12 - what coba reads from a dataset file is what the file says (ENUM engine).

Two bounded-exhaustive enumerations on the real coba code (see DESIGN section 4, C12):

* byte delivery: every text over {a , e-acute euro LF CRLF} up to a length, x {identity,gzip,deflate} x EVERY chunk size
  through HttpSource._byte_it_ vs. str.splitlines(); every short list of terminator-free lines through
  DiskSink -> DiskSource (plain/.gz, batch None/1/2, one write or one write per line).
* parsing: every small table (kinds numeric/string/date/nominal, the awkward cell alphabet) serialised by the
  harness' own common-dialect writers (Weka ARFF dense+sparse, RFC-4180 CSV, LibSVM, Manik) must parse to exactly
  that table; every grammar variant (alone and in pairs) must parse to the same table OR be rejected.

A *group* case enumerates all cell assignments of one table shape; a violation's witness is the single
(minimised) table, which `replay` runs on its own.
"""
import gzip, zlib, os, itertools, shutil
from io import BytesIO

from vf.core import Check, tmpdir, case_hash
from vf.lib import c12_formats as F

from coba.context import CobaContext, NullLogger, MemoryCacher
from coba.pipes.sources import HttpSource, DiskSource
from coba.pipes.sinks import DiskSink
from coba.environments.supervised import CsvSource, ArffSource, LibSvmSource, ManikSource
from coba.pipes.readers import CsvReader, ArffReader, LibsvmReader, ManikReader

# ------------------------------------------------------------------------------------------------ alphabets
SYM = ['a', ',', 'é', '€', '\n', '\r\n']           # byte-delivery alphabet (1,1,2,3,1,2 bytes)
DSYM = ['a', ' ', ',', 'é', '€']                    # DiskSink lines (no terminators; blanks at the line ends must survive)

NUM = ['1', '2.5', '-3', None]
NUM_SPARSE = ['1', '2.5', '-3', '0', None]
STR_FULL = ['a', '', 'a b', 'a,b', "it's", 'say "x"', 'back\\slash', '%', '?', '{x}', 'é', None]      # '' is a legal value (Weka writes '')
STR_SMALL = ['a', '', 'a,b', "it's", 'say "x"', 'back\\slash', '?', None]
STR_TINY = ['a', 'a,b', "it's", 'say "x"', 'back\\slash', None]
STR_TINY5 = ['a', 'a,b', "it's", 'say "x"', None]
NUM_TINY = ['1', '-3', None]
LEVELS = [['a', 'b'], ['a b', 'a,b'], ["it's", 'say "x"'], ['back\\slash', '%'], ['?', '{x}', 'é'], ['1', '2.5', '']]
NAMES = ['my col', "it's", 'a,b', 'é', 'say "x"', '%x', 'back\\slash', '{x}', '?', 'numeric']
SPECS_FULL = ([{'kind': 'numeric'}, {'kind': 'string'}, {'kind': 'nominal', 'levels': LEVELS[0]}, {'kind': 'date', 'datefmt': 'yyyy-MM-dd'}]
              + [{'kind': 'nominal', 'levels': l} for l in LEVELS[1:]] + [{'kind': 'date', 'datefmt': 'yyyy-MM-dd HH:mm'}])
SPECS_SMALL = [{'kind': 'numeric'}, {'kind': 'string'}, {'kind': 'nominal', 'levels': LEVELS[0]}, {'kind': 'date', 'datefmt': 'yyyy-MM-dd HH:mm'},
               {'kind': 'nominal', 'levels': LEVELS[2]}]
SPECS_NS = [{'kind': 'numeric'}, {'kind': 'string'}]
# nominal attributes of ONE file that are related: same level set in another order, equal level lists, sub-/superset, disjoint
NOM_RELATED = [['a', 'b'], ['b', 'a'], ['a', 'b', 'c'], ['c', 'b', 'a'], ['a'], ['b', 'c']]
SPECS_NOM = [{'kind': 'nominal', 'levels': l} for l in NOM_RELATED]
# nominal declarations that contain the level 0 (coba prepends its own '0' to sparse nominals) or repeat a level (not valid ARFF)
NOM_ZERO = [['0', '1'], ['1', '0'], ['0', 'a'], ['b', '0', 'a'], ['a', 'b', 'a'], ['b', 'a', 'b']]
SPECS_ZERO = [{'kind': 'nominal', 'levels': l} for l in NOM_ZERO]
SPECS_ZERO_OTHERS = [{'kind': 'numeric'}, {'kind': 'string'}, {'kind': 'nominal', 'levels': ['a', 'b']}]
CSV_FULL = ['a', '1', '2.5', '-3', 'a b', 'a,b', "it's", 'say "x"', 'back\\slash', '%', '?', '{x}', 'é', None]
CSV_SMALL = ['a', '1', 'a,b', 'say "x"', "it's", 'a b', None]
SVM_LABELS = [['1'], ['0'], ['-1'], ['2.5'], ['1', '3'], ['a']]
XSYM = ['a', 'é', '\n', '\r\n']                   # byte-delivery alphabet used together with ONE of F.LINESEPS
EXO_LINES = [t.replace('x', x) for x in F.LINESEPS for t in ('x', 'ax', 'xa', 'axa', 'éx€')] + ['', 'a']
FILE_CELLS = ['a', 'p\u2028q', 'p\u2028,q', 'a b', None]
# ---- re-use of ONE reader / source object over several reads (tables A, B, A)
RU_CSV_CELLS = ['a', '1', 'a,b', 'x;y', "it's", None]
RU_CSV_OPTS = [{'header': h, 'delim': d, 'q': qc} for qc in ('"', "'") for d in (',', '\t', ';') for h in (False, True)]


def _ru_csv_tables():
    c = RU_CSV_CELLS
    return [[[x]] for x in c] + [[[x, y]] for x in c for y in c] + [[[x], [y]] for x in c for y in c]


def _ru_arff_tables():
    S, N, M = {'kind': 'string'}, {'kind': 'numeric'}, {'kind': 'nominal', 'levels': ['a', 'b']}
    sc, nc, mc = ['a', "it's", 'say "x"', 'a,b', None], ['1', None], ['a', 'b']
    out = []
    for specs, alphas in (((S,), (sc,)), ((N, S), (nc, sc)), ((M, S), (mc, sc)), ((S, S), (sc, sc))):
        cols = [dict(x, name=f'c{i}') for i, x in enumerate(specs)]
        for cells in itertools.product(*alphas):
            for sparse in (False, True):
                out.append({'sparse': sparse, 'cols': cols, 'rows': [list(cells)]})
    return out


def _ru_svm_tables():
    fm = [[[i + 1, x] for i, x in enumerate(t) if x is not None] for t in itertools.product([None, '1', '-2.5'], repeat=2)]
    return [[{'labels': l, 'feats': f}] for l in (['1'], ['1', '3'], ['a']) for f in fm]


SPLIT = 3000          # a group larger than this is split by its leading cells (load balance over 16 shards)


def cell_alpha(spec, alpha, sparse):
    k = spec['kind']
    if k == 'numeric': return (NUM_TINY + (['0'] if sparse else [])) if alpha.startswith('tiny') else NUM_SPARSE if sparse else NUM
    if k == 'string': return {'full': STR_FULL, 'small': STR_SMALL, 'tiny': STR_TINY, 'tiny5': STR_TINY5}[alpha]
    if k == 'date': return ['2020-01-02' if ' ' not in spec['datefmt'] else '2020-01-02 10:30', None]
    return list(dict.fromkeys(spec['levels'])) + [None]


def cclass(kind, x):
    if kind == 'numeric': return 'missing' if x is None else 'plain' if x == '1' else x
    return F.vclass(x)


def plain_cell(col):
    k = col['kind']
    if k == 'numeric': return '1'
    if k == 'string': return 'a'
    if k == 'date': return '2020-01-02'
    return col['levels'][0]


def gz(raw): return gzip.compress(raw, mtime=0)


def deflate(raw):
    c = zlib.compressobj(6, zlib.DEFLATED, -zlib.MAX_WBITS)
    return c.compress(raw) + c.flush()


def shrink(desc, candidates, sig, target):
    """Greedy minimisation: take any smaller descriptor that still fails with the same signature."""
    for _ in range(200):
        for cand in candidates(desc):
            if sig(cand) == target:
                desc = cand
                break
        else:
            return desc
    return desc


def _split_prefixes(alphas, limit):
    """Fix leading cells until the remaining product is <= limit; yields the prefixes (lists of cells)."""
    total = 1
    for a in alphas: total *= len(a)
    k = 0
    while total > limit and k < len(alphas):
        total //= len(alphas[k]); k += 1
    return itertools.product(*alphas[:k])


class C12(Check):
    ID = 'C12'
    LEVEL = 'exploration'
    ENGINE = 'ENUM'
    RULE = ('byte delivery: every text over {a , e-acute euro LF CRLF} of length<=6 (thorough 8) x {identity,gzip,deflate} x every chunk size '
            '1..len+1 and None; DiskSink->DiskSource over every list of <=3 short terminator-free lines over {a blank , e-acute euro} x {plain,.gz} x '
            'batch{None,1,2} x {one list write, one write per line, iterator}. parsing: every table <=2 rows x <=3 columns over the cell alphabet per attribute kind, written by the '
            'harness writers (Weka ARFF dense/sparse, awkward column names, RFC-4180 CSV +-header, LibSVM, Manik), plus every grammar variant '
            '(quote char, minimal escapes, quote-all, comment position, blank lines, keyword case, integer/real, tab delimiter, blanks around separators) alone and in pairs. '
            'A case descriptor is one group (text prefix / table shape / variant) whose members are enumerated exhaustively inside; the group is '
            'non-trivial when a member puts a chunk boundary candidate inside a multi-byte char / CRLF (text contains one), or a table member has a '
            'cell that needs quoting, is missing or is written in a non-default variant; member counts are in counters.')
    ASSUMPTIONS = [
        'oracle for byte delivery is str.splitlines() of the whole text (chunk=None: the text itself); only LF and CRLF terminators are in the alphabet',
        'texts holding VT FF FS GS RS NEL LS PS (boundaries only str.splitlines knows): only chunk-independence is demanded there (every chunk size and encoding gives the lines of the one-piece read), not a particular splitter',
        'DiskSink lines never hold CR or LF (a lone CR inside a written line is read back as a line break by the text layer; outside the alphabet); lines holding the eight other boundary characters must come back as ONE line',
        'tables with U+2028 inside a (quoted or unquoted) value are also read through a real file: CsvSource(path)/ArffSource(path), plain and .gz; a failure that the reader shows on the bare lines too is keyed as the reader finding',
        'deflate payloads are raw deflate streams (what coba decodes); zlib-wrapped deflate is not fed',
        'DiskSink/DiskSource: locale encoding is UTF-8 on this machine (DiskSource opens without an explicit encoding; not varied)',
        'common dialect = weka.core.Utils.quote / Instances.toString for ARFF, csv.writer-style minimal quoting for CSV, "label[,label] idx:val" for LibSVM/Manik; these must parse exactly',
        'grammar variants (quote char, minimal escapes, quote-everything, % comment lines, blank lines, keyword case, tab delimiters, spaces around separators) may be rejected with any exception; only a silently different table is a violation',
        'sparse ARFF: the writer never omits string/nominal cells (coba reads an omitted nominal as its documented artificial level "0"); a leading extra level "0" on sparse nominals is accepted; an omitted numeric 0 may be absent or 0',
        'numeric cells compare by float equality, int or float type not constrained; date cells are compared as strings (coba does not parse dates)',
        'LibSVM/Manik rows without a label are dropped by coba by (pinned) design and are outside the alphabet; labels are compared as the written strings',
        'CSV cells are compared as strings (CsvReader is untyped); missing = empty field; cells with leading/trailing blanks or embedded line breaks are outside the alphabet',
        'a nominal declaration that repeats a level is not valid ARFF: it may be rejected; if accepted the cells must carry a duplicate-free list of exactly the declared levels (order not constrained) with matching as_int/as_onehot',
        'reader / source objects (CsvReader with delimiter , tab ; x quotechar x has_header, ArffReader, LibsvmReader, ManikReader, CsvSource/ArffSource/LibSvmSource/ManikSource on a rewritten file) are read three times on tables A, B, A; every read must give the table it was given',
        'every returned row is read through every access path (list(row), row[i], row[name]; sparse: items() and row[key]) and the paths must agree; rows are materialised in file order (lazy access order is C13)',
    ]
    TECHNIQUE = 'bounded-exhaustive enumeration of texts x encodings x chunk sizes and of tables x dialect variants on the real readers/sources vs. plain-Python reference writers'
    LEVEL_TEXT = ('Every text up to the length bound is delivered in every chunk size under every content encoding and every small table is written in the '
                  'common dialect and in every single/paired grammar variant, then read by the real coba code and compared with the written table; exhaustive below the bound.')
    LEVEL_NOTE = 'small-scope hypothesis: texts <=6/8 symbols, tables <=2 rows x <=3 columns, the listed cell alphabet, variants alone and in pairs'
    MIN_NONTRIVIAL = {'quick': 10000, 'thorough': 30000}
    CASE_TIMEOUT = 120

    # -------------------------------------------------------------------------------------------- lifecycle
    def setup(self, tier):
        CobaContext.logger = NullLogger(); CobaContext.cacher = MemoryCacher(); CobaContext.search_paths = []
        self._dir = None
        self._n = 0
        self._memo = {}

    def teardown(self):
        if getattr(self, '_dir', None): shutil.rmtree(self._dir, True); self._dir = None

    def _path(self, gzipped):
        if self._dir is None: self._dir = tmpdir()
        self._n += 1
        return os.path.join(self._dir, f'f{os.getpid()}_{self._n}' + ('.txt.gz' if gzipped else '.txt'))

    # -------------------------------------------------------------------------------------------- cases
    def cases(self, tier):
        q = tier == 'quick'
        # ---- byte delivery, shortest texts first
        maxlen, plen = (6, 3) if q else (8, 4)
        for n in range(0, maxlen + 1):
            for prefix in itertools.product(range(6), repeat=min(n, plen)):
                yield {'part': 'bytes', 'n': n, 'prefix': list(prefix)}
        # ---- byte delivery of texts holding a line boundary that only str.splitlines knows: chunk-independence
        for xi in range(len(F.LINESEPS)):
            for n in range(1, (5 if q else 6) + 1):
                for prefix in itertools.product(range(5), repeat=min(n, 2)):
                    yield {'part': 'bytesx', 'x': xi, 'n': n, 'prefix': list(prefix)}
        # ---- DiskSink -> DiskSource
        for nl, ml in ([(0, 0), (1, 2), (2, 2), (3, 1)] if q else [(0, 0), (1, 3), (2, 2), (3, 2)]):
            firsts = [None] if nl == 0 else self._disk_lines(ml)
            for f in firsts:
                yield {'part': 'disk', 'nlines': nl, 'maxlen': ml, 'first': f}
        for nl in ((1, 2) if q else (1, 2, 3)):          # lines holding VT FF FS GS RS NEL LS PS (a lone CR cannot be written as part of ONE line)
            for f in EXO_LINES:
                if nl < 3 or f not in ('', 'a'): yield {'part': 'disk', 'nlines': nl, 'maxlen': 'exo', 'first': f}
        # ---- tables with a line-boundary character inside a value, through a file: CsvSource(path) / ArffSource(path)
        for fmt in ('csv', 'csvh', 'arff', 'arff-sparse'):
            for gzipped in (False, True):
                for nrows, ncols in ((1, 1), (1, 2), (2, 1), (2, 2)) + (() if q else ((1, 3), (3, 1))):
                    yield {'part': 'file', 'fmt': fmt, 'gz': gzipped, 'nrows': nrows, 'ncols': ncols}
        # ---- ARFF common dialect
        for sparse in (False, True):
            for nrows, ncols, specs, alpha in self._arff_shapes(tier):
                for cs in itertools.product(specs, repeat=ncols):
                    yield from self._arff_groups(sparse, [], cs, nrows, alpha)
        # ---- ARFF related nominal attributes in one file (state shared between attributes of a file)
        for sparse in (False, True):
            for nrows, ncols, mid in ([(1, 2, False), (2, 2, False), (1, 3, False), (1, 3, True)] + ([] if q else [(2, 3, True), (2, 3, False)])):
                for cs in itertools.product(SPECS_NOM, repeat=ncols - (1 if mid else 0)):
                    for m in ([{'kind': 'numeric'}, {'kind': 'string'}] if mid else [None]):
                        specs = cs if m is None else (cs[0], m) + tuple(cs[1:])
                        yield from self._arff_groups(sparse, [], specs, nrows, 'small')
        # ---- ARFF nominal declarations holding the level 0 / repeating a level, in every column position (first, middle, last = label)
        for sparse in (False, True):
            for nrows, ncols in ((1, 1), (2, 1), (1, 2), (2, 2), (1, 3)) + (() if q else ((2, 3),)):
                for cs in itertools.product(SPECS_ZERO + SPECS_ZERO_OTHERS, repeat=ncols):
                    if any(c in SPECS_ZERO for c in cs): yield from self._arff_groups(sparse, [], cs, nrows, 'small')
        # ---- ARFF column names (one awkward name at a time, then pairs)
        for sparse in (False, True):
            for name in NAMES:
                for s0 in SPECS_SMALL:
                    yield from self._arff_groups(sparse, [], (s0,), 1, 'small', names=[name])
                    for s1 in SPECS_NS:
                        yield from self._arff_groups(sparse, [], (s0, s1), 1, 'small', names=[name, 'c1'])
                        yield from self._arff_groups(sparse, [], (s1, s0), 1, 'small', names=['c0', name])
            for n0 in NAMES:
                for n1 in NAMES:
                    if n0 != n1: yield from self._arff_groups(sparse, [], ({'kind': 'numeric'}, {'kind': 'string'}), 1, 'small', names=[n0, n1])
        # ---- ARFF grammar variants: singles, then pairs
        for dims in (1, 2):
            for v in F.arff_variants(dims):
                if len(v) != dims: continue
                for sparse in (False, True):
                    for nrows, ncols, specs, alpha in self._variant_shapes(tier, dims):
                        for cs in itertools.product(specs, repeat=ncols):
                            yield from self._arff_groups(sparse, v, cs, nrows, alpha)
        # ---- CSV
        for v in self._simple_variants(F.CSV_VARIANT_VALUES):
            for header in (False, True):
                for nrows, ncols, alpha in self._csv_shapes(tier, len(v)):
                    if nrows == 0 and ncols > 1: continue
                    alphas = [CSV_FULL if alpha == 'full' else CSV_SMALL] * (nrows * ncols)
                    for pre in _split_prefixes(alphas, SPLIT):
                        yield {'part': 'csv', 'header': header, 'v': v, 'nrows': nrows, 'ncols': ncols, 'alpha': alpha, 'prefix': list(pre)}
            if not v:
                for name in NAMES:
                    yield {'part': 'csv', 'header': True, 'v': v, 'nrows': 1, 'ncols': 2, 'alpha': 'small', 'prefix': [], 'names': [name, 'c1']}
                    yield {'part': 'csv', 'header': True, 'v': v, 'nrows': 1, 'ncols': 2, 'alpha': 'small', 'prefix': [], 'names': ['c0', name]}
        # ---- ONE reader / source object read three times (tables A, B, A): nothing of an earlier read may survive
        for via in ('reader', 'source'):
            for oi in range(len(RU_CSV_OPTS)):
                for a in range(len(_ru_csv_tables()) if via == 'reader' else 12):
                    yield {'part': 'reuse', 'kind': 'csv', 'via': via, 'opt': oi, 'a': a}
            for a in range(len(_ru_arff_tables()) if via == 'reader' else 16):
                yield {'part': 'reuse', 'kind': 'arff', 'via': via, 'opt': 0, 'a': a}
            for kind in ('libsvm', 'manik'):
                for a in range(len(_ru_svm_tables()) if via == 'reader' else 8):
                    yield {'part': 'reuse', 'kind': kind, 'via': via, 'opt': 0, 'a': a}
        # ---- LibSVM / Manik
        for v in self._simple_variants(F.SVM_VARIANT_VALUES):
            for manik in (False, True):
                for nrows in (0, 1, 2):
                    if nrows == 2 and len(v) == 2 and q: continue
                    for l0 in (SVM_LABELS if nrows else [None]):
                        yield {'part': 'svm', 'manik': manik, 'v': v, 'nrows': nrows, 'label0': l0, 'vals': 2 if (q or len(v) == 2) else 3}

    @staticmethod
    def _simple_variants(values):
        out = [[]] + [[p] for p in values]
        for i, p in enumerate(values):
            for p2 in values[i + 1:]:
                if p2[0] != p[0]: out.append([p, p2])
        return out

    @staticmethod
    def _disk_lines(maxlen):
        return [''.join(t) for n in range(maxlen + 1) for t in itertools.product(DSYM, repeat=n)]

    @staticmethod
    def _arff_shapes(tier):
        """(nrows, ncols, column specs, cell alphabet) for the common dialect, simplest first."""
        out = [(r, c, SPECS_FULL, 'full') for c in (1, 2) for r in (0, 1, 2) if not (r == 0 and c == 2)]
        out += [(1, 3, SPECS_FULL, 'full')]
        if tier == 'quick': out += [(2, 3, SPECS_NS, 'tiny')]
        else: out += [(2, 3, SPECS_SMALL, 'full'), (3, 2, SPECS_NS, 'small')]
        return out

    @staticmethod
    def _variant_shapes(tier, dims):
        if tier == 'quick':
            if dims == 1: return [(1, 1, SPECS_FULL, 'full'), (1, 2, SPECS_FULL, 'full'), (2, 1, SPECS_SMALL, 'small'), (2, 2, SPECS_SMALL, 'small')]
            return [(1, 1, SPECS_SMALL, 'small'), (1, 2, SPECS_SMALL, 'small'), (2, 2, SPECS_NS, 'tiny5')]
        if dims == 1: return [(1, 1, SPECS_FULL, 'full'), (1, 2, SPECS_FULL, 'full'), (2, 1, SPECS_FULL, 'full'), (2, 2, SPECS_FULL, 'full'), (1, 3, SPECS_SMALL, 'small')]
        return [(1, 1, SPECS_FULL, 'full'), (1, 2, SPECS_FULL, 'full'), (2, 2, SPECS_SMALL, 'small')]

    @staticmethod
    def _csv_shapes(tier, nvar):
        if nvar == 0:
            out = [(0, 1, 'full'), (1, 1, 'full'), (2, 1, 'full'), (1, 2, 'full'), (2, 2, 'full'), (1, 3, 'full')]
            return out + [(2, 3, 'small')]
        if nvar == 1: return [(1, 1, 'full'), (1, 2, 'full'), (2, 2, 'small' if tier == 'quick' else 'full')]
        return [(1, 2, 'small'), (2, 2, 'small')]

    def _arff_groups(self, sparse, v, specs, nrows, alpha, names=None):
        cols = [dict(s, name=(names[i] if names else f'c{i}')) for i, s in enumerate(specs)]
        alphas = [cell_alpha(c, alpha, sparse) for c in cols] * nrows
        for pre in _split_prefixes(alphas, SPLIT):
            yield {'part': 'arff', 'sparse': sparse, 'v': [list(p) for p in v], 'cols': cols, 'nrows': nrows, 'alpha': alpha, 'prefix': list(pre)}

    # -------------------------------------------------------------------------------------------- dispatch
    def run_case(self, case, acc):
        getattr(self, '_run_' + case['part'])(case, acc)

    # -------------------------------------------------------------------------------------------- byte delivery
    def _run_bytes(self, case, acc):
        n, prefix = case['n'], case['prefix']
        nt = 0; k = 0
        for rest in itertools.product(range(6), repeat=n - len(prefix)):
            text = ''.join(SYM[i] for i in itertools.chain(prefix, rest))
            raw = text.encode('utf-8')
            if len(raw) > len(text) or '\r\n' in text: nt += 1
            for enc, payload in ((None, raw), ('gzip', gz(raw)), ('deflate', deflate(raw))):
                for chunk in itertools.chain([None], range(1, len(payload) + 2)):
                    k += 1
                    self._bytes_one(text, enc, chunk, payload, acc)
        acc.evaluations += k - 1
        acc.count('byte_deliveries', k)
        acc.count('texts_with_multibyte_or_crlf', nt)
        if nt: acc.mark_nontrivial()

    def _run_bytesx(self, case, acc):
        x = F.LINESEPS[case['x']]
        sym = XSYM + [x]
        n, prefix = case['n'], case['prefix']
        k = nt = 0
        for rest in itertools.product(range(5), repeat=n - len(prefix)):
            idx = list(prefix) + list(rest)
            if 4 not in idx: continue                      # texts without the character are in the 'bytes' part
            text = ''.join(sym[i] for i in idx)
            nt += 1
            k += self._bytesx_text(text, acc)
        acc.evaluations += max(k - 1, 0)
        acc.count('byte_deliveries_linesep', k)
        acc.count('texts_with_linesep', nt)
        if nt: acc.mark_nontrivial()

    def _run_bytesx1(self, w, acc):
        self._bytesx_text(w['text'], acc, only=(w['enc'], w['chunk']))

    def _bytesx_text(self, text, acc, only=None):
        """Chunk-independence: every chunk size and encoding gives the lines of the single-read delivery (which splitter is used is not demanded)."""
        raw = text.encode('utf-8')
        k = 0
        ref = None
        for enc, payload in ((None, raw), ('gzip', gz(raw)), ('deflate', deflate(raw))):
            for chunk in itertools.chain([len(payload) + 1, None], range(1, len(payload) + 1)):
                if only and ref is not None and (enc, chunk) != tuple(only): continue
                k += 1
                wit = {'part': 'bytesx1', 'text': text, 'enc': enc, 'chunk': chunk}
                order = (0, len(text), len(payload), chunk or 0, case_hash(wit))
                try:
                    out = HttpSource._byte_it_(enc, 'utf-8', chunk, BytesIO(payload))
                    got = out if chunk is None else list(out)
                except Exception as e:   # noqa
                    acc.outcome(f'bytes raises {type(e).__name__}')
                    acc.violation(f'HttpSource._byte_it_|raises {type(e).__name__}|text with a line-boundary character other than LF/CRLF',
                                  f'text {text!r} enc={enc} chunk={chunk}: {e!r}', wit, order=order)
                    continue
                if chunk is None:
                    if got != text:
                        acc.violation('HttpSource._byte_it_|whole-body text differs|text with a line-boundary character other than LF/CRLF',
                                      f'text {text!r} enc={enc}: got {got!r}', wit, order=order)
                    continue
                if ref is None: ref = got                   # identity encoding, one read
                if got == ref:
                    acc.outcome(('bytesx lines', min(len(ref), 3)))
                else:
                    acc.outcome('bytesx chunk-dependent')
                    acc.violation('HttpSource._byte_it_|lines depend on the chunk size|text with a line-boundary character other than LF/CRLF',
                                  f'text {text!r} enc={enc} chunk={chunk}: {got!r}, but read in one piece: {ref!r}', wit, order=order)
        return k

    # -------------------------------------------------------------------------------------------- tables through a file
    def _file_eval(self, d):
        fmt, names, rows = d['fmt'], d['names'], d['rows']
        if fmt.startswith('csv'):
            lines = F.csv_lines(names, rows, fmt == 'csvh', F.DEFAULT_CSV_V)
        else:
            cols = [{'name': n, 'kind': 'string'} for n in names]
            lines = F.arff_lines(cols, rows, fmt == 'arff-sparse', F.variant())
        path = self._path(d['gz'])
        try:
            data = ''.join(l + '\n' for l in lines).encode('utf-8')
            with open(path, 'wb') as f: f.write(gz(data) if d['gz'] else data)
            try:
                if fmt.startswith('csv'):
                    got = [(list(r), dict(r.headers) if fmt == 'csvh' else None, [r[i] for i in range(len(r))], {h: r[h] for h in r.headers} if fmt == 'csvh' else None)
                           for r in CsvSource(path, has_header=(fmt == 'csvh')).read()]
                    r = F.csv_compare(names, rows, fmt == 'csvh', got)
                else:
                    sparse = fmt == 'arff-sparse'
                    got = []
                    for row in ArffSource(path).read():
                        got.append(F.observe_row(row, sparse))
                    r = F.arff_compare(cols, rows, sparse, got)
            except Exception as e:   # noqa
                return ('reject', type(e).__name__, f'{e!r}'[:160] + f' <- {lines}')
        finally:
            if os.path.exists(path): os.unlink(path)
        return None if r is None else ('mismatch', r[0], r[1] + f' <- {lines}')

    @staticmethod
    def _file_candidates(d):
        names, rows = d['names'], d['rows']
        if d['gz']: yield dict(d, gz=False)
        for i in range(len(rows)): yield dict(d, rows=rows[:i] + rows[i + 1:])
        if len(names) > 1:
            for j in range(len(names)): yield dict(d, names=names[:j] + names[j + 1:], rows=[r[:j] + r[j + 1:] for r in rows])
        for i, r in enumerate(rows):
            for j in range(len(names)):
                if r[j] != 'a': yield dict(d, rows=rows[:i] + [r[:j] + ['a'] + r[j + 1:]] + rows[i + 1:])

    def _file_one(self, d, acc, res=None):
        if res is None: res = self._file_eval(d)
        if res is None:
            acc.outcome(d['fmt'] + ' file same table'); return False
        sig = res[:2]
        # the same table failing the same way when the reader is fed the lines directly is the reader's finding, not the file path's
        if d['fmt'].startswith('csv'):
            dm = {'header': d['fmt'] == 'csvh', 'v': [], 'names': d['names'], 'rows': d['rows']}
            if (self._csv_eval(dm) or (None, None))[:2] == sig: return self._csv_one(dm, acc)
        else:
            dm = {'sparse': d['fmt'] == 'arff-sparse', 'v': [], 'cols': [{'name': n, 'kind': 'string'} for n in d['names']], 'rows': d['rows']}
            if (self._arff_eval(dm) or (None, None))[:2] == sig: return self._arff_one(dm, acc)
        small = shrink(d, self._file_candidates, lambda c: (self._file_eval(c) or (None, None))[:2], sig)
        mode = ('rejects common dialect: ' + sig[1]) if sig[0] == 'reject' else sig[1]
        feat = ' + '.join((['.gz'] if small['gz'] else []) + sorted({F.vclass(x) for r in small['rows'] for x in r if F.vclass(x) != 'plain'})) or 'any table'
        acc.outcome(d['fmt'] + ' file ' + mode)
        size = (len(small['rows']), len(small['names']), sum(len(x or '') for r in small['rows'] for x in r))
        acc.violation(f"{small['fmt']} via file source|{mode}|{feat}", self._file_eval(small)[2], dict(small, part='file1'), order=(5,) + size + (case_hash(small),))
        return True

    def _run_file1(self, w, acc):
        self._file_one({k: w[k] for k in ('fmt', 'gz', 'names', 'rows')}, acc)

    def _run_file(self, case, acc):
        nrows, nc = case['nrows'], case['ncols']
        names = [f'c{j}' for j in range(nc)]
        k = nt = bad = 0
        seen = set()
        for flat in itertools.product(FILE_CELLS, repeat=nrows * nc):
            rows = [list(flat[i * nc:(i + 1) * nc]) for i in range(nrows)]
            d = {'fmt': case['fmt'], 'gz': case['gz'], 'names': names, 'rows': rows}
            k += 1
            if any(F.vclass(x) == 'line-boundary character' for x in flat): nt += 1
            res = self._file_eval(d)
            if res is None:
                acc.outcome(case['fmt'] + ' file same table'); continue
            fp = (res[:2], tuple(sorted({(j, F.vclass(r[j])) for r in rows for j in range(nc)})))
            if fp in seen: bad += 1; continue
            seen.add(fp)
            if self._file_one(d, acc, res): bad += 1
        acc.evaluations += k - 1
        acc.count('file_tables', k); acc.count('file_tables_with_linesep', nt); acc.count('file_tables_violating', bad)
        if nt: acc.mark_nontrivial()

    # -------------------------------------------------------------------------------------------- re-used reader / source objects
    def _ru_make(self, d, path):
        kind, via = d['kind'], d['via']
        if kind == 'csv':
            o = d['opts']
            kw = {}
            if o['delim'] != ',': kw['delimiter'] = o['delim']
            if o['q'] != '"': kw['quotechar'] = o['q']
            return CsvReader(has_header=o['header'], **kw) if via == 'reader' else CsvSource(path, has_header=o['header'], **kw)
        if kind == 'arff': return ArffReader() if via == 'reader' else ArffSource(path)
        if kind == 'libsvm': return LibsvmReader() if via == 'reader' else LibSvmSource(path)
        return ManikReader() if via == 'reader' else ManikSource(path)

    def _ru_read(self, d, obj, t, path):
        """One read of table t through obj: None | (mode, text)."""
        kind = d['kind']
        if kind == 'csv':
            o = d['opts']
            names = [f'c{j}' for j in range(len(t[0]))]
            lines = F.csv_lines(names, t, o['header'], dict(F.DEFAULT_CSV_V, delim=o['delim'], q=o['q']))
        elif kind == 'arff':
            lines = F.arff_lines(t['cols'], t['rows'], t['sparse'], F.variant())
        else:
            lines = F.svm_lines(t, kind == 'manik', F.DEFAULT_SVM_V)
        try:
            if d['via'] == 'source':
                with open(path, 'wb') as f: f.write(''.join(l + '\n' for l in lines).encode('utf-8'))
                rows = obj.read()
            else:
                rows = obj.filter(iter(lines))
            if kind == 'csv': r = F.csv_compare(names, t, o['header'], F.csv_rows_observed(list(rows), o['header']))
            elif kind == 'arff': r = F.arff_compare(t['cols'], t['rows'], t['sparse'], [F.observe_row(x, t['sparse']) for x in rows])
            else: r = F.svm_compare(t, [(dict(x[0]), list(x[1])) for x in rows])
        except Exception as e:   # noqa
            return ('raises ' + type(e).__name__, f'{e!r}'[:160] + f' <- {lines}')
        return None if r is None else (r[0], r[1] + f' <- {lines}')

    def _ru_eval(self, d):
        """None | (when, mode, text): when = 'later read of a re-used object' if a fresh object reads that table correctly."""
        path = self._path(False) if d['via'] == 'source' else None
        try:
            obj = self._ru_make(d, path)
            for k, t in enumerate(d['tables']):
                r = self._ru_read(d, obj, t, path)
                if r is None: continue
                fresh = self._ru_read(d, self._ru_make(d, path), t, path)
                if fresh is not None and fresh[0] == r[0]: return ('any read', r[0], r[1])
                return ('later read of a re-used object' if k else 'first read', r[0], f'read #{k + 1}: ' + r[1])
            return None
        finally:
            if path and os.path.exists(path): os.unlink(path)

    @staticmethod
    def _ru_candidates(d):
        ts = d['tables']
        for i in range(len(ts)):
            if len(ts) > 1: yield dict(d, tables=ts[:i] + ts[i + 1:])
        if d['via'] == 'source': yield dict(d, via='reader')
        if d['kind'] == 'csv':
            o = d['opts']
            if o['header']: yield dict(d, opts=dict(o, header=False))
            if o['q'] != '"': yield dict(d, opts=dict(o, q='"'))
            if o['delim'] == ';': yield dict(d, opts=dict(o, delim='\t'))
            if o['delim'] != ',': yield dict(d, opts=dict(o, delim=','))
            for i, t in enumerate(ts):
                for r_i, r in enumerate(t):
                    for j, x in enumerate(r):
                        if x != 'a': yield dict(d, tables=ts[:i] + [t[:r_i] + [r[:j] + ['a'] + r[j + 1:]] + t[r_i + 1:]] + ts[i + 1:])

    def _ru_one(self, d, acc, res=None):
        if res is None: res = self._ru_eval(d)
        if res is None:
            acc.outcome(f"{d['kind']} {d['via']} re-used ok"); return False
        sig = res[:2]
        small = shrink(d, self._ru_candidates, lambda c: (self._ru_eval(c) or (None, None))[:2], sig)
        feat = []
        if small['kind'] == 'csv':
            o = small['opts']
            if o['delim'] != ',': feat.append('delimiter=' + ('tab' if o['delim'] == '\t' else o['delim']))
            if o['q'] != '"': feat.append('quotechar=single')
            if o['header']: feat.append('has_header')
            feat += sorted({'cell:' + F.vclass(x) for t in small['tables'] for r in t for x in r if F.vclass(x) != 'plain'})
        acc.outcome(f"{d['kind']} re-used {sig[0]} {sig[1]}")
        acc.violation(f"{small['kind']} {small['via']} object re-used|{sig[0]}: {sig[1]}|{' + '.join(feat) or 'default options'}", self._ru_eval(small)[2],
                      dict(small, part='reuse1'), order=(6, len(small['tables']), len(feat), case_hash(small)))
        return True

    def _run_reuse1(self, w, acc):
        self._ru_one({k: w[k] for k in ('kind', 'via', 'tables') + (('opts',) if 'opts' in w else ())}, acc)

    def _run_reuse(self, case, acc):
        kind = case['kind']
        tables = _ru_csv_tables() if kind == 'csv' else _ru_arff_tables() if kind == 'arff' else _ru_svm_tables()
        A = tables[case['a']]
        k = bad = 0
        seen = set()
        for b, B in enumerate(tables):
            if case['via'] == 'source' and b >= 24: break
            d = {'kind': kind, 'via': case['via'], 'tables': [A, B, A]}
            if kind == 'csv': d['opts'] = RU_CSV_OPTS[case['opt']]
            k += 1
            res = self._ru_eval(d)
            if res is None:
                acc.outcome(f'{kind} {case["via"]} re-used ok'); continue
            if res[:2] in seen: bad += 1; continue
            seen.add(res[:2])
            if self._ru_one(d, acc, res): bad += 1
        acc.evaluations += k - 1
        acc.count('reuse_sequences', k); acc.count('reuse_sequences_violating', bad)
        acc.mark_nontrivial()

    def _run_bytes1(self, w, acc):
        raw = w['text'].encode('utf-8')
        payload = raw if not w['enc'] else gz(raw) if w['enc'] == 'gzip' else deflate(raw)
        self._bytes_one(w['text'], w['enc'], w['chunk'], payload, acc)

    def _bytes_one(self, text, enc, chunk, payload, acc):
        wit = {'part': 'bytes1', 'text': text, 'enc': enc, 'chunk': chunk}
        order = (len(text), len(payload), chunk or 0, case_hash(wit))
        term = 'text has CRLF' if '\r\n' in text else 'LF only' if '\n' in text else 'no terminator'
        try:
            out = HttpSource._byte_it_(enc, 'utf-8', chunk, BytesIO(payload))
            got = out if chunk is None else list(out)
        except Exception as e:   # noqa
            feat = 'multi-byte character in text' if len(payload) and any(ord(c) > 127 for c in text) else 'ascii text'
            acc.outcome(f'bytes raises {type(e).__name__}')
            acc.violation(f'HttpSource._byte_it_|raises {type(e).__name__}|{feat}, {"whole body" if chunk is None else "chunked"}',
                          f'text {text!r} enc={enc} chunk={chunk}: {e!r}', wit, order=(0,) + order)
            return
        if chunk is None:
            acc.outcome('bytes whole ok' if got == text else 'bytes whole differs')
            if got != text:
                acc.violation(f'HttpSource._byte_it_|whole-body text differs|{term}', f'text {text!r} enc={enc}: got {got!r}', wit, order=(0,) + order)
            return
        exp = text.splitlines()
        if got == exp:
            acc.outcome(('bytes lines', min(len(exp), 3)))
            return
        if not all(isinstance(g, str) for g in got): mode = 'non-string lines'
        elif len(got) > len(exp) and [g for g in got if g] == [e for e in exp if e]: mode = 'spurious empty line(s)'
        elif ''.join(got) == ''.join(exp): mode = 'lines split or merged at the wrong place'
        else: mode = 'characters lost, duplicated or altered'
        acc.outcome('bytes ' + mode)
        acc.violation(f'HttpSource._byte_it_|{mode}|{term}', f'text {text!r} enc={enc} chunk={chunk}: expected {exp!r}, got {got!r}', wit, order=(0,) + order)

    # -------------------------------------------------------------------------------------------- disk round trip
    def _run_disk(self, case, acc):
        nl, ml = case['nlines'], case['maxlen']
        lines_alpha = EXO_LINES if ml == 'exo' else self._disk_lines(ml)
        k = 0
        for rest in itertools.product(lines_alpha, repeat=max(nl - 1, 0)):
            lines = ([] if nl == 0 else [case['first']]) + list(rest)
            for gzipped in (False, True):
                for batch in (None, 1, 2):
                    for how in ('list', 'each', 'iter'):
                        k += 1
                        self._disk_one({'part': 'disk1', 'lines': lines, 'gz': gzipped, 'batch': batch, 'how': how}, acc)
        acc.evaluations += k - 1
        acc.count('disk_round_trips', k)
        if nl: acc.mark_nontrivial()

    _run_disk1 = lambda self, w, acc: self._disk_one(w, acc)

    def _disk_eval(self, w):
        """None | (mode, text) for one round trip on a fresh file."""
        lines, how = list(w['lines']), w['how']
        path = self._path(w['gz'])
        try:
            try:
                sink = DiskSink(path, batch=w['batch'])
                if how == 'each':
                    for l in lines: sink.write(l)
                elif how == 'iter': sink.write(iter(list(lines)))
                else: sink.write(list(lines))
                got = list(DiskSource(path).read()) if os.path.exists(path) else []
            except Exception as e:   # noqa
                return (f'raises {type(e).__name__}', f'lines {lines!r}: {e!r}')
        finally:
            if os.path.exists(path): os.unlink(path)
        if got == lines: return None
        return ('line count differs' if len(got) != len(lines) else 'line content differs', f'wrote {lines!r}, read {got!r}')

    def _disk_one(self, w, acc):
        res = self._disk_eval(w)
        if res is None:
            acc.outcome(('disk ok', min(len(w['lines']), 3))); return
        acc.outcome('disk ' + res[0])
        # which of the configuration choices does the failure need?  (plain file, no batching, one list write is the base)
        small = dict(w)
        for k, base in (('gz', False), ('batch', None), ('how', 'list')):
            if small[k] != base:
                r = self._disk_eval(dict(small, **{k: base}))
                if r is not None and r[0] == res[0]: small[k] = base
        feat = ', '.join(x for x in ('.gz' if small['gz'] else '', f'batch={small["batch"]}' if small['batch'] else '',
                                     f'write={small["how"]}' if small['how'] != 'list' else '') if x) or 'any configuration'
        lines = small['lines']
        cls = ('line-boundary character other than LF' if any(c in l for l in lines for c in F.LINESEPS) else 'blank at a line end' if any(l != l.strip() for l in lines) else 'multi-byte character' if any(ord(c) > 127 for l in lines for c in l)
               else 'empty line' if '' in lines else 'any lines')
        acc.violation(f'DiskSink->DiskSource|{res[0]}|{feat}: {cls}', self._disk_eval(small)[1], small,
                      order=(1, len(lines), sum(map(len, lines)), case_hash(small)))

    # -------------------------------------------------------------------------------------------- ARFF
    def _arff_eval(self, d):
        """None | ('reject', ExcName, text) | ('mismatch', mode, text); memoised per worker (speed only: the minimiser
        keeps landing on the same small tables)."""
        key = (d['sparse'], tuple(map(tuple, d['v'])),
               tuple((c['name'], c['kind'], tuple(c.get('levels', ())), c.get('datefmt')) for c in d['cols']), tuple(map(tuple, d['rows'])))
        memo = self._memo
        if key in memo: return memo[key]
        if len(memo) > 400000: memo.clear()
        res = memo[key] = self._arff_eval_raw(d)
        return res

    @staticmethod
    def _arff_eval_raw(d):
        v = F.variant(*[tuple(p) for p in d['v']])
        lines = F.arff_lines(d['cols'], d['rows'], d['sparse'], v)
        try:
            got = F.arff_observe(lines, d['sparse'])
        except Exception as e:   # noqa
            return ('reject', type(e).__name__, f'{e!r}'[:160] + f' <- {lines[3:]}')
        r = F.arff_compare(d['cols'], d['rows'], d['sparse'], got)
        return None if r is None else ('mismatch', r[0], r[1] + f' <- {lines[3:]}')

    @staticmethod
    def _arff_candidates(d):
        cols, rows = d['cols'], d['rows']
        for i in range(len(d['v'])): yield dict(d, v=d['v'][:i] + d['v'][i + 1:])
        for i, p in enumerate(d['v']):
            if list(p) == ['sp', 'both']:
                yield dict(d, v=d['v'][:i] + [['sp', 'before']] + d['v'][i + 1:])
                yield dict(d, v=d['v'][:i] + [['sp', 'after']] + d['v'][i + 1:])
        for i in range(len(rows)): yield dict(d, rows=rows[:i] + rows[i + 1:])
        if len(cols) > 1:
            for j in range(len(cols)):
                yield dict(d, cols=cols[:j] + cols[j + 1:], rows=[r[:j] + r[j + 1:] for r in rows])
        for j, c in enumerate(cols):
            if F.vclass(c['name']) != 'plain' or c['name'] == 'numeric':
                yield dict(d, cols=cols[:j] + [dict(c, name=f'c{j}')] + cols[j + 1:])
            if c['kind'] == 'nominal':
                for li, l in enumerate(c['levels']):
                    if len(c['levels']) > 2 and all(r[j] != l for r in rows):
                        yield dict(d, cols=cols[:j] + [dict(c, levels=[x for x in c['levels'] if x != l])] + cols[j + 1:])
                    if F.vclass(l) != 'plain' or not l.isalpha():
                        p = next(x for x in 'abcdefgh' if x not in c['levels'])
                        yield dict(d, cols=cols[:j] + [dict(c, levels=c['levels'][:li] + [p] + c['levels'][li + 1:])] + cols[j + 1:],
                                   rows=[r[:j] + [p if r[j] == l else r[j]] + r[j + 1:] for r in rows])
            if c['kind'] == 'date' and ' ' in c['datefmt']:
                yield dict(d, cols=cols[:j] + [dict(c, datefmt='yyyy-MM-dd')] + cols[j + 1:])
            if c['kind'] in ('nominal', 'date'):
                yield dict(d, cols=cols[:j] + [{'name': c['name'], 'kind': 'string'}] + cols[j + 1:])
            if c['kind'] != 'numeric':
                yield dict(d, cols=cols[:j] + [{'name': c['name'], 'kind': 'numeric'}] + cols[j + 1:],
                           rows=[r[:j] + [None if r[j] is None else '1'] + r[j + 1:] for r in rows])
        for i, r in enumerate(rows):
            for j, c in enumerate(cols):
                p = plain_cell(c)
                if r[j] != p: yield dict(d, rows=rows[:i] + [r[:j] + [p] + r[j + 1:]] + rows[i + 1:])

    @staticmethod
    def _arff_feature(d):
        """variant + classes of the awkward names / cells / levels that survive minimisation (kinds, row and column counts are
        in the witness, not in the key: one root cause should give one key)."""
        parts = []
        vn = F.variant_name([tuple(p) for p in d['v']])
        if vn != 'default': parts.append(vn)
        cells, levels = set(), set()
        for j, c in enumerate(d['cols']):
            if F.vclass(c['name']) != 'plain' or c['name'] == 'numeric': parts.append('name:' + ('keyword' if c['name'] == 'numeric' else F.vclass(c['name'])))
            if c['kind'] == 'nominal': levels |= {F.vclass(l) if F.vclass(l) != 'plain' else 'numeric-looking' for l in c['levels'] if (F.vclass(l) != 'plain' or not l.isalpha()) and l != '0'}
            if c['kind'] == 'date' and ' ' in c['datefmt']: parts.append('datefmt:space')
            for r in d['rows']:
                cc = cclass(c['kind'], r[j])
                if cc != 'plain': cells.add(cc if c['kind'] != 'numeric' or cc == 'missing' else 'num ' + cc)
        parts += sorted(cells) + sorted('level:' + l for l in levels - cells)
        noms = [c['levels'] for c in d['cols'] if c['kind'] == 'nominal']
        rel = set()
        if any('0' in a for a in noms): rel.add('nominal declares the level 0')
        if any(len(set(a)) != len(a) for a in noms): rel.add('nominal declaration repeats a level')
        for i, a in enumerate(noms):
            for b in noms[i + 1:]:
                if a == b: rel.add('nominals with equal level lists')
                elif set(a) == set(b): rel.add('nominals with the same level set in another order')
                elif set(a) < set(b) or set(b) < set(a): rel.add('nominal level set is a subset of another')
                elif set(a) & set(b): rel.add('nominals with overlapping level sets')
        parts += sorted(rel)
        if len(d['rows']) == 0: parts.append('no rows')
        return ' + '.join(parts) or 'any table'

    @staticmethod
    def _invalid_decl(d):
        return any(c['kind'] == 'nominal' and len(set(c['levels'])) != len(c['levels']) for c in d['cols'])

    def _arff_one(self, d, acc, res=None):
        """Evaluate one table; on failure minimise and report.  Returns True when it was a violation."""
        if res is None: res = self._arff_eval(d)
        fmt = 'arff-sparse' if d['sparse'] else 'arff-dense'
        if res is None:
            acc.outcome(fmt + ' same table'); return False
        if res[0] == 'reject' and (d['v'] or self._invalid_decl(d)):
            acc.outcome(fmt + ' variant rejected:' + res[1]); acc.count('variant_rejected'); return False
        sig = res[:2]
        small = shrink(d, self._arff_candidates, lambda c: (self._arff_eval(c) or (None, None))[:2], sig)
        if sig[0] == 'reject' and (small['v'] or self._invalid_decl(small)):       # minimisation must not turn a common-dialect rejection into an allowed one
            small = d
        what = self._arff_eval(small)[2]
        mode = ('rejects common dialect: ' + sig[1]) if sig[0] == 'reject' else sig[1]
        acc.outcome(fmt + ' ' + mode)
        size = (len(small['v']), len(small['rows']), len(small['cols']), sum(len(x or '') for r in small['rows'] for x in r))
        acc.violation(f'{fmt}|{mode}|{self._arff_feature(small)}', what, dict(small, part='arff1'), order=(2,) + size + (case_hash(small),))
        return True

    def _run_arff1(self, w, acc):
        self._arff_one({k: w[k] for k in ('sparse', 'v', 'cols', 'rows')}, acc)

    def _run_arff(self, case, acc):
        cols, nrows, sparse = case['cols'], case['nrows'], case['sparse']
        nc = len(cols)
        alphas = [cell_alpha(c, case['alpha'], sparse) for c in cols] * nrows
        pre = case['prefix']
        k = nt = bad = 0
        seen = set()
        for rest in itertools.product(*alphas[len(pre):]):
            flat = list(pre) + list(rest)
            rows = [flat[i * nc:(i + 1) * nc] for i in range(nrows)]
            d = {'sparse': sparse, 'v': case['v'], 'cols': cols, 'rows': rows}
            k += 1
            if case['v'] or any(cclass(c['kind'], x) != 'plain' for r in rows for c, x in zip(cols, r)) or any(F.vclass(c['name']) != 'plain' for c in cols): nt += 1
            res = self._arff_eval(d)
            if res is None:
                acc.outcome(('arff-sparse' if sparse else 'arff-dense') + ' same table'); continue
            if res[0] == 'reject' and (case['v'] or self._invalid_decl(d)):
                self._arff_one(d, acc, res); continue
            # identical failures inside one group (same mode, same offending cell classes) are minimised once
            fp = (res[:2], tuple(sorted({(j, cclass(cols[j]['kind'], r[j])) for r in rows for j in range(nc)})))
            if fp in seen: bad += 1; continue
            seen.add(fp)
            if self._arff_one(d, acc, res): bad += 1
        acc.evaluations += k - 1
        acc.count('arff_tables', k); acc.count('arff_tables_nontrivial', nt); acc.count('arff_tables_violating', bad)
        if nt: acc.mark_nontrivial()

    # -------------------------------------------------------------------------------------------- CSV
    @staticmethod
    def _csv_eval(d):
        v = dict(F.DEFAULT_CSV_V); v.update({k: x for k, x in d['v']})
        lines = F.csv_lines(d['names'], d['rows'], d['header'], v)
        try:
            got = F.csv_observe(lines, d['header'], v)
        except Exception as e:   # noqa
            return ('reject', type(e).__name__, f'{e!r}'[:160] + f' <- {lines}')
        r = F.csv_compare(d['names'], d['rows'], d['header'], got)
        return None if r is None else ('mismatch', r[0], r[1] + f' <- {lines}')

    @staticmethod
    def _csv_candidates(d):
        names, rows = d['names'], d['rows']
        for i in range(len(d['v'])): yield dict(d, v=d['v'][:i] + d['v'][i + 1:])
        if d['header']: yield dict(d, header=False)
        for i in range(len(rows)): yield dict(d, rows=rows[:i] + rows[i + 1:])
        if len(names) > 1:
            for j in range(len(names)): yield dict(d, names=names[:j] + names[j + 1:], rows=[r[:j] + r[j + 1:] for r in rows])
        for j, n in enumerate(names):
            if n != f'c{j}': yield dict(d, names=names[:j] + [f'c{j}'] + names[j + 1:])
        for i, r in enumerate(rows):
            for j in range(len(names)):
                if r[j] != 'a': yield dict(d, rows=rows[:i] + [r[:j] + ['a'] + r[j + 1:]] + rows[i + 1:])

    @staticmethod
    def _csv_feature(d):
        parts = ['header'] if d['header'] else []
        if d['v']: parts.append(','.join(f'{k}={"tab" if x == chr(9) else x}' for k, x in d['v']))
        parts += sorted({'name:' + F.vclass(n) for n in d['names'] if F.vclass(n) != 'plain'} if d['header'] else [])
        parts += sorted({'cell:' + F.vclass(x) for r in d['rows'] for x in r if F.vclass(x) != 'plain'})
        if len(d['rows']) == 0: parts.append('no rows')
        return ' + '.join(parts) or 'any table'

    def _csv_one(self, d, acc, res=None):
        if res is None: res = self._csv_eval(d)
        if res is None:
            acc.outcome('csv same table'); return False
        if res[0] == 'reject' and d['v']:
            acc.outcome('csv variant rejected:' + res[1]); acc.count('variant_rejected'); return False
        sig = res[:2]
        small = shrink(d, self._csv_candidates, lambda c: (self._csv_eval(c) or (None, None))[:2], sig)
        if sig[0] == 'reject' and small['v']: small = d
        mode = ('rejects common dialect: ' + sig[1]) if sig[0] == 'reject' else sig[1]
        acc.outcome('csv ' + mode)
        size = (len(small['v']), len(small['rows']), len(small['names']), sum(len(x or '') for r in small['rows'] for x in r))
        acc.violation(f'csv|{mode}|{self._csv_feature(small)}', self._csv_eval(small)[2], dict(small, part='csv1'), order=(3,) + size + (case_hash(small),))
        return True

    def _run_csv1(self, w, acc):
        self._csv_one({k: w[k] for k in ('header', 'v', 'names', 'rows')}, acc)

    def _run_csv(self, case, acc):
        nrows, nc = case['nrows'], case['ncols']
        names = case.get('names') or [f'c{j}' for j in range(nc)]
        alpha = CSV_FULL if case['alpha'] == 'full' else CSV_SMALL
        pre = case['prefix']
        k = nt = bad = 0
        seen = set()
        for rest in itertools.product(alpha, repeat=nrows * nc - len(pre)):
            flat = list(pre) + list(rest)
            rows = [flat[i * nc:(i + 1) * nc] for i in range(nrows)]
            d = {'header': case['header'], 'v': case['v'], 'names': names, 'rows': rows}
            k += 1
            if case['v'] or any(F.vclass(x) != 'plain' for x in flat) or case.get('names'): nt += 1
            res = self._csv_eval(d)
            if res is None:
                acc.outcome('csv same table'); continue
            if res[0] == 'reject' and case['v']:
                self._csv_one(d, acc, res); continue
            fp = (res[:2], tuple(sorted({(j, F.vclass(r[j])) for r in rows for j in range(nc)})))
            if fp in seen: bad += 1; continue
            seen.add(fp)
            if self._csv_one(d, acc, res): bad += 1
        acc.evaluations += k - 1
        acc.count('csv_tables', k); acc.count('csv_tables_nontrivial', nt); acc.count('csv_tables_violating', bad)
        if nt: acc.mark_nontrivial()

    # -------------------------------------------------------------------------------------------- LibSVM / Manik
    @staticmethod
    def _svm_eval(d):
        v = dict(F.DEFAULT_SVM_V); v.update({k: x for k, x in d['v']})
        lines = F.svm_lines(d['rows'], d['manik'], v)
        try:
            got = F.svm_observe(lines, d['manik'])
        except Exception as e:   # noqa
            return ('reject', type(e).__name__, f'{e!r}'[:160] + f' <- {lines}')
        r = F.svm_compare(d['rows'], got)
        return None if r is None else ('mismatch', r[0], r[1] + f' <- {lines}')

    @staticmethod
    def _svm_candidates(d):
        rows = d['rows']
        for i in range(len(d['v'])): yield dict(d, v=d['v'][:i] + d['v'][i + 1:])
        for i in range(len(rows)): yield dict(d, rows=rows[:i] + rows[i + 1:])
        for i, r in enumerate(rows):
            for j in range(len(r['feats'])):
                yield dict(d, rows=rows[:i] + [dict(r, feats=r['feats'][:j] + r['feats'][j + 1:])] + rows[i + 1:])
            if r['labels'] != ['1']: yield dict(d, rows=rows[:i] + [dict(r, labels=['1'])] + rows[i + 1:])
            for j, (idx, x) in enumerate(r['feats']):
                if x != '1': yield dict(d, rows=rows[:i] + [dict(r, feats=r['feats'][:j] + [[idx, '1']] + r['feats'][j + 1:])] + rows[i + 1:])

    @staticmethod
    def _svm_feature(d):
        parts = []
        if d['v']: parts.append(','.join(f'{k}={"tab" if x == chr(9) else "2 spaces" if x == "  " else x}' for k, x in d['v']))
        lab = set()
        for r in d['rows']:
            if len(r['labels']) > 1: lab.add('multi-label')
            elif r['labels'] != ['1']: lab.add('label ' + ('negative' if r['labels'][0].startswith('-') else 'float' if '.' in r['labels'][0] else 'zero' if r['labels'][0] == '0' else 'text'))
            for _, x in r['feats']:
                if x != '1': lab.add('value ' + x)
        parts += sorted(lab)
        if len(d['rows']) == 0: parts.append('no rows')
        return ' + '.join(parts) or 'any row'

    def _svm_one(self, d, acc, res=None):
        fmt = 'manik' if d['manik'] else 'libsvm'
        if res is None: res = self._svm_eval(d)
        if res is None:
            acc.outcome(fmt + ' same table'); return False
        if res[0] == 'reject' and d['v']:
            acc.outcome(fmt + ' variant rejected:' + res[1]); acc.count('variant_rejected'); return False
        sig = res[:2]
        small = shrink(d, self._svm_candidates, lambda c: (self._svm_eval(c) or (None, None))[:2], sig)
        if sig[0] == 'reject' and small['v']: small = d
        mode = ('rejects common dialect: ' + sig[1]) if sig[0] == 'reject' else sig[1]
        acc.outcome(fmt + ' ' + mode)
        size = (len(small['v']), len(small['rows']), sum(len(r['feats']) for r in small['rows']))
        acc.violation(f'{fmt}|{mode}|{self._svm_feature(small)}', self._svm_eval(small)[2], dict(small, part='svm1'), order=(4,) + size + (case_hash(small),))
        return True

    def _run_svm1(self, w, acc):
        self._svm_one({k: w[k] for k in ('manik', 'v', 'rows')}, acc)

    def _run_svm(self, case, acc):
        base = 0 if case['manik'] else 1
        vals = ['1', '-2.5'] if case['vals'] == 2 else ['1', '2.5', '-3']
        fmaps = [[[base + i, x] for i, x in enumerate(t) if x is not None] for t in itertools.product([None] + vals, repeat=3)]
        nrows = case['nrows']
        k = nt = bad = 0
        seen = set()
        rest_rows = [[{'labels': l, 'feats': f} for l in SVM_LABELS for f in fmaps]] * max(nrows - 1, 0)
        first = [{'labels': case['label0'], 'feats': f} for f in fmaps] if nrows else [None]
        for r0 in first:
            for rest in itertools.product(*rest_rows):
                rows = ([] if r0 is None else [r0]) + list(rest)
                d = {'manik': case['manik'], 'v': case['v'], 'rows': rows}
                k += 1
                if rows: nt += 1
                res = self._svm_eval(d)
                if res is None:
                    acc.outcome(('manik' if case['manik'] else 'libsvm') + ' same table'); continue
                if res[0] == 'reject' and case['v']:
                    self._svm_one(d, acc, res); continue
                fp = (res[:2], tuple(len(r['feats']) for r in rows), tuple(len(r['labels']) for r in rows))
                if fp in seen: bad += 1; continue
                seen.add(fp)
                if self._svm_one(d, acc, res): bad += 1
        acc.evaluations += k - 1
        acc.count('svm_tables', k); acc.count('svm_tables_nontrivial', nt); acc.count('svm_tables_violating', bad)
        if nt: acc.mark_nontrivial()


CHECK = C12()
