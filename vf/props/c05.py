"""C05 - random streams are a pure, contract-respecting function of the seed (ORBIT + HIST engines).

Part (a) ORBIT.  CobaRandom is a 30-bit full-period LCG, so its reachable state space is one cycle of 2^30 states.
The REAL generator object is driven around the whole cycle in 16 segments (the harness only computes the segment
starts by jump-ahead; every value is consumed from the real object's stream, segment i must end where segment i+1
starts).  quick: one pass over the uniform stream with C-level reductions (min, max, count of 0.0, exact state sum)
plus every method contract on the exhaustive set of boundary states (the 2^16 states with the smallest and the 2^16
with the largest uniform, each placed at every draw position of every call by solving for the seed).
thorough: additionally one complete pass per (method, arguments, alignment) as far as the time budget allows.

Part (b) HIST.  Purity: every history up to the depth bound over calls on three instances (two with equal seed), the
module-level functions, stdlib random and the construction of a further instance is run on fresh real objects; the
projection onto each instance must equal what the same real class returns when that instance is driven alone.  Seeds:
an alphabet of int/float/str seeds is constructed twice under a virtual clock and once in each of three fresh
subprocesses with different PYTHONHASHSEED.
"""
import os, sys, json, time, math, itertools, subprocess
import random as stdlib_random
from itertools import repeat

from vf.core import Check, HarnessError, REPO, jsonable
from vf.engines.orbit import LCG, self_test, chain_closed, exact_state_sum
from vf.engines.hist import histories

import coba.random as cr
from coba.random import CobaRandom


# ------------------------------------------------------------------ owned nondeterminism: a virtual clock
class _Clock:
    """Stands in for the `time` module inside coba.random: every reading differs from the previous one by 1 s, so a
    generator that consults the clock for a non-None seed is caught deterministically (two constructions differ)."""
    def __init__(self): self.t = 1.7e9; self.calls = 0
    def reset(self): self.t = 1.7e9; self.calls = 0
    def time(self):
        self.calls += 1; self.t += 1.0
        return self.t


CLOCK = _Clock()
cr.time = CLOCK            # module-level name of coba.random (DESIGN section 2: reached from outside, no hook)

# ------------------------------------------------------------------ the documented generator (anchors: coba/random.py:34-41,207-217)
G = LCG(116646453, 9, 2 ** 30)
M = G.m
NSEG = 16
SEG_LEN = M // NSEG
BLOCK = 1 << 20
NB = 1 << 16                                # boundary states per side
NB_BLOCK = 1 << 11                          # boundary states per case
MAXK = 4                                    # most uniforms consumed by one call of the alphabet
_BACK = [None] + [G.jump(-p) for p in range(1, MAXK + 1)]      # pre-state p steps before a state
_JB = G.jump(BLOCK)

P20 = 2.0 ** 20
E20 = 2.0 ** -20

# ------------------------------------------------------------------ calls and their contracts (reference model: plain predicates)
# a spec is (method, args); args are JSON-able.  k = uniforms consumed by one call on a fresh object.

def spec_k(m, a):
    if m in ('random', 'randint', 'choice', 'choicew'): return 1
    if m == 'shuffle': return max(len(a[0]) - 1, 0)
    if m == 'gauss': return 2                         # the spec 'gauss' is TWO consecutive gauss() calls (one Box-Muller pair)
    if m == 'gausses': return 2 * ((a[0] + 1) // 2)
    if m in ('randoms', 'randints'): return a[0]
    raise ValueError(m)


def do_call(r, m, a):
    if m == 'random': return r.random(a[0], a[1])
    if m == 'randint': return r.randint(a[0], a[1])
    if m == 'choice': return r.choice(list(a[0])) if len(a) == 1 else r.choice(list(a[0]), list(a[1]))
    if m == 'choicew': return r.choicew(list(a[0])) if len(a) == 1 else r.choicew(list(a[0]), list(a[1]))
    if m == 'shuffle': return r.shuffle(list(a[0]))
    if m == 'gauss': return [r.gauss(), r.gauss()]
    if m == 'gausses': return r.gausses(a[0])
    if m == 'randoms': return r.randoms(a[0], a[1], a[2])
    if m == 'randints': return r.randints(a[0], a[1], a[2])
    raise ValueError(m)


def _uniform_mode(v, mn, mx):
    if isinstance(v, bool) or not isinstance(v, (int, float)): return 'value is not a number'
    if v != v: return 'value is nan'
    if v < mn: return 'value below min'
    if v == mx: return 'value equals max'
    if v > mx: return 'value above max'
    return None


def _int_mode(v, lo, hi):
    if isinstance(v, bool) or not isinstance(v, int): return 'value is not an integer'
    if v < lo: return 'value below a'
    if v > hi: return 'value above b'
    return None


def _member_mode(v, seq, w):
    idx = [i for i, x in enumerate(seq) if type(x) is type(v) and x == v]
    if not idx: return 'not a member of the sequence', None
    if w is not None and all(w[i] == 0 for i in idx): return 'zero-weight member returned', idx[0]
    return None, idx[0]


def drawn_position(seed, n, w):
    """Which POSITION the generator state after pre-state `seed` selects under weights w: asked of the real class
    itself by drawing over range(n) (positions are distinct members, so the answer is unambiguous)."""
    try:
        i = CobaRandom(seed).choice(list(range(n)), list(w))
    except Exception:   # noqa
        return None
    return i if isinstance(i, int) and not isinstance(i, bool) and 0 <= i < n else None


def judge(m, a, v, seed=None):
    """None when the returned value honours the documented contract, else the failure mode (a short stable string).
    With `seed` (the pre-state the call started from) the drawn position of choicew is identified where the returned
    item alone does not identify it (equal members with different weights)."""
    if m == 'random': return _uniform_mode(v, a[0], a[1])
    if m == 'randint': return _int_mode(v, a[0], a[1])
    if m == 'choice':
        return _member_mode(v, a[0], a[1] if len(a) > 1 else None)[0]
    if m == 'choicew':
        if not isinstance(v, (tuple, list)) or len(v) != 2: return 'not an (item, weight) pair'
        seq, w = a[0], (a[1] if len(a) > 1 else None)
        mode, i = _member_mode(v[0], seq, w)
        if mode: return mode
        # the positions the returned item can stand for: same type and value, selectable (non-zero weight)
        cands = [j for j, x in enumerate(seq) if type(x) is type(v[0]) and x == v[0] and (w is None or w[j] != 0)]
        want = [(w[j] if w is not None else 1 / len(seq)) for j in cands]
        if v[1] not in want: return "weight is not the returned member's weight"
        if w is not None and seed is not None and len(set(want)) > 1:
            i = drawn_position(seed, len(seq), w)
            if i in cands and v[1] != w[i]: return "weight is not the drawn position's weight"
        return None
    if m == 'shuffle':
        try:
            if len(v) != len(a[0]) or sorted(v) != sorted(a[0]): return 'not a permutation of its input'
        except TypeError:
            return 'not a permutation of its input'
        return None
    if m in ('gauss', 'gausses'):
        n = 2 if m == 'gauss' else a[0]
        if not isinstance(v, (list, tuple)) or len(v) != n: return 'wrong number of values'
        for x in v:
            if not isinstance(x, float) or not math.isfinite(x): return 'not a finite float'
        return None
    if m == 'randoms':
        if not isinstance(v, (list, tuple)) or len(v) != a[0]: return 'wrong number of values'
        for x in v:
            mode = _uniform_mode(x, a[1], a[2])
            if mode: return mode
        return None
    if m == 'randints':
        if not isinstance(v, (list, tuple)) or len(v) != a[0]: return 'wrong number of values'
        for x in v:
            mode = _int_mode(x, a[1], a[2])
            if mode: return mode
        return None
    raise ValueError(m)


def no_valid_answer(m, a):
    """Arguments for which the contract cannot be met by any value (an exception is then the accepted outcome)."""
    if m in ('choice', 'choicew'):
        if len(a[0]) == 0: return True
        if len(a) > 1 and (len(a[1]) != len(a[0]) or all(x == 0 for x in a[1])): return True
    return False


def arg_class(m, a):
    if m in ('random', 'randoms'):
        mn, mx = (a[0], a[1]) if m == 'random' else (a[1], a[2])
        ratio = (mx - mn) / max(abs(mn), abs(mx), 2.0 ** -1000)
        # below 2^-24 the exact result for the largest uniform lies within half an ulp of max (no formula can keep it
        # below max without an explicit clamp); between 2^-24 and 2^-22 it depends on the formula's rounding steps
        if ratio < 2.0 ** -24: return 'interval narrower than 2^-24 of its magnitude'
        if ratio < 2.0 ** -22: return 'interval between 2^-24 and 2^-22 of its magnitude'
        return 'ordinary interval'
    if m in ('randint', 'randints'):
        lo, hi = (a[0], a[1]) if m == 'randint' else (a[1], a[2])
        return 'a=b' if lo == hi else 'a<b'
    if m in ('choice', 'choicew'):
        if len(a) == 1: return 'no weights'
        w = a[1]
        dup = any(a[0][i] == a[0][j] and w[i] != w[j] for i in range(len(w)) for j in range(i)) if len(w) == len(a[0]) else False
        tail = '; equal members with different weights' if dup else ''
        if w and w[0] == 0: return 'first weight zero' + tail
        if any(x == 0 for x in w): return 'zero weight not first' + tail
        return 'no zero weight' + tail
    if m == 'shuffle': return 'n<2' if len(a[0]) < 2 else 'n>=2'
    return 'default arguments'


def consumed_feature(seed, k):
    """The one state-dependent feature that goes into a key: whether the call drew the singular uniform 0.0 (state 0)."""
    if k == 0: return 'no draw'
    s = seed & (M - 1)
    for _p in range(k):
        s = G.step(s)
        if s == 0: return 'a drawn uniform is exactly 0.0'
    return 'drawn uniforms nonzero'


def report_call(acc, m, a, seed, order=None):
    """Run ONE call on a fresh real generator started in pre-state `seed`, judge it, report.  -> True if it violates.
    This is also the replay of every contract witness, so key and verdict depend on (m, a, seed) only."""
    CLOCK.reset()
    k = spec_k(m, a)
    try:
        v = do_call(CobaRandom(seed), m, a)
    except Exception as e:   # noqa
        if no_valid_answer(m, a): return False
        mode = f'raises {type(e).__name__}'
        what = f'CobaRandom({seed}).{m}{tuple(a) if m != "gauss" else "() twice"} raised {e!r}'
    else:
        mode = judge(m, a, v, seed)
        if mode is None: return False
        what = f'CobaRandom({seed}).{m}{tuple(a) if m != "gauss" else "() twice"} returned {v!r}'
    key = f'{m}|{mode}|{arg_class(m, a)}; {consumed_feature(seed, k)}'
    acc.violation(key, what, {'part': 'call', 'm': m, 'a': a, 'seed': seed}, order)
    return True


# ------------------------------------------------------------------ the argument alphabet (DESIGN section 4, C05)
RANDOM_ARGS = [[0, 1], [-1, 1], [0, P20], [-P20, P20], [5, 5 + E20], [P20 - E20, P20]]
RANDINT_ARGS = [[0, 0], [0, 1], [-3, 3], [0, 2 ** 20]]
NEG_INT_ARGS = [[-3, -1], [-10, -5], [-1, 0], [-1, 1], [-1000, -1]]      # entirely below zero / touching / straddling zero
SEQS = [['a'], ['a', 'b'], ['a', 'b', 'c'], ['a', 'b', 'c', 'd', 'e', 'f', 'g']]
WEIGHTS = [[1], [0, 1], [1, 0], [0, 0, 1], [.2, 0, .8], [1e-9, 1]]
SHUFFLES = [[], [1], [1, 2], [1, 2, 3], [1, 2, 3, 4, 5]]
# members that compare equal but carry different weights: position, not value, decides the weight
DUPLICATES = [[['x', 'y', 'x'], [0, .5, .5]], [['x', 'y', 'x'], [.2, .3, .5]], [[1, 1.0, True], [.2, .3, .5]], [['x', 'x'], [0, 1]], [['y', 'x', 'x'], [.5, 0, .5]]]


def seq_for(w): return ['x', 'y', 'z'][:len(w)]


def boundary_specs():
    """Everything that is run on every boundary state (quick and thorough)."""
    out = [('random', a) for a in RANDOM_ARGS]
    out += [('random', [-P20, -P20 + E20]), ('random', [1000, 1000.5]), ('random', [-0.5, 0.25]), ('random', [10.1, 10.1 + E20])]
    out += [('randint', a) for a in RANDINT_ARGS] + [('randint', [-2 ** 20, 2 ** 20])]
    out += [('randint', a) for a in NEG_INT_ARGS]
    # every batch method gets the interval alphabet of its scalar sibling (one-element batches; longer ones below)
    out += [('randints', [1] + a) for a in RANDINT_ARGS + [[-2 ** 20, 2 ** 20]] + NEG_INT_ARGS]
    out += [('randints', [3, -3, -1])]
    out += [('randoms', [1] + a) for a in RANDOM_ARGS[2:5] + [[-P20, -P20 + E20], [1000, 1000.5], [-0.5, 0.25]]]
    out += [('choice', [s]) for s in SEQS]
    out += [('choice', [seq_for(w), w]) for w in WEIGHTS] + [('choice', [['x', 'y', 'z'], [0, 1, 0]]), ('choice', [['x', 'y'], [.5, .5]])]
    out += [('choicew', [seq_for(w), w]) for w in WEIGHTS] + [('choicew', [['x', 'y', 'z'], [0, 1, 0]])]
    out += [('choicew', [s]) for s in SEQS[:3]]
    out += [(m, [list(q), list(w)]) for q, w in DUPLICATES for m in ('choice', 'choicew')]
    out += [('shuffle', [s]) for s in SHUFFLES]
    out += [('gauss', [])]
    out += [('gausses', [3]), ('randoms', [3, -1, 1]), ('randoms', [2, 0, 1]), ('randoms', [2, P20 - E20, P20]), ('randoms', [2, 10.1, 10.1 + E20]), ('randoms', [0, 0, 1]),
            ('randints', [3, -3, 3]), ('randints', [2, 0, 2 ** 20]), ('randints', [0, 0, 1]), ('gausses', [0])]
    # no value can honour the contract: an exception is the accepted outcome
    out += [('choice', [[]]), ('choice', [['x', 'y'], [0, 0]]), ('choicew', [['x', 'y'], [0, 0]])]
    return out


def orbit_passes():
    """thorough: (method, args, alignment) passes over the complete orbit, cheapest first.  For the orbit driver the
    specs 'gauss'/'gausses'/'randoms'/'randints' stand for a stream of n values from n uniforms."""
    out = [('randoms', [None, -1, 1], 0), ('randints', [None, -3, 3], 0), ('randints', [None, -3, -1], 0), ('randints', [None, -1000, -1], 0),
           ('gausses', [None], 0), ('gausses', [None], 1), ('randint', [-3, -1], 0)]
    out += [('randint', a, 0) for a in RANDINT_ARGS]
    out += [('random', a, 0) for a in RANDOM_ARGS]
    out += [('choice', [s], 0) for s in SEQS]
    out += [('gauss', [], 0), ('gauss', [], 1)]
    out += [('shuffle', [[1, 2]], 0)]
    out += [('shuffle', [[1, 2, 3]], j) for j in range(2)]
    out += [('choice', [seq_for(w), w], 0) for w in WEIGHTS]
    out += [('shuffle', [[1, 2, 3, 4, 5]], j) for j in range(4)]
    out += [('choicew', [seq_for(w), w], 0) for w in WEIGHTS]
    out += [('randoms', [None, P20 - E20, P20], 0)]
    return out


def n_alignments(m, a):
    if m in ('gauss', 'gausses'): return 2
    if m == 'shuffle': return max(len(a[0]) - 1, 1)
    return 1


def pass_name(m, a, j):
    args = ','.join('n' if x is None else json.dumps(x) for x in a)
    return f'{m}({args})' + (f' alignment {j}' if n_alignments(m, a) > 1 else '')


def spec_k_stream(m, a):
    """uniforms consumed per element of the orbit driver's result list"""
    if m == 'shuffle': return max(len(a[0]) - 1, 1)
    return 1


def bulk(r, m, a, n):
    """Consume n uniforms from the real object r through method m (C-level driving loop) -> list of results."""
    if m == 'random': return list(map(r.random, repeat(a[0], n), repeat(a[1], n)))
    if m == 'randint': return list(map(r.randint, repeat(a[0], n), repeat(a[1], n)))
    if m == 'choice':
        return list(map(r.choice, repeat(a[0], n))) if len(a) == 1 else list(map(r.choice, repeat(a[0], n), repeat(a[1], n)))
    if m == 'choicew':
        return list(map(r.choicew, repeat(a[0], n))) if len(a) == 1 else list(map(r.choicew, repeat(a[0], n), repeat(a[1], n)))
    if m == 'shuffle': return list(map(r.shuffle, repeat(a[0], n // (len(a[0]) - 1))))
    if m == 'gauss': return list(map(r.gauss, repeat(0, n)))
    if m == 'gausses': return r.gausses(n)
    if m == 'randoms': return r.randoms(n, a[1], a[2])
    if m == 'randints': return r.randints(n, a[1], a[2])
    raise ValueError(m)


def block_suspect(m, a, blk, n):
    """C-level screening of one block of results: True when some element may violate its contract (then the block is
    scanned element by element with `judge`).  Never returns False for a block that contains a violation."""
    if m in ('random', 'randoms'):
        mn, mx = (a[0], a[1]) if m == 'random' else (a[1], a[2])
        if len(blk) != n: return True
        if set(map(type, blk)) - {float, int}: return True
        lo, hi = min(blk), max(blk)
        return not (lo >= mn and hi < mx) or math.isnan(sum(blk))
    if m in ('randint', 'randints'):
        lo_, hi_ = (a[0], a[1]) if m == 'randint' else (a[1], a[2])
        if len(blk) != n: return True
        if set(map(type, blk)) != {int}: return True
        return not (min(blk) >= lo_ and max(blk) <= hi_)
    if m == 'choice':
        w = a[1] if len(a) > 1 else None
        allowed = {x for i, x in enumerate(a[0]) if w is None or w[i] != 0}
        return len(blk) != n or not set(blk) <= allowed
    if m == 'choicew':
        w = a[1] if len(a) > 1 else None
        allowed = {(x, (w[i] if w is not None else 1 / len(a[0]))) for i, x in enumerate(a[0]) if w is None or w[i] != 0}
        try:
            return len(blk) != n or not set(blk) <= allowed
        except TypeError:
            return True
    if m == 'shuffle':
        k = len(a[0]) - 1
        perms = set(itertools.permutations(a[0]))
        try:
            return len(blk) != n // k or not set(map(tuple, blk)) <= perms
        except TypeError:
            return True
    if m in ('gauss', 'gausses'):
        if len(blk) != n or set(map(type, blk)) != {float}: return True
        return not math.isfinite(sum(map(abs, blk)))
    raise ValueError(m)


def element_spec(m, a, i):
    """The single-call spec and the uniform offset (inside the block) that reproduce element i of a driven block."""
    if m in ('random', 'randint', 'choice', 'choicew'): return m, a, i
    if m == 'shuffle': return m, a, i * (len(a[0]) - 1)
    if m == 'gauss': return 'gauss', [], (i // 2) * 2
    if m == 'gausses': return 'gausses', [2], (i // 2) * 2
    if m == 'randoms': return 'randoms', [1, a[1], a[2]], i
    if m == 'randints': return 'randints', [1, a[1], a[2]], i
    raise ValueError(m)


def element_bad(m, a, v):
    if m == 'gauss' or m == 'gausses': return not isinstance(v, float) or not math.isfinite(v)
    if m == 'randoms': return _uniform_mode(v, a[1], a[2]) is not None
    if m == 'randints': return _int_mode(v, a[1], a[2]) is not None
    return judge(m, a, v) is not None



# ------------------------------------------------------------------ container types of the sequence arguments
# shuffle documents `items: Iterable`; choice/choicew document `seq: Sequence`, `weights: Sequence`.
from collections import deque as _deque

SHUFFLE_CTYPES = ['list', 'tuple', 'range', 'str', 'iter', 'gen', 'map', 'dict_keys', 'dict_values', 'set', 'deque']
CHOICE_CTYPES = ['list', 'tuple', 'range', 'str']
WEIGHT_CTYPES = ['none', 'list', 'tuple']
ONE_SHOT = ('iter', 'gen', 'map')
N_CONTAINER_STATES = 256                    # per kind: lowest states, highest states, plain seeds 0..255


def container_items(ctype, n):
    if ctype == 'range': return list(range(n))
    return ['a', 'b', 'c', 'd'][:n]


def build_container(ctype, n):
    """A FRESH container of the given type holding container_items(ctype, n) in that order."""
    it = container_items(ctype, n)
    if ctype == 'list': return list(it)
    if ctype == 'tuple': return tuple(it)
    if ctype == 'range': return range(n)
    if ctype == 'str': return ''.join(it)
    if ctype == 'iter': return iter(list(it))
    if ctype == 'gen': return (x for x in list(it))
    if ctype == 'map': return map(str, list(it))
    if ctype == 'dict_keys': return dict.fromkeys(it).keys()
    if ctype == 'dict_values': return dict(enumerate(it)).values()
    if ctype == 'set': return set(it)
    if ctype == 'deque': return _deque(it)
    raise ValueError(ctype)


def container_class(ctype):
    if ctype in ONE_SHOT: return 'one-shot iterable input (iterator/generator/map)'
    if ctype in ('dict_keys', 'dict_values', 'set'): return 'dict view / set input'
    if ctype == 'list': return 'list input'
    return 'tuple/range/str/deque input'


def container_call(acc, m, ctype, n, inplace, wtype, seed, report=True):
    """ONE call of a sequence-taking method with a fresh container of type `ctype` and length n on a fresh real
    generator in pre-state `seed`.  -> (violates, value signature).  Also the replay of every container witness."""
    items = container_items(ctype, n)
    arg = build_container(ctype, n)
    lenc = 'n<2' if n < 2 else 'n>=2'
    witness = {'part': 'container', 'm': m, 'ctype': ctype, 'n': n, 'inplace': inplace, 'wtype': wtype, 'seed': seed}

    def bad(mode, feature, what):
        if report: acc.violation(f'{m}|{mode}|{feature}', what, witness)
        return True, None

    r = CobaRandom(seed)
    if m == 'shuffle':
        feature = f'{container_class(ctype)}; {lenc}; inplace={inplace}'
        call = f'CobaRandom({seed}).shuffle(<{ctype} of {items!r}>, inplace={inplace})'
        try:
            res = r.shuffle(arg, inplace) if inplace else r.shuffle(arg)
        except Exception as e:   # noqa
            return bad(f'raises {type(e).__name__}', feature, f'{call} raised {e!r}')
        try:
            got = list(res)
        except Exception as e:   # noqa
            return bad('result cannot be read', feature, f'{call} returned {res!r}')
        if len(got) != n or sorted(got, key=repr) != sorted(items, key=repr):
            return bad('not a permutation of its input', feature, f'{call} returned {res!r} holding {got!r}')
        if not hasattr(res, '__len__') or list(res) != got:
            return bad('result is not a sequence (one-shot / no len)', feature, f'{call} returned {res!r}')
        if inplace:
            if list(arg) != got:
                return bad('inplace: the given container does not hold the returned order', feature, f'{call}: container {list(arg)!r}, returned {got!r}')
        elif ctype in ('list', 'deque'):
            if list(arg) != items:
                return bad('argument mutated although inplace=False', feature, f'{call}: the argument now holds {list(arg)!r}')
            if res is arg:
                return bad('returns its mutable argument although inplace=False', feature, f'{call} returned the argument object itself')
        return False, tuple(got)
    # choice / choicew
    weights = None if wtype == 'none' else [.2, .3, .5, .1][:n]
    warg = None if weights is None else (list(weights) if wtype == 'list' else tuple(weights))
    feature = f'{container_class(ctype)}; weights {wtype}'
    call = f'CobaRandom({seed}).{m}(<{ctype} of {items!r}>' + ('' if warg is None else f', {warg!r}') + ')'
    try:
        v = getattr(r, m)(arg) if warg is None else getattr(r, m)(arg, warg)
    except Exception as e:   # noqa
        return bad(f'raises {type(e).__name__}', feature, f'{call} raised {e!r}')
    mode = judge(m, [items] if weights is None else [items, weights], v, seed)
    if mode: return bad(mode, feature, f'{call} returned {v!r}')
    if ctype == 'list' and arg != items:
        return bad('sequence argument mutated', feature, f'{call}: the argument now holds {arg!r}')
    if wtype == 'list' and warg != weights:
        return bad('weights argument mutated', feature, f'{call}: the weights now hold {warg!r}')
    return False, v if not isinstance(v, list) else tuple(v)


def container_seeds():
    """Pre-states for the container cases: the boundary state as first draw (lowest / highest) and plain small seeds."""
    A_, C_ = _BACK[1]
    mask = M - 1
    out = [(A_ * s + C_) & mask for s in range(N_CONTAINER_STATES)]
    out += [(A_ * s + C_) & mask for s in range(M - 1, M - 1 - N_CONTAINER_STATES, -1)]
    out += list(range(N_CONTAINER_STATES))
    return out


# ------------------------------------------------------------------ re-used, caller-owned argument objects on one generator
# The caller keeps ONE sequence list and ONE weights list, hands the same objects to successive calls and changes them
# in place in between.  Reference: a fresh generator of the same seed driven by the same calls with FRESH copies of the
# current values - the results must be equal (a generator may not remember an argument object) and honour the contracts.
REUSE_S0 = ['a', 'b', 'c', 'd']
REUSE_W0 = [1, 0, 0, 0]
REUSE_W = [[0, 1, 0, 0], [.25, .25, .25, .25], [0, 0, .5, .5]]
REUSE_S = [['d', 'c', 'b', 'a'], ['a', 'a', 'b', 'b']]
REUSE_OPS = ['cw', 'c', 'c0', 'cw0', 'sh', 'w0', 'w1', 'w2', 's0', 's1', 'r']
REUSE_SEEDS = (1, 7)


def run_reuse(seed, ops, fresh):
    """-> [(result | ('exc', name), sequence values at the call, weights values at the call)]"""
    r = CobaRandom(seed)
    seq, w = list(REUSE_S0), list(REUSE_W0)
    out = []
    for op in ops:
        a_seq = list(seq) if fresh else seq
        a_w = list(w) if fresh else w
        try:
            if op == 'cw': res = r.choicew(a_seq, a_w)
            elif op == 'c': res = r.choice(a_seq, a_w)
            elif op == 'c0': res = r.choice(a_seq)
            elif op == 'cw0': res = r.choicew(a_seq)
            elif op == 'sh': res = r.shuffle(a_seq)
            elif op == 'r': res = r.random()
            elif op[0] == 'w': w[:] = REUSE_W[int(op[1])]; continue
            else: seq[:] = REUSE_S[int(op[1])]; continue
        except Exception as e:   # noqa
            res = ('exc', type(e).__name__)
        out.append((op, res, list(seq), list(w)))
    return out


_REUSE_SPEC = {'cw': ('choicew', True), 'c': ('choice', True), 'c0': ('choice', False), 'cw0': ('choicew', False), 'sh': ('shuffle', False)}


def classify_reuse(seed, ops):
    """[(key, what)] for one history of calls with re-used argument objects."""
    ops = list(ops)
    got = run_reuse(seed, ops, fresh=False)
    ref = run_reuse(seed, ops, fresh=True)
    changed = {o[0] for o in ops if o[0] in 'ws' and o not in ('sh',)}
    what_changed = {frozenset(): 'without any in-place change', frozenset('w'): 'after an in-place change of the weights list',
                    frozenset('s'): 'after an in-place change of the sequence list'}.get(frozenset(changed), 'after in-place changes of sequence and weights lists')
    out = []
    for (op, res, sv, wv), (_o, rres, _s, _w) in zip(got, ref):
        if op == 'r': 
            if res != rres: out.append((f'reuse|random() differs from the run with fresh argument objects|{what_changed}', f'CobaRandom({seed}) ops {ops}: {res!r} vs {rres!r}')); break
            continue
        m, weighted = _REUSE_SPEC[op]
        if isinstance(res, tuple) and res and res[0] == 'exc':
            out.append((f'{m}|raises {res[1]}|re-used argument objects; {what_changed}', f'CobaRandom({seed}) ops {ops}: {op} raised {res[1]}')); break
        mode = judge(m, [sv, wv] if weighted else [sv], res)
        if mode:
            out.append((f'{m}|{mode}|re-used argument objects; {what_changed}', f'CobaRandom({seed}) ops {ops}: {op} on {sv!r}' + (f' with weights {wv!r}' if weighted else '') + f' returned {res!r}')); break
        if res != rres:
            out.append((f'reuse|{m} returns other values than with fresh argument objects of equal values|{what_changed}',
                        f'CobaRandom({seed}) ops {ops}: {op} returned {res!r}, with fresh list objects {rres!r}')); break
    return out


# ------------------------------------------------------------------ HIST: purity under interleaving
INST = (('A', 1), ('B', 1), ('C', 2.5))
INST_SEED = dict(INST)
CALLS = {           # one letter per public method and per code path inside it
    'random':    lambda r: r.random(),
    'random2':   lambda r: r.random(-1, 1),
    'randoms':   lambda r: r.randoms(2),
    'randoms2':  lambda r: r.randoms(2, 1, 3),
    'randint':   lambda r: r.randint(0, 5),
    'randints':  lambda r: r.randints(2, 0, 5),
    'randints2': lambda r: r.randints(2, -3, -1),
    'shuffle':   lambda r: r.shuffle([1, 2, 3]),
    'shufflei':  lambda r: r.shuffle([1, 2, 3], inplace=True),
    'choice':    lambda r: r.choice([1, 2, 3]),
    'choice2':   lambda r: r.choice([1, 2, 3], [.2, .3, .5]),
    'choicew':   lambda r: r.choicew([1, 2, 3]),
    'choicew2':  lambda r: r.choicew(['x', 'y', 'x'], [0, .5, .5]),       # equal members, different weights
    'gauss':     lambda r: r.gauss(),
    'gausses':   lambda r: r.gausses(3),
}
# the same calls as (method, args) specs, so that the contract predicates can be applied to what a history returns
HIST_SPECS = {
    'random': ('random', [0, 1]), 'random2': ('random', [-1, 1]), 'randoms': ('randoms', [2, 0, 1]), 'randoms2': ('randoms', [2, 1, 3]),
    'randint': ('randint', [0, 5]), 'randints': ('randints', [2, 0, 5]), 'randints2': ('randints', [2, -3, -1]),
    'shuffle': ('shuffle', [[1, 2, 3]]), 'shufflei': ('shuffle', [[1, 2, 3]]), 'choice': ('choice', [[1, 2, 3]]),
    'choice2': ('choice', [[1, 2, 3], [.2, .3, .5]]), 'choicew': ('choicew', [[1, 2, 3]]), 'choicew2': ('choicew', [['x', 'y', 'x'], [0, .5, .5]]),
    'gauss': ('gausses', [1]), 'gausses': ('gausses', [3]),
}
C_CALLS = ('random', 'shuffle', 'gauss')          # the third instance (different seed) only needs to disturb / be disturbed
MODULE_SEED = 1
LETTERS = ([f'{n}.{c}' for n in ('A', 'B') for c in CALLS] + [f'C.{c}' for c in C_CALLS]
           + ['M.seed', 'M.random', 'M.shuffle', 'S.random', 'S.seed', 'N.new'])
REDUCED = [f'{n}.{c}' for n in ('A', 'B') for c in ('random', 'shuffle', 'gauss')] + ['M.seed', 'M.random', 'M.gauss', 'S.random', 'N.new']
MID_CALLS = ('random', 'randoms2', 'randint', 'randints2', 'shuffle', 'choice2', 'choicew', 'gauss')      # one letter per public scalar/bulk method
MID = [f'{n}.{c}' for n in ('A', 'B') for c in MID_CALLS] + ['C.random', 'M.seed', 'M.random', 'M.gauss', 'S.random', 'N.new']
ALPHABETS = {'full': LETTERS, 'mid': MID, 'reduced': REDUCED}      # reduced < mid < full, so deeper levels only add the new lengths
_MODFN = {'random': lambda: cr.random(), 'shuffle': lambda: cr.shuffle([1, 2, 3]), 'gauss': lambda: cr.gauss()}
_STD0 = stdlib_random.Random(20240905).getstate()

ACTOR_KIND = {'M': 'the module-level functions', 'S': 'stdlib random', 'N': 'construction of a further instance'}


def split(op):
    actor, call = op.split('.')
    return actor, call


def run_history(ops):
    """Fresh real objects, the operations in order -> list of results."""
    stdlib_random.setstate(_STD0)
    CLOCK.reset()
    cr.seed(99)                                     # module-level generator in a known state (public API)
    objs = {n: CobaRandom(s) for n, s in INST}
    out = []
    for op in ops:
        actor, call = split(op)
        if actor in objs: out.append(CALLS[call](objs[actor]))
        elif actor == 'M': out.append(cr.seed(MODULE_SEED) if call == 'seed' else _MODFN[call]())
        elif actor == 'S': out.append(stdlib_random.random() if call == 'random' else stdlib_random.seed(3))
        else: out.append(CobaRandom(1).random())
    return out


_SOLO = {}
_SOLO_BAD = set()         # (seed, calls) whose solo run returns a contract-violating value


def solo(seed, calls):
    """Reference: the same real class, one fresh instance, driven alone."""
    k = (seed, calls)
    v = _SOLO.get(k)
    if v is None:
        stdlib_random.setstate(_STD0); CLOCK.reset(); cr.seed(99)      # same surroundings as at the start of a history
        r = CobaRandom(seed)
        v = _SOLO[k] = [CALLS[c](r) for c in calls]
        for c, res in zip(calls, v):                                    # contract predicates, once per distinct call sequence
            m, a = HIST_SPECS[c]
            if judge(m, a, [res] if c == 'gauss' else res): _SOLO_BAD.add(k); break
    return v


def projections(ops, out):
    """[(actor, seed, calls, results)] for every generator whose stream the property speaks about."""
    per = {}
    proj = []
    mod = None
    for op, res in zip(ops, out):
        actor, call = split(op)
        if actor in INST_SEED:
            p = per.get(actor)
            if p is None: p = per[actor] = ([], [])
            p[0].append(call); p[1].append(res)
        elif actor == 'M':
            if call == 'seed':
                if mod and mod[0]: proj.append(('M', MODULE_SEED, tuple(mod[0]), mod[1]))
                mod = ([], [])
            elif mod is not None:               # before the first seed() the module generator is time-seeded: excluded
                mod[0].append(call); mod[1].append(res)
        elif actor == 'N':
            proj.append(('N', 1, ('random',), [res]))
    if mod and mod[0]: proj.append(('M', MODULE_SEED, tuple(mod[0]), mod[1]))
    for actor, (calls, res) in per.items(): proj.append((actor, INST_SEED[actor], tuple(calls), res))
    return proj


def history_contract(ops, out):
    """[(key, what)]: contract predicates on what the instance calls of a history returned (no state knowledge here:
    for choicew the weight must be that of a selectable member equal to the item)."""
    bad = []
    for op, res in zip(ops, out):
        actor, call = split(op)
        if actor not in INST_SEED: continue
        m, a = HIST_SPECS[call]
        mode = judge(m, a, [res] if call == 'gauss' else res)
        if mode: bad.append((f'{m}|{mode}|{arg_class(m, a)}; in a call history', f'history {list(ops)}: {op} returned {res!r}'))
    return bad


def history_mismatches(ops):
    try:
        out = run_history(ops)
    except Exception as e:   # noqa
        return [('*', f'raises {type(e).__name__}', repr(e))]
    bad = []
    for actor, seed, calls, res in projections(ops, out):
        try:
            exp = solo(seed, calls)
        except Exception as e:   # noqa   (a call that fails even alone is a contract matter, reported by part (a))
            continue
        if exp != res: bad.append((actor, 'differs', f'calls {list(calls)} returned {res!r}, alone they return {exp!r}'))
    return bad


def actor_kind(victim, other):
    if other in ACTOR_KIND: return ACTOR_KIND[other]
    if victim in INST_SEED and INST_SEED.get(other) == INST_SEED[victim]: return 'another instance with the same seed'
    if victim == 'M' and INST_SEED.get(other) == MODULE_SEED: return 'an instance with the same seed'
    if victim == 'N' and INST_SEED.get(other) == 1: return 'another instance with the same seed'
    return 'another instance with a different seed'


def victim_kind(v):
    return {'M': 'module-level stream after seed()', 'N': 'freshly constructed instance'}.get(v, 'instance')


def classify_history(ops):
    """-> list of (key, what) for one violating history (empty if it does not violate)."""
    out = []
    try:
        out += history_contract(ops, run_history(ops))
    except Exception:   # noqa   (reported below as a history that raises)
        pass
    for victim, mode, detail in history_mismatches(ops):
        if victim == '*':
            out.append((f'purity|history {mode}|calls on several generators', detail)); continue
        others = []
        for op in ops:
            a = split(op)[0]
            if a != victim and a not in others: others.append(a)
        culprit = None
        alone = [op for op in ops if split(op)[0] == victim]
        if any(v == victim for v, _, _ in history_mismatches(alone)):
            culprit = 'nothing else being called (other generators merely exist)'
        else:
            for o in others:
                reduced = [op for op in ops if split(op)[0] != o]
                if not any(v == victim for v, _, _ in history_mismatches(reduced)):
                    culprit = 'calls on ' + actor_kind(victim, o); break
            if culprit is None: culprit = 'calls on several other generators together'
        out.append((f'purity|{victim_kind(victim)} returns other values than when driven alone|disturbed by {culprit}',
                    f'history {list(ops)}: {victim} {detail}'))
    return out


# ------------------------------------------------------------------ seeds
SEEDS = ['0', '1', '-1', '2**30', '2**40+3', '1.0', '2.5', '-2.5', '0.0', '1e300', 'nan', 'inf', "'a'", "'coba seed'", "''", 'True', 'False']
STREAM_SRC = '''
def stream(r):
    return [r.random(), r.randint(0, 9), r.shuffle([1, 2, 3, 4]), r.gauss(), r.choice([1, 2, 3]), r.randoms(3),
            list(r.choicew(['a', 'b'], [.5, .5])), r.gausses(3), r.randints(2, -2, 2), r.random(-1, 1)]
def make(desc):
    return eval(desc, {'nan': float('nan'), 'inf': float('inf')})
'''
_ns = {}
exec(STREAM_SRC, _ns)
stream, make_seed = _ns['stream'], _ns['make']

SUBPROC_SRC = STREAM_SRC + '''
import sys, json, os
import coba
from coba.random import CobaRandom
out = {'__file__': os.path.realpath(os.path.dirname(os.path.dirname(coba.__file__))), '__hashseed__': os.environ.get('PYTHONHASHSEED')}
for d in json.loads(sys.argv[1]):
    try:
        out[d] = stream(CobaRandom(make(d)))
    except Exception as e:
        out[d] = {'exc': type(e).__name__}
print('C05-RESULT ' + json.dumps(out))
'''


def seed_class(desc):
    v = make_seed(desc)
    if isinstance(v, bool): return 'bool seed'
    if isinstance(v, int): return 'int seed'
    if isinstance(v, float):
        if v != v: return 'float nan seed'
        if math.isinf(v): return 'float inf seed'
        return 'integral float seed' if v.is_integer() else 'non-integral float seed'
    return 'empty str seed' if v == '' else 'str seed'


def local_stream(desc):
    """json-normalised stream of a fresh CobaRandom(seed) in this process, or {'exc':..}"""
    stdlib_random.setstate(_STD0)
    cr.seed(99)
    try:
        return json.loads(json.dumps(stream(CobaRandom(make_seed(desc)))))
    except Exception as e:   # noqa
        return {'exc': type(e).__name__}


# ------------------------------------------------------------------ the check
class C05(Check):
    ID = 'C05'
    LEVEL = 'model_checking'
    ENGINE = 'ORBIT+HIST'
    RULE = ('(a) ORBIT: the 2^30-state cycle of the real CobaRandom generator is walked in 16 segments of 2^26 states, each a case '
            '(start by LCG jump-ahead, every value consumed from the real object, blockwise and segmentwise closure check; states = '
            'transitions = 2^30 when all segments complete; HIST figures are in counters.hist_*); boundary cases = 2 sides x 32 blocks '
            'of 2^11 states: every one of the 2^16 smallest and 2^16 largest states is placed at every draw position of every (method, '
            'arguments) of the alphabet (random x 10 bound pairs, randint x 10 and randints/randoms over the same intervals as their scalar siblings (incl. intervals entirely below zero), choice/choicew x sequences len 0..7 x weights incl. zeros, '
            'incl. equal members with different weights, shuffle n in {0,1,2,3,5}, gauss pair, randoms/randints/gausses) on a fresh real object; thorough adds one full-orbit pass '
            'per (method, arguments, alignment), cheapest first, until the time budget is used (completed passes listed in evidence). '
            'container cases: shuffle x 11 input container types (list, tuple, range, str, iterator, generator, map, dict views, set, deque) x lengths 0..3 x inplace (lists), choice/choicew x 4 sequence types x lengths 1..3 x weights {none, list, tuple}, each on 768 states (256 lowest, 256 highest as first draw, seeds 0..255); '
            're-use cases: every history of length <=4 (thorough <=5) over 11 operations on ONE generator (seeds 1, 7) whose sequence and weights arguments are the same two caller-owned list objects, changed in place between calls (choice/choicew weighted and unweighted, shuffle, random, 3 weight vectors, 2 sequences), compared with a fresh generator given fresh copies of the current values; '
            '(b) HIST: every history of length <=4 over 39 letters (thorough adds every history of length 5 over a 22-letter and of length 6 over an 11-letter sub-alphabet): {A=CobaRandom(1), '
            'B=CobaRandom(1)} x 15 calls (every public method and code path), C=CobaRandom(2.5) x 3 calls, module-level seed/random/shuffle, stdlib random/seed, construction of a '
            'further instance; cases = history prefixes of length <=2, each case runs all its extensions; plus 17 seeds constructed twice '
            'under a virtual clock and in 3 subprocesses with PYTHONHASHSEED 1,2,3. A case is non-trivial when: orbit segment - full '
            'quota consumed and min<max; boundary block - some call returned >=2 distinct values over the block; history case - some '
            'history interleaves >=2 actors of which >=1 is a coba generator; seed case - the stream has >=2 distinct values')
    ASSUMPTIONS = [
        'the reachable state space is the single cycle of the documented LCG (a=116646453, c=9, m=2^30: Hull-Dobell); a real stream that leaves this cycle (closure failure) is reported as a violation because "all 2^30 states" can then not be claimed',
        'contracts are exhaustive over generator states but over the finite argument list in RULE; bounds |min|,|max| <= 2^20, max-min >= 2^-20',
        'which value / member / permutation is returned is not constrained, nor is statistical quality; bulk methods are not required to equal their scalar forms',
        'choice/choicew on an empty sequence or with all-zero weights have no valid answer: an exception is the accepted outcome',
        'shuffle: "returns a permutation of its input" is read as: for every documented input type (any Iterable; lengths 0..3) the result is a sequence (len, re-readable) holding exactly the input items; with inplace=False (default) a list/deque argument is neither mutated nor returned itself, with inplace=True the given list holds the returned order. inplace=True is only exercised on lists; choice/choicew only on Sequences (list, tuple, range, str) with weights as list or tuple',
        'choicew with equal members of different weights: the weight must be that of a selectable member equal to the item and, at the boundary states (known generator state), that of the position the same state selects through choice(range(n), weights) on the real class',
        'None seeds and the module-level functions before the first coba.random.seed(k) are time-seeded by design and excluded; after seed(k) the module functions are required to behave as a CobaRandom(k)',
        'purity reference = the same real class driven alone in the same process (differential); the effect of coba on stdlib random is not constrained',
        'time is a virtual clock (coba.random.time replaced) in-process, the real clock in the subprocesses; 1 and 1.0 are not required to be the same seed',
        'HIST explores histories, no state merging (generator frames are hidden state)',
        'a generator must not remember argument objects: calls that re-use a caller-owned list (changed in place or not) must return what the same calls with fresh lists of equal values return on a fresh generator of the same seed',
    ]
    TECHNIQUE = ('explicit traversal of the complete 2^30-state space of the real generator object (LCG jump-ahead segment starts, closure check) with per-state '
                 'contract predicates, plus exhaustive enumeration of call interleavings on real instances against the same class driven alone')
    LEVEL_TEXT = ('All 2^30 generator states are visited on the real CobaRandom object (closure-checked full orbit) and the uniform contract is decided for every one; '
                  'every method contract is decided on all 2^17 boundary states at every draw position (quick) and on the full orbit for the passes listed in '
                  'evidence (thorough); purity is decided for every interleaving of <=4 calls (thorough: 5 / 6 calls over sub-alphabets of 22 / 11 letters) over three instances, the module-level functions, '
                  'stdlib random and instance construction, and for 17 seeds across 3 fresh processes.')
    LEVEL_NOTE = ('exhaustive over states, finite over arguments (listed) and over history depth; thorough full-orbit method passes not completed within the '
                  'budget are reported as caps and not claimed')
    MIN_NONTRIVIAL = {'quick': 1500, 'thorough': 2000}
    CASE_TIMEOUT = 3000
    TIMEOUT_IS_VIOLATION = False

    # -------------------------------------------------------------- enumeration
    def setup(self, tier):
        self._t0 = time.time()
        self._tier = tier
        self._budget = float(os.environ.get('C05_BUDGET', '960'))      # seconds of wall after which no further orbit pass segment is started
        self_test(G)
        if not G.full_period: raise HarnessError('documented LCG constants do not satisfy Hull-Dobell')

    def cases(self, tier):
        depth = 4
        for d in SEEDS: yield {'part': 'seed', 'seed': d}
        for l in LETTERS: yield {'part': 'hist', 'alpha': 'full', 'prefix': [l], 'depth': 1}
        yield {'part': 'boundary', 'side': 'low', 'block': 0}
        yield {'part': 'boundary', 'side': 'high', 'block': 0}
        for sd in REUSE_SEEDS:
            for o in REUSE_OPS: yield {'part': 'reuse', 'seed': sd, 'prefix': [o], 'depth': 4 if tier == 'quick' else 5}
        for c in SHUFFLE_CTYPES: yield {'part': 'containers', 'm': 'shuffle', 'ctype': c}
        for m in ('choice', 'choicew'):
            for c in CHOICE_CTYPES: yield {'part': 'containers', 'm': m, 'ctype': c}
        for h in (1, 2, 3): yield {'part': 'subproc', 'hashseed': h}
        for p in itertools.product(LETTERS, repeat=2): yield {'part': 'hist', 'alpha': 'full', 'prefix': list(p), 'depth': depth}
        for b in range(1, NB // NB_BLOCK):
            yield {'part': 'boundary', 'side': 'low', 'block': b}
            yield {'part': 'boundary', 'side': 'high', 'block': b}
        for i in range(NSEG): yield {'part': 'orbit', 'pass': 'uniform', 'seg': i}
        if tier != 'quick':
            for p in itertools.product(MID, repeat=2): yield {'part': 'hist', 'alpha': 'mid', 'prefix': list(p), 'depth': 5, 'min': 5}
            for p in itertools.product(REDUCED, repeat=2): yield {'part': 'hist', 'alpha': 'reduced', 'prefix': list(p), 'depth': 6, 'min': 6}
            for pid, (m, a, j) in enumerate(orbit_passes()):
                for i in range(NSEG): yield {'part': 'orbit', 'pass': pid, 'seg': i}

    # -------------------------------------------------------------- dispatch
    def run_case(self, case, acc):
        part = case['part']
        if part == 'call': report_call(acc, case['m'], case['a'], case['seed']); acc.mark_nontrivial()
        elif part == 'history': self.run_one_history(case['ops'], acc)
        elif part == 'seed': self.run_seed(case, acc)
        elif part == 'subproc': self.run_subproc(case, acc)
        elif part == 'hist': self.run_hist(case, acc)
        elif part == 'boundary': self.run_boundary(case, acc)
        elif part == 'containers': self.run_containers(case, acc)
        elif part == 'reuse': self.run_reuse_case(case, acc)
        elif part == 'reuse-one':
            acc.mark_nontrivial()
            for key, what in classify_reuse(case['seed'], case['ops']): acc.violation(key, what, case)
        elif part == 'container':
            container_call(acc, case['m'], case['ctype'], case['n'], case['inplace'], case['wtype'], case['seed']); acc.mark_nontrivial()
        elif part == 'orbit-block':
            r = CobaRandom(case['start'])
            try: blk = bulk(r, case['m'], case['a'], case['n'])
            except Exception: blk = None   # noqa
            self.scan_block(acc, case['m'], case['a'], case['start'], case['n'], blk); acc.mark_nontrivial()
        elif part == 'orbit':
            if case['seg'] == 'all':
                for i in range(NSEG): self.run_orbit(dict(case, seg=i), acc)
                self.post(acc, 'quick')
            else:
                self.run_orbit(case, acc)
        else: raise HarnessError(f'unknown case {case}')

    # -------------------------------------------------------------- (b) seeds
    def run_seed(self, case, acc):
        d = case['seed']
        CLOCK.reset()
        v1 = local_stream(d)
        v2 = local_stream(d)
        cls = seed_class(d)
        if isinstance(v1, dict) or isinstance(v2, dict):
            acc.violation(f'seed|constructor or stream raises|{cls}', f'CobaRandom({d}) twice -> {v1!r} / {v2!r}'); return
        if v1 != v2:
            acc.violation(f'seed|equal seeds give different streams|{cls}',
                          f'two CobaRandom({d}) constructed one (virtual) second apart: {v1[:2]}... vs {v2[:2]}... (clock read {CLOCK.calls}x)'); return
        acc.outcome(('seed', json.dumps(v1)))
        acc.count('seed_cases')
        if len({json.dumps(x) for x in v1}) >= 2: acc.mark_nontrivial()

    def run_subproc(self, case, acc):
        h = case['hashseed']
        descs = [case['only']] if case.get('only') else SEEDS
        env = dict(os.environ, PYTHONHASHSEED=str(h), PYTHONPATH=REPO, PYTHONDONTWRITEBYTECODE='1')
        try:
            p = subprocess.run([sys.executable, '-B', '-W', 'ignore', '-c', SUBPROC_SRC, json.dumps(descs)], env=env,
                               capture_output=True, text=True, timeout=600, cwd='/')
        except subprocess.TimeoutExpired:
            raise HarnessError('seed subprocess did not finish in 600 s')
        line = [l for l in p.stdout.splitlines() if l.startswith('C05-RESULT ')]
        if p.returncode != 0 or not line:
            raise HarnessError(f'seed subprocess failed rc={p.returncode}: {p.stderr[-800:]}')
        got = json.loads(line[0][len('C05-RESULT '):])
        if got['__file__'] != REPO or got['__hashseed__'] != str(h):
            raise HarnessError(f'seed subprocess imported coba from {got["__file__"]} with hash seed {got["__hashseed__"]}')
        distinct = set()
        for d in descs:
            CLOCK.reset()
            here = local_stream(d)
            there = got[d]
            cls = seed_class(d)
            if isinstance(here, dict) or isinstance(there, dict):
                if here != there:
                    acc.violation(f'seed|constructor or stream raises|{cls}; other process', f'CobaRandom({d}): here {here!r}, PYTHONHASHSEED={h} process {there!r}',
                                  {'part': 'subproc', 'hashseed': h, 'only': d})
                continue
            if here != there:
                acc.violation(f'seed|equal seeds give different streams|{cls}',
                              f'CobaRandom({d}) in a fresh process with PYTHONHASHSEED={h}: {there[:2]}..., in this process {here[:2]}...',
                              {'part': 'subproc', 'hashseed': h, 'only': d})
                continue
            distinct.add(json.dumps(here))
        acc.count('subprocess_seed_comparisons', len(descs))
        acc.outcome(('subproc', len(distinct)))
        if len(distinct) >= 2 or case.get('only'): acc.mark_nontrivial()

    # -------------------------------------------------------------- (b) histories
    def run_one_history(self, ops, acc):
        acc.mark_nontrivial()
        for key, what in classify_history(list(ops)):
            acc.violation(key, what, {'part': 'history', 'ops': list(ops)})

    def run_hist(self, case, acc):
        alpha = ALPHABETS[case['alpha']]
        prefix = tuple(case['prefix'])
        depth = case['depth']
        nh = nt = 0
        interleaved = 0
        reported = 0
        lo = max(case.get('min', 0) - len(prefix), 0)         # 'min': only histories of at least this total length (shorter ones belong to another case)
        ext = histories(alpha, depth - len(prefix), lo) if lo else ([()] if depth <= len(prefix) else itertools.chain([()], histories(alpha, depth - len(prefix))))
        coba_actor = {'A', 'B', 'C', 'M', 'N'}
        for e in ext:
            ops = prefix + e
            nh += 1; nt += len(ops)
            try:
                out = run_history(ops)
            except Exception:   # noqa
                out = None
            bad = out is None
            if not bad:
                for actor, seed, calls, res in projections(ops, out):
                    try:
                        if solo(seed, calls) != res or (seed, calls) in _SOLO_BAD: bad = True; break
                    except Exception:   # noqa   (fails alone as well: part (a))
                        pass
            actors = {op[0] for op in ops}
            if len(actors) >= 2 and actors & coba_actor: interleaved += 1
            if len(ops) <= 3 and out is not None: acc.outcome(('h', repr(out)))
            if bad and reported < 3:
                reported += 1
                for key, what in classify_history(list(ops)):
                    acc.violation(key, what, {'part': 'history', 'ops': list(ops)}, order=(len(ops), acc._cur[0], nh))
        acc.count('hist_states', nh); acc.count('hist_transitions', nt); acc.count('hist_interleaved_histories', interleaved)
        acc.traces += nh
        if interleaved: acc.mark_nontrivial()

    def minimise(self, key, witness):
        if isinstance(witness, dict) and witness.get('part') == 'reuse-one':
            ops = list(witness['ops']); i = 0
            while i < len(ops):
                trial = ops[:i] + ops[i + 1:]
                if trial and any(k == key for k, _ in classify_reuse(witness['seed'], trial)): ops = trial
                else: i += 1
            return {'part': 'reuse-one', 'seed': witness['seed'], 'ops': ops}
        if not isinstance(witness, dict) or witness.get('part') != 'history': return witness
        ops = list(witness['ops'])
        i = 0
        while i < len(ops):
            trial = ops[:i] + ops[i + 1:]
            if trial and any(k == key for k, _ in classify_history(trial)): ops = trial
            else: i += 1
        return {'part': 'history', 'ops': ops}

    # -------------------------------------------------------------- (a) container types of the sequence arguments
    def run_reuse_case(self, case, acc):
        seed, prefix, depth = case['seed'], tuple(case['prefix']), case['depth']
        nh = nt = reported = 0
        results = set()
        for e in itertools.chain([()], histories(REUSE_OPS, depth - len(prefix))):
            ops = prefix + e
            nh += 1; nt += len(ops)
            got = run_reuse(seed, ops, fresh=False)
            ref = run_reuse(seed, ops, fresh=True)
            bad = [g[1] for g in got] != [g[1] for g in ref]
            if not bad:
                for op, res, sv, wv in got:
                    if op == 'r': continue
                    m, weighted = _REUSE_SPEC[op]
                    if (isinstance(res, tuple) and res and res[0] == 'exc') or judge(m, [sv, wv] if weighted else [sv], res): bad = True; break
            if len(ops) <= 3: results.add(repr([g[1] for g in got]))
            if bad and reported < 3:
                reported += 1
                for key, what in classify_reuse(seed, ops):
                    acc.violation(key, what, {'part': 'reuse-one', 'seed': seed, 'ops': list(ops)}, order=(len(ops), acc._cur[0], nh))
        acc.count('reuse_histories', nh); acc.count('reuse_operations', nt)
        acc.traces += nh
        acc.outcome(('reuse', seed, prefix[0], len(results)))
        if len(results) >= 2: acc.mark_nontrivial()

    def run_containers(self, case, acc):
        m, ctype = case['m'], case['ctype']
        ncalls = 0
        seen = set()
        if m == 'shuffle':
            combos = [(n, ip, 'none') for n in (0, 1, 2, 3) for ip in ((False, True) if ctype == 'list' else (False,))]
        else:
            combos = [(n, False, w) for n in (1, 2, 3) for w in WEIGHT_CTYPES]
        for seed in container_seeds():
            for n, ip, w in combos:
                ncalls += 1
                viol, sig = container_call(acc, m, ctype, n, ip, w, seed)
                if not viol: seen.add((n, ip, w, sig))
        acc.count('container_calls', ncalls)
        acc.outcome(('containers', m, ctype, len(seen)))
        if len(seen) > len(combos): acc.mark_nontrivial()          # some (length, flags) combination returned >= 2 distinct results

    # -------------------------------------------------------------- (a) boundary states
    def run_boundary(self, case, acc):
        b = case['block']
        if case['side'] == 'low': states = range(b * NB_BLOCK, (b + 1) * NB_BLOCK)
        else: states = range(M - 1 - b * NB_BLOCK, M - 1 - (b + 1) * NB_BLOCK, -1)
        specs = [(m, a, spec_k(m, a), no_valid_answer(m, a)) for m, a in boundary_specs()]
        mask = M - 1
        ncalls = 0
        seen = {}
        first = True
        for s in states:
            for si, (m, a, k, nva) in enumerate(specs):
                if k == 0 and not first: continue            # no draw: state-independent, once per block
                for p in range(max(k, 1)):
                    A_, C_ = _BACK[p + 1]
                    seed = (A_ * s + C_) & mask                # the boundary state is draw p+1 of this call
                    ncalls += 1
                    try:
                        v = do_call(CobaRandom(seed), m, a)
                    except Exception:   # noqa
                        if nva: continue
                        report_call(acc, m, a, seed); continue
                    if judge(m, a, v, seed) is not None:
                        report_call(acc, m, a, seed); continue
                    if k == 1:
                        seen.setdefault(si, set()).add(tuple(v) if isinstance(v, list) else v)
            first = False
        acc.count('boundary_states', len(states)); acc.count('boundary_calls', ncalls)
        for si, vals in seen.items(): acc.outcome(('b', case['side'], si, repr(sorted(vals, key=repr)) if len(vals) <= 8 else len(vals)))
        if any(len(v) >= 2 for v in seen.values()): acc.mark_nontrivial()

    # -------------------------------------------------------------- (a) the orbit
    def run_orbit(self, case, acc):
        if case['pass'] == 'uniform': return self.run_orbit_uniform(case, acc)
        pid = case['pass']
        m, a, j = orbit_passes()[pid]
        name = pass_name(m, a, j)
        if time.time() - getattr(self, '_t0', time.time()) > getattr(self, '_budget', 1e18):
            acc.cap(f'time budget: orbit pass not completed: {name}')
            return
        i = case['seg']
        _, start, L = G.segments(NSEG, offset=j)[i]
        assert BLOCK % (2 * spec_k_stream(m, a)) == 0 and L % BLOCK == 0      # whole calls / whole Box-Muller pairs per block
        r = CobaRandom(start)
        cur = start
        intact = True
        nviol = 0
        n = BLOCK
        for _b in range(L // BLOCK):
            try:
                blk = bulk(r, m, a, n)
                sus = block_suspect(m, a, blk, n)
            except Exception:   # noqa  - a call raised somewhere in this block: find it by single calls on fresh objects
                blk, sus = None, True
            if sus:
                nviol += self.scan_block(acc, m, a, cur, n, blk)
                if blk is None:                               # the real object may be broken (dead generator): continue on a fresh one
                    intact = False
                    r = CobaRandom(G.advance(cur, n))
            cur = G.advance(cur, n)
            acc.transitions += n
        acc.count('orbit_method_calls_uniforms', L)
        if intact:
            # Coverage closure of a method pass: the real object must now stand at the next segment's start.  How many
            # uniforms a method draws is not part of the property (a redraw in one state is legitimate), so a small
            # overrun into the next segment still covers every state of this one; anything else is a coverage cap,
            # never a violation (the state space itself is closure-checked by the uniform pass).
            peek = r.random()
            nxt = G.step(cur)
            over = None
            for d in range(0, 9):
                if peek * M == nxt: over = d; break
                nxt = G.step(nxt)
            if over is None:
                acc.cap(f'orbit pass not closed (the method does not draw the modelled number of uniforms): {name}')
                acc.outcome(('orbit', pid, i, 'open')); acc.mark_nontrivial()
                return
            if over: acc.count('orbit_method_pass_segments_with_overrun')
            acc.traces += 1
            acc.note(f'closure|{pid}', {f'{i}:{start}:{cur}'})
        else:
            acc.cap(f'orbit pass restarted on a fresh object after an exception (not one continuous stream): {name}')
        acc.outcome(('orbit', pid, i, nviol))
        acc.mark_nontrivial()

    def scan_block(self, acc, m, a, start, n, blk):
        """Element-by-element scan of a suspicious block; every failing element is reported through its one-call replay."""
        found = 0
        if blk is not None:
            for idx, v in enumerate(blk):
                if element_bad(m, a, v):
                    em, ea, off = element_spec(m, a, idx)
                    if report_call(acc, em, ea, G.advance(start, off)): found += 1
                    else:
                        acc.violation(f'{m}|contract violated inside a long stream but not by the same call on a fresh object|{arg_class(em, ea)}',
                                      f'element {idx} of the block after pre-state {start}: {v!r}', {'part': 'orbit-block', 'm': m, 'a': a, 'start': start, 'n': n})
                        found += 1
                    if found >= 8: break
            if len(blk) != (n // spec_k_stream(m, a)) and not found:
                acc.violation(f'{m}|wrong number of values|bulk drive', f'{len(blk)} results for {n} uniforms after pre-state {start}',
                              {'part': 'orbit-block', 'm': m, 'a': a, 'start': start, 'n': n}); found += 1
            return found
        # an exception escaped the C-level driving loop: replay the block with single calls on fresh objects
        ks = spec_k_stream(m, a)
        em, ea, _ = element_spec(m, a, 0)
        k1 = spec_k(em, ea)
        s = start
        for off in range(0, n, k1):
            r = CobaRandom(s)
            try:
                v = do_call(r, em, ea)
                ok = judge(em, ea, v) is None
            except Exception:   # noqa
                ok = False
            if not ok:
                if report_call(acc, em, ea, s): found += 1
                if found >= 8: break
            for _ in range(k1): s = G.step(s)
        return found

    def run_orbit_uniform(self, case, acc):
        i = case['seg']
        _, start, L = G.segments(NSEG)[i]
        r = CobaRandom(start)
        cur = start
        mask = M - 1
        AB, CB = _JB
        zeros = 0; tot = 0; lo_all = 2.0; hi_all = -1.0
        for _b in range(L // BLOCK):
            blk = r.randoms(BLOCK)
            if len(blk) != BLOCK:
                acc.violation('randoms|wrong number of values|n=2^20', f'randoms({BLOCK}) returned {len(blk)} values', case); return
            lo = min(blk); hi = max(blk)
            if not (lo >= 0.0 and hi < 1.0) or set(map(type, blk)) != {float}:
                for idx, v in enumerate(blk):
                    if _uniform_mode(v, 0, 1) is not None or not isinstance(v, float):
                        if not report_call(acc, 'random', [0, 1], G.advance(cur, idx)):
                            acc.violation('randoms|value outside [0,1) in a long stream|default bounds', f'value {v!r} at offset {idx} after pre-state {cur}', case)
                        break
                return
            if lo < lo_all: lo_all = lo
            if hi > hi_all: hi_all = hi
            zeros += blk.count(0.0)
            tot += exact_state_sum(blk, M)
            nxt = (AB * cur + CB) & mask
            if blk[-1] * M != nxt:
                acc.violation('orbit|real stream leaves the documented 2^30-state LCG cycle|uniform stream',
                              f'segment {i}: CobaRandom({start}) after {_b + 1} blocks of 2^20 draws is in state {blk[-1] * M!r}, the LCG jump-ahead gives {nxt}', case)
                return
            cur = nxt
        acc.states += L; acc.transitions += L; acc.traces += 1
        acc.note('closure|uniform', {f'{i}:{start}:{cur}'})
        acc.count('orbit_uniform_zero_states', zeros)
        acc.count('orbit_uniform_state_sum', tot)
        acc.outcome(('orbit-uniform', i, lo_all, hi_all))
        if lo_all < hi_all: acc.mark_nontrivial()

    # -------------------------------------------------------------- parent-side closure / completeness
    def post(self, acc, tier):
        def ends(key):
            out = {}
            for s in acc.notes.get(key, ()):
                i, st, en = s.split(':'); out[int(i)] = (int(st), int(en))
            return out
        extra = {}
        e = ends('closure|uniform')
        ok, why = chain_closed(G, e, NSEG)
        info = {'segments_completed': len(e), 'closed': ok}
        if ok:
            zeros = acc.counters.get('orbit_uniform_zero_states', 0)
            tot = acc.counters.get('orbit_uniform_state_sum', 0)
            info['states_with_uniform_0.0'] = zeros
            info['state_sum_is_M(M-1)/2'] = (tot == M * (M - 1) // 2)
            if zeros != 1 or tot != M * (M - 1) // 2:
                acc.violation('orbit|visited states are not every residue exactly once|checksum',
                              f'closed walk of {M} draws: {zeros} states with uniform 0.0 (expected 1), state sum {tot} (expected {M * (M - 1) // 2})',
                              {'part': 'orbit', 'pass': 'uniform', 'seg': 'all'})
        elif len(e) == NSEG:
            acc.violation('orbit|segments do not chain into one closed walk|uniform stream', why, {'part': 'orbit', 'pass': 'uniform', 'seg': 'all'})
        else:
            if not any(k.startswith('orbit|') for k in acc.violations): acc.cap(f'orbit uniform pass incomplete: {why}')
        extra['orbit_uniform_pass'] = info
        if tier != 'quick':
            done, notdone = [], []
            for pid, (m, a, j) in enumerate(orbit_passes()):
                ok, why = chain_closed(G, ends(f'closure|{pid}'), NSEG, offset=j)
                (done if ok else notdone).append(pass_name(m, a, j))
                if not ok and not any(c.endswith(pass_name(m, a, j)) for c in acc.capped):
                    acc.cap(f'orbit pass not completed: {pass_name(m, a, j)} ({why})')
            extra['orbit_method_passes_completed'] = done
            extra['orbit_method_passes_not_completed'] = notdone
        extra['hist'] = {k: v for k, v in acc.counters.items() if k.startswith('hist_')}
        return extra


CHECK = C05()
