"""C15 - every supported prediction format is understood the same way (ENUM engine).

A scripted learner (a pure function of the (context, actions) it is offered) answers `predict` in one documented
format - bare action, (action, prob), PMF, {'action':..}, {'action_prob':..}, {'pmf':..}, each with or without a
kwargs mapping - un-batched, as a row-major batch, as a column-major batch, or by refusing batches (so that
SafeLearner must fall back to one call per row).  Every (format, kwargs payload, layout, batch size, action set,
context kind, named actions / stated probabilities / PMFs per row[, second call with another action set]) below the
bound is run on a FRESH real `SafeLearner(learner, seed)`: `predict`, then `learn` with what predict returned (as
SequentialCB does), and compared with the reference reading of the learner's answer:

   action  == the offered action the learner named (or, for a PMF, an offered action with non-zero mass, reported
              with exactly that mass, identically for two fresh SafeLearners with the same seed, and identically
              for a batch-capable and a per-row learner)
   prob    == the probability the learner stated (None when it stated none)
   kwargs  == the learner's kwargs (per row), and `learn` hands exactly these back to the learner - in one batched
              call for a batch-capable learner, in one un-batched call per row (in row order) otherwise.
"""
import itertools, json, traceback

from vf.core import Check, HarnessError

from coba.safety import SafeLearner
from coba.primitives import is_batch
from coba.environments.filters import Batch
from coba.evaluators import SequentialCB, SequentialIGL
from coba.primitives import SimulatedInteraction, GroundedInteraction
from coba.context import CobaContext, NullLogger, MemoryCacher

import coba.random as _coba_random


class VirtualClock:
    """Stands in for the `time` module seen by coba.random: every reading differs, so a generator that is seeded from the
    clock instead of the given seed gives different streams in two otherwise identical executions."""
    def __init__(self): self.now = 1.7e9
    def time(self):
        self.now += 1.0
        return self.now


_coba_random.time = VirtualClock()

CobaContext.logger = NullLogger()
CobaContext.cacher = MemoryCacher()
CobaContext.search_paths = []

# ------------------------------------------------------------------ alphabets (every value is built fresh from its name)

ACT_NAMES = ['s', 'one', 'i123', 'i01', 'i012', 'i05', 'i15', 'i50', 'i51', 'f', 'f01', 'oh', 'l', 'sp', 'oh3', 'sp2', 'd1']       # simplest first
ACT_KIND = {'i05': 'ints [0,5]', 'i15': 'ints [1,5]', 'i50': 'ints [5,0]', 'i51': 'ints [5,1]', 'i012': 'ints 0..2', 'f01': 'floats 0.0/1.0', 's': 'strings', 'one': 'single int action', 'i123': 'ints 1..3', 'i01': 'ints 0/1', 'f': 'probability-like floats',
            'oh': 'one-hot tuples (2)', 'l': 'lists', 'sp': 'sparse dicts (1 feature)', 'oh3': 'one-hot tuples (3)',
            'sp2': 'sparse dicts (2 features)', 'd1': 'dense tuples (1 feature)'}


def mk_acts(name):
    if name == 's': return ['a', 'b']
    if name == 'one': return [7]
    if name == 'i123': return [1, 2, 3]
    if name == 'i01': return [0, 1]
    if name == 'i012': return [0, 1, 2]
    if name in ('i05', 'i15', 'i50', 'i51'): return [int(name[1]), int(name[2])]      # exactly one of 0/1 next to another int
    if name == 'f01': return [float('0'), float('1')]
    if name == 'f': return [float('0.25'), float('0.75')]
    if name == 'oh': return [tuple([1, 0]), tuple([0, 1])]
    if name == 'l': return [[1, 2], [3, 4]]
    if name == 'sp': return [{'x': 1}, {'y': 2}]
    if name == 'oh3': return [tuple([1, 0, 0]), tuple([0, 1, 0]), tuple([0, 0, 1])]
    if name == 'sp2': return [{'x': 1, 'y': 2}, {'z': 3}]
    if name == 'd1': return [tuple([5]), tuple([6])]
    raise ValueError(name)


NACT = {n: len(mk_acts(n)) for n in ACT_NAMES}

CTX_KINDS = ['none', 'absent', 'scalar', 'list']      # absent: the evaluator passes context=None also for a batch (environment without 'context')


def mk_ctx(kind, c, r):
    if kind in ('none', 'absent'): return None
    if kind == 'scalar': return 10 * c + r            # 0 (falsy) for the first row of the first call
    return [10 * c + r, 2]


PROBS = [0.5, 1, 0.0]        # incl. a falsy stated probability


def mk_pmf(K, j):
    """PMF number j over K actions (fresh list): the K one-hots (ints, as in coba's own examples), then mixed ones."""
    if j < K: return [1 if i == j else 0 for i in range(K)]
    # the last ones have a float sum != 1.0 (0.9999 resp. 0.9999999999999999): accepted as PMFs, and p/sum(pmf) != p for every entry
    if K == 1: return [[0.9999]][j - K]
    if K == 2: return [[0.5, 0.5], [0.25, 0.75], [0.3333, 0.6666]][j - K]
    if K == 3: return [[0.25, 0.5, 0.25], [0.01, 0.29, 0.7], [0.3333, 0.3333, 0.3333]][j - K]
    raise ValueError((K, j))


def n_pmf(K): return 2 if K == 1 else K + 3


def mk_kw(kwid, e):
    if kwid == 0: return None
    if kwid == 1: return {}
    if kwid == 2: return {'i': e}                 # 0 (falsy) for the first script entry
    if kwid == 3: return {'v': [e, 2], 'w': 's%d' % e}
    # payloads whose keys are INSERTED in an order that depends on the script entry (= on the row): equal key sets, legal
    if kwid in (4, 5):                            # two keys: (ab, ba, ab, ..) and (ba, ab, ba, ..)
        items = [('arm', e), ('mode', 'm%d' % e)]
        return dict(items if (e + kwid) % 2 == 0 else items[::-1])
    items = [('arm', e), ('mode', 'm%d' % e), ('tag', [e])]
    perms = [(0, 1, 2), (2, 0, 1), (1, 2, 0)] if kwid == 6 else [(0, 1, 2), (0, 2, 1), (1, 0, 2), (2, 1, 0)]
    return dict(items[i] for i in perms[e % len(perms)])


FMTS = ['A', 'AP', 'PM', 'hA', 'hAP', 'hPM']
HINT = {'A': 'action', 'AP': 'action_prob', 'PM': 'pmf'}
MODES = ['not', 'row', 'col', 'fb']
MODE_TEXT = {'not': 'not batched', 'row': 'row-major batch', 'col': 'column-major batch', 'fb': 'non-batch learner on a batch'}
BOXES = ['m', 'l', 't']        # m: pairs/wrappers are tuples, batches/columns/PMFs lists; l: all lists; t: all tuples


def base_of(fmt): return fmt[1:] if fmt[0] == 'h' else fmt


def row_choices(fmt, K):
    b = base_of(fmt)
    if b == 'A': return [[i] for i in range(K)]
    if b == 'AP': return [[i, pi] for i in range(K) for pi in range(len(PROBS))]
    return [[j] for j in range(n_pmf(K))]


def call_choices(fmt, call, full):
    """The choice lists (one choice per row) explored for one call.  Rows with a None context are indistinguishable
    to a learner that is a function of (context, actions), so they all get the same choice."""
    K, n = NACT[call['acts']], call['n']
    rc = row_choices(fmt, K)
    if call['ctx'] in ('none', 'absent') or n == 1:
        return [[c] * n for c in rc]
    if not full:       # rotations: row r takes choice (r + shift) mod |choices|
        return [[rc[(r + s) % len(rc)] for r in range(n)] for s in range(len(rc))]
    if base_of(fmt) == 'AP':     # all named-action combinations x the first row's probability (rows alternate)
        out = []
        for idx in itertools.product(range(K), repeat=n):
            for p0 in range(len(PROBS)):
                out.append([[i, (p0 + r) % len(PROBS)] for r, i in enumerate(idx)])
        return out
    return [list(t) for t in itertools.product(rc, repeat=n)]


ONE_OF_01 = ('i05', 'i15', 'i50', 'i51')
HIST3_ACTS = ['s', 'f', 'i01', 'i012', 'i123', 'f01']      # with and without 0/1 (ints and floats)
EVAL_ACTS = ['s', 'i123', 'i01', 'f', 'one']        # values that Finalize leaves as they are


def eval_choices(cfg):
    """Rotations over the interactions of the environment: interaction i takes choice (i + shift) mod |choices|."""
    rc = row_choices(cfg['fmt'], NACT[cfg['calls'][0]['acts']])
    batched = cfg['mode'] != 'not'
    out = []
    for s in range(len(rc)):
        i, ch = 0, []
        for call in cfg['calls']:
            n = call['n'] if batched else 1
            ch.append([rc[(i + r + s) % len(rc)] for r in range(n)]); i += n
        out.append(ch)
    return out


def cfg_of(case):
    cfg = {k: case[k] for k in ('fmt', 'kw', 'mode', 'calls')}
    cfg['box'] = case.get('box', 'm'); cfg['seed'] = case.get('seed', 1)
    if case.get('full2'): cfg['full2'] = 1
    return cfg


def exec_choices(cfg):
    calls = cfg['calls']
    if len(calls) == 1:
        return [[c] for c in call_choices(cfg['fmt'], calls[0], True)]
    if len(calls) == 2:
        return [[a, b] for a in call_choices(cfg['fmt'], calls[0], False) for b in call_choices(cfg['fmt'], calls[1], bool(cfg.get('full2')))]
    # longer histories: joint rotations - row r of call c takes choice (c + r + shift) mod |choices of that call|
    rcs = [row_choices(cfg['fmt'], NACT[c['acts']]) for c in calls]
    batched = cfg['mode'] != 'not'
    return [[[rc[(c + r + s) % len(rc)] for r in range(calls[c]['n'] if batched else 1)] for c, rc in enumerate(rcs)]
            for s in range(max(map(len, rcs)))]


# ------------------------------------------------------------------ the scripted learner

class NotBatchable(Exception):
    """Raised by the learner that cannot handle batches."""


class NotOffered(Exception):
    """The learner was handed a (context, actions) pair that the evaluator never passed to SafeLearner."""


def same_ctx(a, b):
    return type(a) is type(b) and a == b


def acts_equal(offered, name):
    try:
        return list(offered) == mk_acts(name)          # 0.0 == 0: the float copies SafeLearner makes of 0/1 are accepted
    except Exception:   # noqa
        return False


class ScriptedLearner:
    def __init__(self, entries, fmt, kwid, mode, box):
        self.entries = entries
        self.base, self.hinted = base_of(fmt), fmt[0] == 'h'
        self.kwid, self.mode, self.box = kwid, mode, box
        self.anomalies = []
        self.learn_calls = []
        self.n_predict = 0
        self.row_calls = []          # contexts of the un-batched predict calls

    # -- containers
    def pair(self, x): return list(x) if self.box == 'l' else tuple(x)
    def outer(self, x): return tuple(x) if self.box == 't' else list(x)

    def _parts(self, context, actions):
        for en in self.entries:
            if same_ctx(context, en['ctx']) and acts_equal(actions, en['acts']): break
        else:
            self.anomalies.append('predict(%r, %r)' % (context, actions))
            raise NotOffered('predict(%r, %r)' % (context, actions))
        ch = en['choice']
        kw = mk_kw(self.kwid, en['e'])
        if self.base == 'PM':
            return {'pmf': self.outer(mk_pmf(len(actions), ch[0])), 'kw': kw}
        return {'a': actions[ch[0]], 'p': PROBS[ch[1]] if self.base == 'AP' else None, 'kw': kw}      # the OFFERED object

    def _value(self, p):
        if self.base == 'A': v = p['a']
        elif self.base == 'AP': v = self.pair((p['a'], p['p']))
        else: v = p['pmf']
        return {HINT[self.base]: v} if self.hinted else v

    def _single(self, p):
        if p['kw'] is None: return self._value(p)
        if self.base == 'AP' and not self.hinted: return self.pair((p['a'], p['p'], p['kw']))
        return self.pair((self._value(p), p['kw']))

    def predict(self, context, actions):
        self.n_predict += 1
        if not (is_batch(context) or is_batch(actions)):
            self.row_calls.append(context)
            return self._single(self._parts(context, actions))
        if self.mode == 'fb': raise NotBatchable('predict')
        rows = [self._parts(x, a) for x, a in zip(context if context is not None else [None] * len(actions), actions)]
        if self.mode != 'col':
            return self.outer([self._single(p) for p in rows])
        KW = None if self.kwid == 0 else {k: [p['kw'][k] for p in rows] for k in rows[0]['kw']}
        if self.hinted:
            if self.base == 'A': body = {'action': [p['a'] for p in rows]}
            elif self.base == 'AP': body = {'action_prob': [self.pair((p['a'], p['p'])) for p in rows]}
            else: body = {'pmf': [p['pmf'] for p in rows]}
            return body if KW is None else self.outer([body, KW])
        if self.base == 'A': cols = [self.outer([p['a'] for p in rows])]
        elif self.base == 'AP': cols = [self.outer([p['a'] for p in rows]), self.outer([p['p'] for p in rows])]
        else: cols = [self.outer([p['pmf'][j] for p in rows]) for j in range(len(rows[0]['pmf']))]
        if KW is None: return cols[0] if self.base == 'A' else self.outer(cols)
        return self.outer(cols + [KW])

    def learn(self, context, action, reward, probability, **kwargs):
        batched = any(map(is_batch, (context, action, reward, probability)))
        if batched and self.mode == 'fb': raise NotBatchable('learn')
        self.learn_calls.append((batched, context, action, reward, probability, kwargs))


# ------------------------------------------------------------------ reference reading

def two_way(pmf, acts):
    """An un-hinted PMF value that could also be read as an offered action or as an (action, prob) pair: the property
    only quantifies over learners that use a dict hint there."""
    for a in acts:
        if isinstance(a, (list, tuple)) and list(a) == list(pmf): return True
        if len(pmf) == 2 and not isinstance(a, (list, tuple, dict, str)) and pmf[0] == a:
            # SafeLearner offers the int actions 0/1 as float copies exactly so that a PMF with int entries ([0,1], [1,0]) cannot be
            # taken for (offered action, prob): only an entry of the type of the OFFERED object can be read two ways
            offered = float if isinstance(a, float) or a in (0, 1) else type(a)
            if type(pmf[0]) is offered: return True
    return False


def where_raised(e):
    fn = None
    tb = e.__traceback__
    while tb is not None:
        co = tb.tb_frame.f_code
        if '/coba/' in co.co_filename and '/vf/' not in co.co_filename:
            names = [x for x in co.co_qualname.split('.') if not x.startswith('<')]      # enclosing function of a genexpr / lambda
            fn = names[-1] if names else co.co_name
        tb = tb.tb_next
    return fn or '?'


def is_seq(x): return isinstance(x, (list, tuple))


ROWCALLS = 'learner that cannot batch is called '


class Finding(Exception):
    def __init__(self, comp, mode, what, call=0):
        self.comp, self.mode, self.what, self.call = comp, mode, what, call


def split_rows(res, n, batched):
    """predict's result -> [(action, prob, kwargs)] per row, or a string describing why it has not that shape."""
    if not is_seq(res) or len(res) != 3: return 'result is %r' % (res,)
    A, P, KW = res
    if not hasattr(KW, 'keys'): return 'kwargs is %r' % (KW,)
    if not batched: return [(A, P, dict(KW))]
    if not is_seq(A) or len(A) != n: return 'actions %r for %d rows' % (A, n)
    if P is None: P = [None] * n
    if not is_seq(P) or len(P) != n: return 'probabilities %r for %d rows' % (P, n)
    for k in KW:
        if not is_seq(KW[k]) or len(KW[k]) != n: return 'kwargs[%r] is %r for %d rows' % (k, KW[k], n)
    return [(A[r], P[r], {k: KW[k][r] for k in KW}) for r in range(n)]


def judge_row(comp, base, ref_acts, choice, a, p, r, c):
    """(a, p) is the reference reading of the learner's answer for one row, else raise Finding."""
    if base == 'PM':
        pmf = mk_pmf(len(ref_acts), choice[0])
        idx = [i for i, x in enumerate(ref_acts) if x == a and type(a) is not bool]
        if not idx:
            raise Finding(comp, 'action is not one of the offered actions', 'row %d: got %r, offered %r' % (r, a, ref_acts), c)
        if pmf[idx[0]] == 0:
            raise Finding(comp, 'PMF answer: (action, probability) is not a draw from the row\'s PMF', 'row %d: pmf %r over %r gave (%r, %r)' % (r, pmf, ref_acts, a, p), c)
        if isinstance(p, bool) or not isinstance(p, (int, float)) or p != pmf[idx[0]]:
            near = isinstance(p, float) and abs(p - pmf[idx[0]]) < 1e-3
            raise Finding(comp, 'PMF answer: reported probability is not %sthe PMF entry of the played action' % ('exactly ' if near else ''),
                          'row %d: pmf %r over %r gave (%r, %r)' % (r, pmf, ref_acts, a, p), c)
        return idx[0]
    want = ref_acts[choice[0]]
    if not any(x == a for x in ref_acts) or type(a) is bool:
        raise Finding(comp, 'action is not one of the offered actions', 'row %d: got %r, offered %r' % (r, a, ref_acts), c)
    if not (a == want):
        raise Finding(comp, 'action is not the one the learner named', 'row %d: named %r, got %r' % (r, want, a), c)
    if base == 'A':
        if p is not None:
            raise Finding(comp, 'a probability is reported although the learner stated none', 'row %d: got %r' % (r, p), c)
    elif p is None or isinstance(p, bool) or p != PROBS[choice[1]]:
        raise Finding(comp, 'probability is not the one the learner stated', 'row %d: stated %r, got %r' % (r, PROBS[choice[1]], p), c)
    return choice[0]


def build_plan(cfg, ch):
    """-> (script entries of the learner, rows per call, index of the first call of which nothing is demanded or None)"""
    fmt, kwid, mode = cfg['fmt'], cfg['kw'], cfg['mode']
    batched = mode != 'not'
    entries, plan, e = [], [], 0
    stop_at = None            # index of the first call of which nothing is demanded (outside the property's quantifier)
    for c, call in enumerate(cfg['calls']):
        n = call['n'] if batched else 1
        K = NACT[call['acts']]
        rows = []
        for r in range(n):
            ctx = mk_ctx(call['ctx'], c, r)
            same = [en for en in entries if same_ctx(en['ctx'], ctx) and mk_acts(en['acts']) == mk_acts(call['acts'])]     # by value: [0,1] == [0.0,1.0]
            if same:
                rows.append(same[0]); continue          # indistinguishable to a learner that is a function of (context, actions): one script entry
            en = {'ctx': ctx, 'acts': call['acts'], 'choice': ch[c][r], 'e': e}
            e += 1
            entries.append(en); rows.append(en)
            if fmt == 'PM' and stop_at is None and two_way(mk_pmf(K, en['choice'][0]), mk_acts(call['acts'])): stop_at = c
        if fmt == 'PM' and mode == 'col' and kwid == 0 and c == 0 and n == 1 and K == 1 and stop_at is None:
            stop_at = 1       # the first answer [[1]] reads the same row- and column-major (also for a one-row probe): a value that can be read two ways
        plan.append(rows)
    return entries, plan, stop_at


def execute(cfg, ch):
    """One execution on fresh objects.  -> dict(finding=Finding|None, rows=[[...]] per call, demanded=bool, ...)."""
    fmt, kwid, mode, box, seed = cfg['fmt'], cfg['kw'], cfg['mode'], cfg.get('box', 'm'), cfg.get('seed', 1)
    base, hinted = base_of(fmt), fmt[0] == 'h'
    batched = mode != 'not'
    entries, plan, stop_at = build_plan(cfg, ch)
    learner = ScriptedLearner(entries, fmt, kwid, mode, box)
    out = {'finding': None, 'rows': [], 'demanded': stop_at is None or stop_at >= len(plan), 'learner': learner}
    try:
        safe = SafeLearner(learner, seed)
        for c, rows in enumerate(plan):
            call = cfg['calls'][c]
            n = len(rows)
            ref_acts = mk_acts(call['acts'])          # never handed to coba
            if batched:
                context = None if call['ctx'] == 'absent' else Batch.List([mk_ctx(call['ctx'], c, r) for r in range(n)])
                actions = Batch.List([mk_acts(call['acts']) for r in range(n)])
                reward = Batch.List([0.5 + r + 10 * c for r in range(n)])
            else:
                context, actions, reward = mk_ctx(call['ctx'], c, 0), mk_acts(call['acts']), 0.5 + 10 * c
            # ---------------- predict
            learner.row_calls.clear()
            try:
                res = safe.predict(context, actions)
            except Exception as ex:   # noqa
                if c == stop_at:
                    out['rows'].append('undemanded:' + type(ex).__name__); break
                if isinstance(ex, NotOffered) or learner.anomalies:
                    raise Finding('SafeLearner.predict', 'learner is offered a (context, actions) pair the evaluator did not pass', learner.anomalies[0], c)
                if isinstance(ex, NotBatchable):
                    raise Finding('SafeLearner.predict', 'batch refusal of the learner reaches the evaluator', repr(ex), c)
                raise Finding('SafeLearner.predict', 'raises %s@%s' % (type(ex).__name__, where_raised(ex)), '%s: %s' % (type(ex).__name__, str(ex)[:160]), c)
            if c == stop_at:
                out['rows'].append('undemanded:returns'); break
            if learner.anomalies:
                raise Finding('SafeLearner.predict', 'learner is offered a (context, actions) pair the evaluator did not pass', learner.anomalies[0], c)
            want_calls = [mk_ctx(call['ctx'], c, r) for r in range(n)]
            if mode == 'fb' and not (len(learner.row_calls) == n and all(same_ctx(x, y) for x, y in zip(learner.row_calls, want_calls))):
                how = 'more than once per row' if len(learner.row_calls) > n else 'for fewer rows than the batch has' if len(learner.row_calls) < n else 'in another order than the rows'
                raise Finding('SafeLearner.predict', ROWCALLS + how, 'predict was called un-batched for contexts %r, the batch has contexts %r' % (learner.row_calls, want_calls), c)
            got = split_rows(res, n, batched)
            if isinstance(got, str):
                raise Finding('SafeLearner.predict', 'result is not (action, probability, kwargs) with one entry per row', got + ' from %r' % (res,), c)
            for r, (a, p, kw) in enumerate(got):
                en = rows[r]
                exp_kw = mk_kw(kwid, en['e']) or {}
                judge_row('SafeLearner.predict', base, ref_acts, en['choice'], a, p, r, c)
                if kw != exp_kw:
                    raise Finding('SafeLearner.predict', 'kwargs are not the learner\'s', 'row %d: learner gave %r, got %r' % (r, exp_kw, kw), c)
            out['rows'].append([(repr(a), p) for a, p, _ in got])
            # ---------------- learn with what predict returned (as SequentialCB does)
            learner.learn_calls.clear()
            try:
                safe.learn(context, res[0], reward, res[1], **res[2])
            except NotBatchable as ex:
                raise Finding('SafeLearner.learn', 'batch refusal of the learner reaches the evaluator', repr(ex), c)
            except Exception as ex:   # noqa
                raise Finding('SafeLearner.learn', 'raises %s@%s' % (type(ex).__name__, where_raised(ex)), '%s: %s' % (type(ex).__name__, str(ex)[:160]), c)
            lc = learner.learn_calls
            if mode in ('row', 'col'):
                if len(lc) != 1 or not lc[0][0]:
                    raise Finding('SafeLearner.learn', 'batch-capable learner does not get exactly one batched learn call', '%d calls: %r' % (len(lc), lc[:3]), c)
                _, X, A, R, P, KW = lc[0]
                try:
                    if P is None: P = [None] * n
                    if X is None: X = [None] * n
                    seen = [(X[r], A[r], R[r], P[r], {k: KW[k][r] for k in KW}) for r in range(n)]
                    if not all(len(v) == n for v in (X, A, R, P)): raise IndexError('length')
                except Exception as ex:   # noqa
                    raise Finding('SafeLearner.learn', 'learn arguments are not one entry per row', repr(lc[0][1:]), c)
            else:
                if len(lc) != n or any(b for b, *_ in lc):
                    raise Finding('SafeLearner.learn', 'learner is not called once per row, un-batched', '%d calls for %d rows: %r' % (len(lc), n, lc[:3]), c)
                seen = [t[1:] for t in lc]
            for r, (x, a, rw, p, kw) in enumerate(seen):
                ga, gp, gkw = got[r]
                ex_x = mk_ctx(call['ctx'], c, r)
                ex_r = 0.5 + r + 10 * c if batched else 0.5 + 10 * c
                bad = ('context' if not same_ctx(x, ex_x) else 'action' if not (a == ga) else 'reward' if rw != ex_r else
                       'probability' if not (p == gp and (p is None) == (gp is None)) else 'kwargs' if dict(kw) != gkw else None)
                if bad:
                    raise Finding('SafeLearner.learn', 'learner receives another %s than predict returned / the evaluator passed' % bad,
                                  'row %d: learn got %r, expected %r' % (r, (x, a, rw, p, kw), (ex_x, ga, ex_r, gp, gkw)), c)
    except Finding as f:
        out['finding'] = f
    return out


# ------------------------------------------------------------------ classification: greedy minimisation of a failing configuration

def _ord(lst, v): return lst.index(v)


def simpler_cfgs(cfg, fcall):
    """Candidate simplifications of cfg (each changes one feature towards its simplest value), in a fixed order."""
    calls = cfg['calls']
    def w(**kw):
        d = dict(cfg); d.update(kw); return d
    def wc(i, **kw):
        cs = [dict(c) for c in calls]; cs[i].update(kw); return w(calls=cs)
    if fcall < len(calls) - 1:                       # calls after the failing one are irrelevant
        yield w(calls=[dict(c) for c in calls[:fcall + 1]]), fcall
    for i in range(fcall):                           # drop one earlier call
        yield w(calls=[dict(c) for j, c in enumerate(calls) if j != i]), fcall - 1
    last = len(calls) - 1
    for m in MODES[:_ord(MODES, cfg['mode'])]:
        yield w(mode=m), fcall
    nmax = max(c['n'] for c in calls)
    if cfg['mode'] != 'not':
        for n in range(1, nmax):
            yield w(calls=[dict(c, n=min(c['n'], n)) for c in calls]), fcall
    for k in range(0, cfg['kw']):
        yield w(kw=k), fcall
    f = cfg['fmt']
    if f[0] == 'h': yield w(fmt=f[1:]), fcall
    b = base_of(f)
    for b2 in ['A', 'AP', 'PM'][:_ord(['A', 'AP', 'PM'], b)]:
        yield w(fmt=('h' if f[0] == 'h' else '') + b2), fcall
    for name in dict.fromkeys(c['acts'] for c in reversed(calls)):        # an action set that recurs is replaced in all its calls
        if sum(c['acts'] == name for c in calls) > 1:
            for a in ACT_NAMES[:_ord(ACT_NAMES, name)]:
                if any(c['acts'] == a for c in calls): continue
                yield w(calls=[dict(c, acts=a) if c['acts'] == name else dict(c) for c in calls]), fcall
    for i in range(last, -1, -1):
        for a in ACT_NAMES[:_ord(ACT_NAMES, calls[i]['acts'])]:
            yield wc(i, acts=a), fcall
    for i in range(last + 1):
        for x in CTX_KINDS[:_ord(CTX_KINDS, calls[i]['ctx'])]:
            yield wc(i, ctx=x), fcall
    if cfg.get('seed', 1) != 1: yield w(seed=1), fcall          # 1 is SafeLearner's default seed
    if cfg.get('box', 'm') != 'm': yield w(box='m'), fcall


def find_failure(cfg, comp, mode, fcall):
    """First choice (simplest first) for which cfg shows the failure (comp, mode) in call fcall; None if there is none."""
    for ch in exec_choices(cfg):
        r = run_checked(cfg, ch)
        f = r['finding']
        if f is not None and (f.comp, f.mode, f.call) == (comp, mode, fcall): return ch, f
    return None


_MIN_CACHE = {}


def minimise(cfg, ch, f):
    ck = (json.dumps(cfg, sort_keys=True), f.comp, f.mode, f.call)
    if ck in _MIN_CACHE: return _MIN_CACHE[ck]
    cfg = json.loads(ck[0]); fcall = f.call
    if 'seed' not in cfg: cfg['seed'] = 1
    if 'box' not in cfg: cfg['box'] = 'm'
    changed = True
    while changed:
        changed = False
        for cand, fc2 in simpler_cfgs(cfg, fcall):
            hit = find_failure(cand, f.comp, f.mode, fc2)
            if hit:
                cfg, fcall, (ch, f2) = cand, fc2, hit
                f = Finding(f.comp, f.mode, f2.what, fc2)
                changed = True
                break
    _MIN_CACHE[ck] = (cfg, ch, f)
    return _MIN_CACHE[ck]


def key_of(cfg, f):
    c = cfg['calls'][f.call]
    if f.mode.startswith(ROWCALLS):      # depends on the shape of the answer relative to the batch size (square), not on one of the features below
        return '%s|%s|%s' % (f.comp, f.mode, 'first call' if f.call == 0 else 'call %d' % (f.call + 1))
    feats = ['format %s' % FMT_TEXT[cfg['fmt']], MODE_TEXT[cfg['mode']]]
    if cfg['mode'] != 'not': feats.append('%d row%s' % (c['n'], '' if c['n'] == 1 else 's'))
    feats.append(KW_TEXT[cfg['kw']])
    feats.append('actions: %s' % ACT_KIND[c['acts']])
    if f.call >= 1:
        before = [ACT_KIND[c0['acts']] + ('' if cfg['mode'] == 'not' else ' (%d rows)' % c0['n']) for c0 in cfg['calls'][:f.call]]
        feats.append('call %d after actions: %s' % (f.call + 1, ' then '.join(before)))
    if c['ctx'] != 'none': feats.append('context: %s' % c['ctx'])
    if cfg.get('box', 'm') != 'm': feats.append('containers: all %s' % ('lists' if cfg['box'] == 'l' else 'tuples'))
    if cfg.get('seed', 1) != 1: feats.append('seed %r' % (cfg['seed'],))
    return '%s|%s|%s' % (f.comp, f.mode, ', '.join(feats))


KW_TEXT = {0: 'no kwargs', 1: 'empty kwargs', 2: 'kwargs', 3: 'kwargs with list values', 4: 'two kwargs whose key order differs between rows',
           5: 'two kwargs whose key order differs between rows (first row reversed)', 6: 'three kwargs in rotated key order per row', 7: 'three kwargs in permuted key order per row'}
FMT_TEXT = {'A': 'action', 'AP': '(action, prob)', 'PM': 'PMF', 'hA': "{'action':..}", 'hAP': "{'action_prob':..}", 'hPM': "{'pmf':..}"}


def coarse_key(cfg, f):
    c = cfg['calls'][f.call]
    return 'coarse|%s|%s|%s %s kw=%d %s n=%d call=%d %s' % (f.comp, f.mode, cfg['fmt'], cfg['mode'], min(cfg['kw'], 2), c['acts'],
                                                            min(c['n'], 2) if cfg['mode'] != 'not' else 1, f.call, cfg.get('box', 'm'))


def run_checked(cfg, ch):
    """execute + the differential checks for PMF answers (same seed => same draws; batch == per-row learner)."""
    r = execute(cfg, ch)
    if r['finding'] is None and base_of(cfg['fmt']) == 'PM':
        def diff(a, b):     # index of the first demanded call whose (action, prob) rows differ
            for c, (x, y) in enumerate(zip(a['rows'], b['rows'])):
                if not isinstance(x, str) and not isinstance(y, str) and x != y: return c
        r2 = execute(cfg, ch)
        if r2['finding'] is None and diff(r, r2) is not None:
            r['finding'] = Finding('SafeLearner.predict', 'PMF answer: draws are not reproducible from the seed', '%r vs %r' % (r['rows'], r2['rows']), diff(r, r2))
        elif cfg['mode'] == 'fb':
            r3 = execute(dict(cfg, mode='row'), ch)
            if r3['finding'] is None and diff(r, r3) is not None:
                r['finding'] = Finding('SafeLearner.predict', 'PMF answer: batch-capable and per-row learner get different draws', 'per-row %r vs batch %r' % (r['rows'], r3['rows']), diff(r, r3))
    return r


# ------------------------------------------------------------------ the same answers through the real SequentialCB

def eval_rewards(acts, i):
    return [0.25 * (i + 1) + j for j in range(NACT[acts])]


class MemEnv:
    """In-memory environment: the interactions of cfg (contexts/actions exactly as in the direct executions)."""
    def __init__(self, cfg): self.cfg = cfg
    @property
    def params(self): return {}
    def read(self):
        cfg, its = self.cfg, []
        batched = cfg['mode'] != 'not'
        for c, call in enumerate(cfg['calls']):
            for r in range(call['n'] if batched else 1):
                i, acts = len(its), mk_acts(call['acts'])
                extra = {}
                if cfg.get('le'):          # logged fields: action (an offered one), its reward and its logging probability
                    li = i % len(acts)
                    extra = {'action': acts[li], 'reward': eval_rewards(call['acts'], i)[li], 'probability': 0.5}
                its.append(SimulatedInteraction(mk_ctx(call['ctx'], c, r), acts, eval_rewards(call['acts'], i), **extra))
        return list(Batch(cfg['calls'][0]['n']).filter(its)) if batched else its


def execute_eval(cfg, ch, exp_seed=None):
    """SequentialCB(record action/probability/reward, learn, eval).evaluate(environment, scripted learner) on fresh objects.
    cfg['le'] = [learn, eval] (environment with logged action/reward/probability); absent: learn='on', eval='on'."""
    fmt, kwid, mode, box, seed = cfg['fmt'], cfg['kw'], cfg['mode'], cfg.get('box', 'm'), cfg.get('seed', 1)
    learn, ev = cfg.get('le') or ('on', 'on')
    base = base_of(fmt)
    entries, plan, stop_at = build_plan(cfg, ch)
    out = {'finding': None, 'rows': [], 'demanded': stop_at is None}
    if stop_at is not None: return out
    learner = ScriptedLearner(entries, fmt, kwid, mode, box)
    comp = 'SequentialCB'
    try:
        try:
            CobaContext.store = {} if exp_seed is None else {'experiment_seed': exp_seed}
            try:
                res = list(SequentialCB(record=['reward', 'action', 'probability'], learn=learn, eval=ev, seed=seed).evaluate(MemEnv(cfg), learner))
            finally:
                CobaContext.store = {}
        except Exception as ex:   # noqa
            if isinstance(ex, NotOffered) or learner.anomalies:
                raise Finding(comp, 'learner is offered a (context, actions) pair that is not in the environment', (learner.anomalies or [str(ex)])[0])
            raise Finding(comp, 'raises %s@%s' % (type(ex).__name__, where_raised(ex)), '%s: %s' % (type(ex).__name__, str(ex)[:160]))
        if learner.anomalies:
            raise Finding(comp, 'learner is offered a (context, actions) pair that is not in the environment', learner.anomalies[0])
        flat = [(c, r, en) for c, rows in enumerate(plan) for r, en in enumerate(rows)]
        if mode == 'fb' and (learn != 'off' or ev) and not (len(learner.row_calls) == len(flat) and all(same_ctx(x, en['ctx']) for x, (_, _, en) in zip(learner.row_calls, flat))):
            raise Finding(comp, 'learner that cannot batch is not called exactly once per interaction, in order',
                          'predict was called un-batched for contexts %r, the environment has %r' % (learner.row_calls, [en['ctx'] for _, _, en in flat]))
        if ev and len(res) != len(flat):
            raise Finding(comp, 'not one result row per interaction', '%d rows for %d interactions: %r' % (len(res), len(flat), res[:3]))
        # what the learner saw in learn, one tuple per interaction
        seen = []
        for b, X, A, R, P, KW in learner.learn_calls:
            if b:
                if mode == 'fb': raise Finding(comp, 'learner is not called once per row, un-batched', repr((X, A, R, P, KW)))
                try:
                    if P is None: P = [None] * len(X)
                    seen += [(X[r], A[r], R[r], P[r], {k: KW[k][r] for k in KW}) for r in range(len(X))]
                except Exception:   # noqa
                    raise Finding(comp, 'learn arguments are not one entry per row', repr((X, A, R, P, KW)))
            else:
                if mode in ('row', 'col'): raise Finding(comp, 'batch-capable learner gets an un-batched learn call', repr((X, A, R, P, KW)))
                seen.append((X, A, R, P, KW))
        if len(seen) != len(flat):
            raise Finding(comp, 'learner does not learn once per interaction', '%d learn rows for %d interactions' % (len(seen), len(flat)))
        for i, (c, r, en) in enumerate(flat):
            ref_acts = mk_acts(en['acts'])
            rewards = eval_rewards(en['acts'], i)
            x, la, lr, lp, lkw = seen[i]
            if not same_ctx(x, en['ctx']):
                raise Finding(comp, 'learner receives another context than was predicted / recorded', 'interaction %d: learn got %r, expected context %r' % (i, seen[i], en['ctx']), c)
            a = p = rw = j = None
            if ev:          # the recorded prediction
                a, p, rw = res[i].get('action'), res[i].get('probability'), res[i].get('reward')
                j = judge_row(comp, base, ref_acts, en['choice'], a, p, r, c)
                if ev == 'on' and rw != rewards[j]:
                    raise Finding(comp, 'recorded reward is not the reward of the action taken', 'interaction %d: action %r reward %r, rewards %r' % (i, a, rw, rewards), c)
            if learn != 'off':          # the learner's own prediction is learned: action, probability and kwargs of THAT predict call
                if ev:
                    bad = 'action' if not (la == a) else 'probability' if not (lp == p and (lp is None) == (p is None)) else None
                else:
                    j = judge_row(comp, base, ref_acts, en['choice'], la, lp, r, c)
                    a, p, bad = la, lp, None
                if not bad and learn == 'on' and lr != rewards[j]: bad = 'reward'
                exp_kw = mk_kw(kwid, en['e']) or {}
                if not bad and dict(lkw) != exp_kw: bad = 'kwargs'
                if bad:
                    raise Finding(comp, 'learner receives another %s than was predicted / recorded' % bad,
                                  'interaction %d: learn got %r, expected %r' % (i, seen[i], (en['ctx'], a, rewards[j] if learn == 'on' else '<estimate>', p, exp_kw)), c)
            out['rows'].append((repr(a), p))
    except Finding as f:
        out['finding'] = f
    return out


def eval_checked(cfg, ch):
    """execute_eval + for PMF answers: the draws are a function of the evaluator's seed only - a second evaluation (later on
    the virtual clock) and an evaluation inside an experiment with another experiment_seed give the same actions."""
    r = execute_eval(cfg, ch)
    if r['finding'] is None and r['demanded'] and base_of(cfg['fmt']) == 'PM':
        r2 = execute_eval(cfg, ch)
        if r2['finding'] is None and r2['rows'] != r['rows']:
            r['finding'] = Finding('SequentialCB', 'PMF answer: the draws are not a function of the evaluator seed alone', 'two evaluations with the same seed (later on the clock): %r vs %r' % (r['rows'], r2['rows']))
            return r
        other = 7 if cfg['seed'] != 7 else 3
        r3 = execute_eval(cfg, ch, exp_seed=other)
        if r3['finding'] is None and r3['rows'] != r['rows']:
            r['finding'] = Finding('SequentialCB', 'PMF answer: the draws are not a function of the evaluator seed alone',
                                   'no experiment seed: %r, experiment_seed=%d: %r' % (r['rows'], other, r3['rows']))
    return r


def eval_cfg(fmt, kw, mode, acts, seed, le=None):
    ns = [1, 1, 1] if mode == 'not' else [2, 1]
    cfg = {'fmt': fmt, 'kw': kw, 'mode': mode, 'box': 'm', 'seed': seed, 'calls': [{'acts': acts, 'ctx': 'scalar', 'n': n} for n in ns]}
    if le: cfg['le'] = list(le)
    return cfg


LEARNS, EVALS = ['on', 'off', 'ips'], ['on', 'ips', None]


def eval_failure(cfg, mode):
    """First choice for which the evaluator run of cfg shows failure `mode` although SafeLearner driven directly is fine."""
    for ch in eval_choices(cfg):
        f = eval_checked(cfg, ch)['finding']
        if f is not None and f.mode == mode and run_checked(cfg, ch)['finding'] is None: return ch, f
    return None


_EMIN_CACHE = {}


def minimise_eval(cfg, ch, f):
    ck = (json.dumps(cfg, sort_keys=True), f.mode)
    if ck in _EMIN_CACHE: return _EMIN_CACHE[ck]
    changed = True
    while changed:
        changed = False
        fmt, kw, mode, acts, seed, le = cfg['fmt'], cfg['kw'], cfg['mode'], cfg['calls'][0]['acts'], cfg['seed'], cfg.get('le')
        cands = []
        if le:
            cands.append(eval_cfg(fmt, kw, mode, acts, seed))                 # environment without logged fields, learn='on', eval='on'
            cands += [eval_cfg(fmt, kw, mode, acts, seed, (l, le[1])) for l in LEARNS[:_ord(LEARNS, le[0])]]
            cands += [eval_cfg(fmt, kw, mode, acts, seed, (le[0], e)) for e in EVALS[:_ord(EVALS, le[1])]]
        cands += [eval_cfg(fmt, kw, m, acts, seed, le) for m in MODES[:_ord(MODES, mode)]]
        cands += [eval_cfg(fmt, k, mode, acts, seed, le) for k in range(kw)]
        if fmt[0] == 'h': cands.append(eval_cfg(fmt[1:], kw, mode, acts, seed, le))
        cands += [eval_cfg(('h' if fmt[0] == 'h' else '') + b, kw, mode, acts, seed, le) for b in ['A', 'AP', 'PM'][:_ord(['A', 'AP', 'PM'], base_of(fmt))]]
        cands += [eval_cfg(fmt, kw, mode, a, seed, le) for a in EVAL_ACTS[:_ord(EVAL_ACTS, acts)]]
        if seed != 1: cands.append(eval_cfg(fmt, kw, mode, acts, 1, le))
        for cand in cands:
            hit = eval_failure(cand, f.mode)
            if hit:
                cfg, (ch, f) = cand, hit
                changed = True
                break
    feats = []
    if cfg['fmt'] != 'A': feats.append('format %s' % FMT_TEXT[cfg['fmt']])
    if cfg['mode'] != 'not': feats.append(MODE_TEXT[cfg['mode']] + ' (batches of 2 and 1)')
    if cfg['kw']: feats.append(KW_TEXT[cfg['kw']])
    if cfg['calls'][0]['acts'] != 's': feats.append('actions: %s' % ACT_KIND[cfg['calls'][0]['acts']])
    if cfg['seed'] != 1: feats.append('evaluator seed %r' % (cfg['seed'],))
    if cfg.get('le'): feats.append('logged environment, learn=%r eval=%r' % tuple(cfg['le']))
    key = 'SequentialCB|%s|%s' % (f.mode, ', '.join(feats) or 'any format')
    _EMIN_CACHE[ck] = (key, cfg, ch, f)
    return _EMIN_CACHE[ck]


class UniformPmfLearner:
    """Answers every predict with the uniform PMF over two actions in the given format (un-batched)."""
    def __init__(self, fmt, kwid): self.fmt, self.kwid, self.learned = fmt, kwid, []
    def predict(self, context, actions):
        v = [0.5, 0.5] if self.fmt == 'PM' else {'pmf': [0.5, 0.5]}
        return v if self.kwid == 0 else (v, mk_kw(self.kwid, 1))
    def learn(self, context, action, reward, probability, **kwargs):
        self.learned.append((action, probability, kwargs))


class ListEnv:
    def __init__(self, its): self.its = its
    @property
    def params(self): return {}
    def read(self): return self.its


SEED_N = 12


def seeded_actions(which, fmt, kwid, seed, exp_seed=None):
    """The actions played over SEED_N interactions with a uniform PMF under `which` evaluator(seed=seed)."""
    CobaContext.store = {} if exp_seed is None else {'experiment_seed': exp_seed}
    try:
        lrn = UniformPmfLearner(fmt, kwid)
        if which == 'SequentialIGL':
            env = ListEnv([GroundedInteraction(i, ['a', 'b'], [1, 0], [3, 4], userid=i % 2, isnormal=True) for i in range(SEED_N)])
            out = list(SequentialIGL(record=['reward', 'feedback', 'action'], seed=seed).evaluate(env, lrn))
        else:
            env = ListEnv([SimulatedInteraction(i, ['a', 'b'], [1, 0]) for i in range(SEED_N)])
            out = list(SequentialCB(record=['reward', 'action', 'probability'], seed=seed).evaluate(env, lrn))
        return [o.get('action') for o in out], [(a, p) for a, p, _ in lrn.learned], [kw for _, _, kw in lrn.learned]
    finally:
        CobaContext.store = {}


def run_agg_pmf(seeds):
    """The draws from a uniform PMF over two actions must not all be the same action (4 seeds x 4 sequential un-batched
    predictions; 4 seeds x one 3-row batch): an answer that ignores the random stream is not 'drawn from the PMF'."""
    class Uniform:
        def predict(self, context, actions):
            if is_batch(context): return [[0.5, 0.5] for _ in context]
            return [0.5, 0.5]
    single, batch = [], []
    for seed in seeds:
        safe = SafeLearner(Uniform(), seed)
        for _ in range(4):
            a, p, _kw = safe.predict(None, ['a', 'b'])
            single.append((a, p))
        A, P, _kw = SafeLearner(Uniform(), seed).predict(Batch.List([None] * 3), Batch.List([['a', 'b'] for _ in range(3)]))
        batch += list(zip(A, P))
    return single, batch


# ------------------------------------------------------------------ the check

class C15(Check):
    ID = 'C15'
    LEVEL = 'exploration'
    ENGINE = 'ENUM'
    RULE = ('cases = (format in {action, (action,prob), PMF, {action:}, {action_prob:}, {pmf:}}) x (kwargs: none, {}, scalar payload, '
            'list+string payload, and for batches 2- and 3-key payloads whose key insertion order differs between the rows) x (layout: un-batched, row-major batch, column-major batch, learner that refuses batches) x batch size '
            '1..2 (thorough 1..3, incl. size == number of actions) x 17 action sets (strings, one int, ints, 0/1, 0..2, [0,5] [1,5] [5,0] [5,1], floats 0.0/1.0, probability-like '
            'floats, one-hot tuples of 2 and 3, lists, sparse dicts with 1 and 2 features, 1-feature dense) x context kind {None, '
            'scalar, list; for batches also context=None for the whole batch} x SafeLearner seed (PMF formats) x container types; plus two-call histories where the second call offers '
            'another action set (and another batch size), and three-call histories XXY / XYX / XYY over every ordered pair of 6 action sets with and without 0/1 (joint rotations of the answers); SafeLearner / evaluator seeds include 0 (and 0.0), contexts, kwargs values and stated probabilities include 0; plus the same answers for 3 interactions through the real SequentialCB (5 action sets, '
            'un-batched and batches of 2+1; learn in {on, off, ips} x eval in {on, ips, None} on an environment with logged action/reward/probability) and one aggregate case (uniform PMF draws over 4 seeds). Inside a single-call case EVERY assignment of named action / stated '
            'probability / PMF (one-hots, two mixed, one whose float sum is 0.9999 and for 3 actions one whose float sum is 1-2^-53) to the rows is executed; two-call cases execute all rotations (thorough, without kwargs: all rotations of the first x every assignment of the second call). Every execution '
            'builds a fresh scripted learner and SafeLearner, runs predict then learn, and compares with the reference reading. An '
            'execution is non-trivial when it is inside the property\'s quantifier (not an un-hinted PMF that could also be read as an '
            'action or (action,prob) pair), offers >= 2 actions and its whole predict+learn round trip was compared')
    ASSUMPTIONS = [
        'the learner is a pure function of the (context, actions) it is offered and always returns the OFFERED action objects; un-hinted PMF answers whose value could also be read as an offered action (e.g. [1,0] over one-hot actions) or as an (OFFERED action object, prob) pair (an entry of the offered object\'s type: 0.25 over actions [0.25,0.75]) are executed but nothing is demanded of them; a PMF with int entries over int actions 0/1 ([0,1] over [0,5]) IS demanded, because SafeLearner offers those actions as float copies to keep exactly this apart',
        'actions are compared with == (SafeLearner may hand out float copies of 0/1); the numeric type of the action is not constrained',
        'a bare action answer must be reported with probability None (the learner stated none)',
        'which action a non-degenerate PMF yields is not constrained beyond: offered, non-zero mass, reported with exactly its mass, identical for equal seeds and for batch vs per-row invocation',
        'the number of predict calls a BATCH-CAPABLE learner sees is not constrained (SafeLearner probes the layout of square batches with an extra one-row batch call); a learner that refuses batches must see exactly one un-batched predict per row, in row order, per evaluator call',
        'batched kwargs are compared per row ({k: v[row]}); the container types of the returned batch are not constrained',
        'learn is driven directly with predict\'s result and a reward, as SequentialCB does; in addition a slice (5 scalar action sets, 3 interactions, un-batched and batches of 2+1) runs through the real SequentialCB(record reward/action/probability), where the recorded action / probability / reward and the arguments of learn are compared; a failure there is reported only if SafeLearner driven directly reads the same answers correctly (otherwise the direct case reports it); with learn=\'ips\' (own prediction learned with an estimated reward) action, probability and kwargs of that predict call must arrive in learn, the reward value is left to C06; with learn=\'off\' (logged action learned) only the context is compared; eval=\'ips\' rewards are not compared; dr/dm need vowpalwabbit and are outside',
        'a column-major un-hinted PMF history whose FIRST batch is 1 row x 1 action ([[1]]: identical in row- and column-major reading, also under a one-row probe) is demanded for that first call only',
        'reproducibility: coba.random sees a virtual clock whose every reading differs; two executions with the same seed must draw the same actions, and through SequentialCB the draws under an evaluator seed must not depend on CobaContext.store["experiment_seed"]; that the evaluator and a directly built SafeLearner with the same seed draw the same is NOT demanded',
        'evaluator seeds: for SequentialCB and SequentialIGL (un-batched, uniform PMF, 12 interactions, seeds 0,1,7,8) the played actions must be reproducible, independent of experiment_seed, not identical for all seeds, and SequentialIGL(seed) must play what SequentialCB(seed) plays (it is defined as a wrapper of it); RejectionCB draws from a PMF only for ope=dr/dm (vowpalwabbit) and is outside; equality with a directly built SafeLearner(seed) is not demanded',
        'sampling: a uniform PMF over two actions must yield both actions somewhere among 16 un-batched and among 12 batched draws (seeds 1,2,3,7); no other distributional demand',
        'all rows of one batch are offered the same action set (fresh objects per row); continuous (empty) action sets are outside the alphabet',
    ]
    TECHNIQUE = ('bounded-exhaustive enumeration of prediction format x kwargs x batch layout x batch size x action type x per-row answers on the '
                 'real SafeLearner (predict + learn) against a reference reading of the scripted learner\'s answer')
    LEVEL_TEXT = ('Every documented prediction format, with and without kwargs, un-batched / row-major / column-major / per-row fallback, batch '
                  'sizes up to 3 (including the square case), over 17 action-set types and every assignment of named actions / probabilities / '
                  'PMFs to the rows, plus two-call histories with a changed action set and three-call histories that return to an earlier action set, is run on the real SafeLearner and compared with the '
                  'reference reading; exhaustive below the bound, so the smallest mis-read layout is found with certainty.')
    LEVEL_NOTE = 'small-scope hypothesis: <=3 rows, <=3 actions, <=3 calls, a fixed set of probabilities / PMFs / kwargs payloads; un-hinted value-ambiguous PMFs are excluded as the property does'
    MIN_NONTRIVIAL = {'quick': 50000, 'thorough': 500000}
    CASE_TIMEOUT = 60

    # -------------------------------------------------------------- enumeration
    def cases(self, tier):
        quick = tier == 'quick'
        sizes = [1, 2] if quick else [1, 2, 3]
        layouts = [('not', 1)] + [(m, n) for n in sizes for m in ('row', 'col', 'fb')]
        boxes = ['m'] if quick else BOXES
        def seeds(fmt): return ([0, 1] if quick else [0, 0.0, 1, 7]) if base_of(fmt) == 'PM' else [1]      # incl. the falsy but legal seeds
        yield {'agg': 'pmf-variation', 'seeds': [1, 2, 3, 7]}
        for which in ('SequentialCB', 'SequentialIGL'):
            for fmt in ('PM', 'hPM'):
                for kw in (0, 2):
                    yield {'evalseed': which, 'fmt': fmt, 'kw': kw, 'seeds': [0, 1, 7, 8]}
        # the same answers through the real SequentialCB (3 interactions; batches of 2 then 1)
        for mode in MODES:
            for acts in EVAL_ACTS:
                for fmt in FMTS:
                    for kw in tuple((0, 2) if quick else range(4)) + ((4, 6) if mode != 'not' else ()):
                        for seed in (seeds(fmt) if quick else seeds(fmt)[:3]):
                            yield dict(eval_cfg(fmt, kw, mode, acts, seed), via='eval')
        # ... and with every learn / eval mode that needs no optional package, on an environment that also carries logged fields
        for learn in LEARNS:
            for ev in EVALS:
                for mode in MODES:
                    for acts in (('s', 'i123') if quick else EVAL_ACTS):
                        for fmt in FMTS:
                            for kw in ((0, 2) if quick else range(4)):
                                for seed in seeds(fmt)[:2]:
                                    yield dict(eval_cfg(fmt, kw, mode, acts, seed, (learn, ev)), via='eval')
        # single calls
        for mode, n in layouts:
            for acts in ACT_NAMES:
                for fmt in FMTS:
                    for kw in range(4 if mode == 'not' or n == 1 else (7 if quick else 8)):
                        for ctx in CTX_KINDS:
                            if kw >= 4 and ctx in ('none', 'absent'): continue          # rows with a None context share one script entry (one key order)
                            if ctx == 'absent' and (mode == 'not' or kw in (1, 3)): continue    # un-batched it is the same as 'none'
                            for box in boxes:
                                if box != 'm' and ctx == 'list': continue
                                for seed in seeds(fmt):
                                    yield {'fmt': fmt, 'kw': kw, 'mode': mode, 'box': box, 'seed': seed, 'calls': [{'acts': acts, 'ctx': ctx, 'n': n}]}
        # two calls, the second with another action set (and, for batches, also another batch size)
        for mode, n in layouts:
            n2s = [1] if mode == 'not' else [n, 1 if n > 1 else 2] if quick else sizes
            for acts in ACT_NAMES:
                for acts2 in ACT_NAMES:
                    if acts2 == acts or acts2 in ONE_OF_01 or (acts in ONE_OF_01 and acts2 != 's'): continue      # [0,5].. only as the first call, followed by strings
                    for fmt in FMTS:
                        for kw in ((0, 2) if quick else range(4)):
                            for ctx in (('scalar',) if quick else ('none', 'scalar')):
                                for n2 in n2s:
                                    case = {'fmt': fmt, 'kw': kw, 'mode': mode, 'box': 'm', 'seed': 1,
                                            'calls': [{'acts': acts, 'ctx': ctx, 'n': n}, {'acts': acts2, 'ctx': ctx, 'n': n2}]}
                                    if not quick and kw == 0 and ctx == 'scalar': case['full2'] = 1      # every assignment of answers to the rows of the second call
                                    yield case

        # three calls over two action sets X, Y (XXY, XYX, XYY for every ordered pair): state kept from earlier calls
        for mode, n in ([('not', 1)] + [(m, 2) for m in ('row', 'col', 'fb')] if quick else layouts):
            for x in HIST3_ACTS:
                for y in HIST3_ACTS:
                    if x == y: continue
                    for pat in ((x, x, y), (x, y, x), (x, y, y)):
                        for fmt in FMTS:
                            for kw in (0, 2):
                                for ctx in (('scalar',) if quick else ('none', 'scalar')):
                                    for seed in seeds(fmt)[:2]:
                                        yield {'fmt': fmt, 'kw': kw, 'mode': mode, 'box': 'm', 'seed': seed,
                                               'calls': [{'acts': a, 'ctx': ctx, 'n': n} for a in pat]}

    # -------------------------------------------------------------- one case
    def run_case(self, case, acc):
        if 'agg' in case: return self.run_agg(case, acc)
        if 'evalseed' in case: return self.run_evalseed(case, acc)
        if case.get('via') == 'eval': return self.run_eval(case, acc)
        cfg = cfg_of(case)
        single = 'ch' in case            # a witness: one execution, classified completely
        for ch in ([case['ch']] if single else exec_choices(cfg)):
            r = run_checked(cfg, ch)
            acc.count('executions')
            f = r['finding']
            if f is None:
                if not r['demanded']:
                    acc.count('undemanded_ambiguous_pmf')
                    acc.outcome(str(r['rows'][-1]))
                    continue
                acc.outcome((cfg['fmt'], cfg['mode'], r['rows']))
                if all(NACT[c['acts']] >= 2 for c in cfg['calls']):
                    acc.mark_nontrivial({'cfg': cfg, 'ch': ch})
                continue
            acc.count('failing_executions')
            if single:
                mcfg, mch, mf = minimise(cfg, ch, f)
                acc.violation(key_of(mcfg, mf), mf.what, dict(mcfg, ch=mch))
            else:
                acc.violation(coarse_key(cfg, f), f.what, dict(cfg, ch=ch, _f=[f.comp, f.mode, f.call]))

    def run_agg(self, case, acc):
        try:
            single, batch = run_agg_pmf(case['seeds'])
        except Exception as ex:   # noqa  (reported by the ordinary cases)
            acc.outcome('agg:raises ' + type(ex).__name__); return
        acc.outcome(('agg', [a for a, _ in single + batch]))
        if any(a not in ('a', 'b') or p != 0.5 for a, p in single + batch): return          # reported by the ordinary cases
        acc.mark_nontrivial()
        for name, drawn in (('un-batched', single), ('row-major batch', batch)):
            if len({a for a, _ in drawn}) < 2:
                acc.violation('SafeLearner.predict|PMF answer: a uniform PMF yields the same action for every seed and position|%s, seeds 1,2,3,7' % name,
                              '%d draws from [0.5, 0.5] over [a, b] all gave %r' % (len(drawn), drawn[0][0]), case)

    @staticmethod
    def evalseed_finding(which, fmt, kwid, seeds, acc=None):
        """-> (failure mode, what) or None; the played sequences per seed are handed to acc.outcome."""
        exp_kw = mk_kw(kwid, 1) or {}
        seqs = {}
        for seed in seeds:
            try:
                r1 = seeded_actions(which, fmt, kwid, seed)
                r2 = seeded_actions(which, fmt, kwid, seed)
                r3 = seeded_actions(which, fmt, kwid, seed, exp_seed=5)
                cb = seeded_actions('SequentialCB', fmt, kwid, seed) if which != 'SequentialCB' else r1
            except Exception as ex:   # noqa
                return 'raises %s@%s' % (type(ex).__name__, where_raised(ex)), '%s(seed=%r): %s' % (which, seed, str(ex)[:160])
            if acc: acc.count('evaluator_executions', 4)
            if len(r1[0]) != SEED_N or any(a not in ('a', 'b') for a in r1[0]) or [a for a, _ in r1[1]] != r1[0] or any(p != 0.5 for _, p in r1[1]):
                return 'PMF answer: played / learned (action, probability) is not a draw from the uniform PMF', '%s(seed=%r): recorded %r, learned %r' % (which, seed, r1[0], r1[1])
            if any(kw != exp_kw for kw in r1[2]):
                return 'learner receives other kwargs than it returned', '%s(seed=%r): learn kwargs %r, predict gave %r' % (which, seed, r1[2][:2], exp_kw)
            if r2[0] != r1[0] or r3[0] != r1[0]:
                return ('PMF answer: the draws are not a function of the evaluator seed alone',
                        '%s(seed=%r): %r; again: %r; with experiment_seed=5: %r' % (which, seed, ''.join(r1[0]), ''.join(r2[0]), ''.join(r3[0])))
            if cb[0] != r1[0]:
                return ('PMF answer: the draws differ from those of SequentialCB with the same seed',
                        '%s(seed=%r): %r, SequentialCB(seed=%r): %r' % (which, seed, ''.join(r1[0]), seed, ''.join(cb[0])))
            seqs[repr(seed)] = ''.join(r1[0])
        if acc: acc.outcome((which, fmt, kwid, sorted(seqs.items())))
        if len(set(seqs.values())) < 2:
            return 'PMF answer: every evaluator seed gives the same draws', 'seeds %r all gave %r' % (seeds, list(seqs.values())[0])
        return None

    def run_evalseed(self, case, acc):
        """Every built-in evaluator that hands a seed to SafeLearner and lets a PMF be drawn (SequentialCB, SequentialIGL):
        the draws are a function of the evaluator's seed alone, the seed matters, and SequentialIGL(seed) plays what
        SequentialCB(seed) plays."""
        which, fmt, kwid = case['evalseed'], case['fmt'], case['kw']
        f = self.evalseed_finding(which, fmt, kwid, case['seeds'], acc)
        if f is None:
            acc.mark_nontrivial(); return
        wit = case
        for fmt0, kw0 in (('PM', 0), ('PM', kwid)):          # the same failure with a simpler answer: one key
            if (fmt0, kw0) == (fmt, kwid): break
            f0 = self.evalseed_finding(which, fmt0, kw0, case['seeds'])
            if f0 is not None and f0[0] == f[0]:
                f, wit, fmt, kwid = f0, dict(case, fmt=fmt0, kw=kw0), fmt0, kw0
                break
        acc.violation('%s|%s|format %s, %s' % (which, f[0], FMT_TEXT[fmt], KW_TEXT[kwid]), f[1], wit)

    def run_eval(self, case, acc):
        cfg = {k: case[k] for k in ('fmt', 'kw', 'mode', 'calls', 'box', 'seed')}
        if case.get('le'): cfg['le'] = list(case['le'])
        for ch in ([case['ch']] if 'ch' in case else eval_choices(cfg)):
            r = eval_checked(cfg, ch)
            acc.count('evaluator_executions')
            f = r['finding']
            if f is None:
                if r['demanded']:
                    acc.outcome(('eval', cfg['fmt'], cfg['mode'], r['rows']))
                    if NACT[cfg['calls'][0]['acts']] >= 2 and list(cfg.get('le') or ['on', 'on']) != ['off', None]:      # learn='off', eval=None: the learner never predicts
                        acc.mark_nontrivial({'via': 'eval', 'cfg': cfg, 'ch': ch})
                continue
            if run_checked(cfg, ch)['finding'] is not None:          # SafeLearner itself fails on these answers: reported by the direct cases
                acc.count('evaluator_failures_explained_by_direct_failure'); continue
            key, mcfg, mch, mf = minimise_eval(cfg, ch, f)
            acc.violation(key, mf.what, dict(mcfg, via='eval', ch=mch))

    def post(self, acc, tier):
        """Parent side: every provisional (coarse) class is minimised to its smallest failing configuration, which gives
        the final key (component | failure mode | minimal discriminating features) and the replay witness."""
        final = {}
        for ck, (order, what, wit) in sorted(acc.violations.items(), key=lambda kv: (kv[1][0], kv[0])):
            if not ck.startswith('coarse|'):
                final.setdefault(ck, (order, what, wit)); continue
            comp, mode, call = wit['_f']
            cfg = cfg_of(wit)
            mcfg, mch, mf = minimise(cfg, wit['ch'], Finding(comp, mode, what, call))
            k = key_of(mcfg, mf)
            if k not in final: final[k] = (order, mf.what, dict(mcfg, ch=mch))
        ncoarse = len(acc.violations)
        acc.violations.clear()
        acc.violations.update(final)
        return {'provisional_failure_classes': ncoarse}


CHECK = C15()
