"""C09 - ordering and selection filters keep exactly the interactions they promise (ENUM engine).

Every (filter, parameter values, interaction sequence) below the bound is run on the REAL coba filter, three times
(fresh filter on a list input, fresh filter on a one-shot iterator input, the first filter object re-used on a new
list input), and every run is compared with a plain-Python reference model:

  Shuffle / Riffle      permutation of the input, identical in all three runs (determined by the seed)
  Sort                  sorted(key=...) (stable) by the chosen context keys (sparse: absent key = 0)
  Take / Slice          list slicing; strict Take: the first n or nothing
  Reservoir             min(n,N) distinct inputs, identical in all three runs; strict: n or nothing
  Where                 whole sequence dropped by interaction count / feature count, interactions kept by action count
  Cache, Chunk, Params, Identity, Batch|Unbatch, Batch|BatchSafe(Identity)|Unbatch     identity

For all: each output interaction has the content of the input interaction with the same tag, and the caller's
input list and interactions are left unmodified.
"""
import itertools

from vf.core import Check

from coba import pipes as cpipes
from coba.environments import filters as ef
from coba.primitives import (SimulatedInteraction, LoggedInteraction, GroundedInteraction,
                             DiscreteReward, BinaryReward)
from coba.context import CobaContext, NullLogger, MemoryCacher
from coba.environments import Environments
from coba.primitives import Environment

CobaContext.logger = NullLogger()
CobaContext.cacher = MemoryCacher()
CobaContext.search_paths = []

KINDS = ['sim', 'log', 'gnd']
CTXS = ['dense', 'sparse', 'scalar', 'none']

# ------------------------------------------------------------------ interaction sequences (built fresh from a descriptor)

DENSE_DEFAULT = [[1, 0], [0, 1], [1, 1], [1, 0], [0, 0], [0, 1], [1, 1]]          # ties on both features
SPARSE_DEFAULT = [{'a': 1, 'b': 2}, {'a': 2, 'b': 1}, {'a': 1, 'b': 1}, {'a': 2, 'b': 2}, {'a': 1, 'b': 2}, {'a': 3, 'b': 1}, {'a': 2, 'b': 1}]
SCALAR_DEFAULT = [0, 2, 1, 0, 3, 2, 1]
SPARSE_CODES = [{}, {'a': 1}, {'a': -1}, {'a': 1, 'b': 1}, {'b': 1}]
ACT_PATTERNS = {'var': [2, 3, 1, 5, 2, 3, 1], 'const': [2] * 7}


def context_of(sd, i):
    ctx = sd['ctx']
    cv = sd.get('cv')
    if ctx == 'dense':
        if cv is not None: return [cv[i] >> 1, cv[i] & 1]
        return list(DENSE_DEFAULT[i])
    if ctx == 'sparse':
        if cv is not None: return dict(SPARSE_CODES[cv[i]])
        return dict(SPARSE_DEFAULT[i])
    if ctx == 'scalar': return SCALAR_DEFAULT[i]
    return None


def actions_of(sd, i):
    n = ACT_PATTERNS[sd.get('acts', 'var')][i]
    ctx = sd['ctx']
    if ctx == 'dense': return [tuple(1 if k == j else 0 for k in range(n)) for j in range(n)]
    if ctx == 'sparse': return [{'x': j + 1} for j in range(n)]
    if ctx == 'scalar': return ['a%d' % j for j in range(n)]
    return list(range(n))


def build_seq(sd):
    """A fresh list of fresh interactions for the sequence descriptor (no object is shared between two calls)."""
    out = []
    kind, ctx = sd['kind'], sd['ctx']
    for i in range(sd['n']):
        c = context_of(sd, i)
        A = actions_of(sd, i)
        n = len(A)
        R = [round(0.25 * i + 0.5 * j, 2) for j in range(n)]
        if kind == 'sim':
            if ctx == 'sparse': rw = DiscreteReward(A, R)
            elif ctx == 'none': rw = BinaryReward(A[i % n])
            else: rw = R
            it = SimulatedInteraction(c, A, rw, tag=i)
        elif kind == 'log':
            kw = {'tag': i}
            if ctx != 'scalar': kw['actions'] = A
            it = LoggedInteraction(c, A[i % n], R[i % n], (None if ctx == 'sparse' else round(1 / n, 3)), **kw)
        else:
            fb = DiscreteReward(A, [r + 10 for r in R]) if ctx in ('dense', 'none') else [r + 10 for r in R]
            it = GroundedInteraction(c, A, R, fb, userid=i % 2, isnormal=(i % 3 == 0), tag=i)
        out.append(it)
    return out


def same(a, b):
    """Deep content equality that also compares the types of values (1 vs 1.0, list vs tuple)."""
    if a is b: return True
    if type(a) is not type(b): return False
    if isinstance(a, dict):
        return a.keys() == b.keys() and all(same(a[k], b[k]) for k in a)
    if isinstance(a, (list, tuple)):
        return len(a) == len(b) and all(same(x, y) for x, y in zip(a, b))
    if callable(a):
        try:
            return bool(a == b) and repr(a) == repr(b)
        except Exception:   # noqa
            return False
    return a == b


def same_inter(o, ref):
    """An output interaction has the content of the reference interaction: same keys, deeply equal values.
    The dict subclass is not content (coba: "the only assumption made by Coba is that interactions are a dict")."""
    return isinstance(o, dict) and o.keys() == ref.keys() and all(same(o[k], ref[k]) for k in ref)


def feat_count(ctx):
    if ctx is None: return 0
    if isinstance(ctx, (dict, list, tuple)): return len(ctx)
    return 1


def in_bounds(v, spec):
    if spec is None: return True
    if isinstance(spec, int): return v == spec
    lo, hi = spec
    return (lo is None or lo <= v) and (hi is None or v <= hi)


def shape(spec):
    if spec is None: return 'unset'
    if isinstance(spec, int): return 'exact'
    lo, hi = spec
    if lo is None and hi is None: return 'open'
    if lo is None: return 'max-only'
    if hi is None: return 'min-only'
    return 'two-sided lo<hi' if lo < hi else 'two-sided lo=hi'


# ------------------------------------------------------------------ parameter alphabets

BOUNDS = [None, 0, 1, 2, 3, 5, 9]


def bound_specs():
    out = [None] + [b for b in BOUNDS if b is not None]
    for lo in BOUNDS:
        for hi in BOUNDS:
            if lo is not None and hi is not None and lo > hi: continue
            out.append([lo, hi])
    return out


SPECS = bound_specs()                                   # 41 specs: unset, 6 exact, 34 ranges
SMALL2 = {'ni': [None, [1, 3]], 'na': [None, [2, 3]], 'nf': [None, [1, 2]]}      # the parameters that are not swept: unset or one binding range


def where_params(tier):
    seen = set()
    names = ['ni', 'na', 'nf']
    if tier == 'quick':      # one parameter over the full alphabet, the two others unset or one binding range
        for prim in names:
            others = [n for n in names if n != prim]
            for s in SPECS:
                for o1 in SMALL2[others[0]]:
                    for o2 in SMALL2[others[1]]:
                        p = {prim: s, others[0]: o1, others[1]: o2}
                        k = repr(sorted(p.items()))
                        if k not in seen:
                            seen.add(k); yield p
    else:                    # every pair of parameters over the full alphabet, the third unset or one binding range
        for a, b in itertools.combinations(names, 2):
            c = [n for n in names if n not in (a, b)][0]
            for sa in SPECS:
                for sb in SPECS:
                    for sc in SMALL2[c]:
                        p = {a: sa, b: sb, c: sc}
                        k = repr(sorted(p.items()))
                        if k not in seen:
                            seen.add(k); yield p


def counts_for(N):
    out = []
    for n in [0, 1, 2, N - 1, N, N + 1, N + 2, None]:
        if (n is None or n >= 0) and n not in out: out.append(n)
    return out


def flavours():
    return [(k, c) for c in CTXS for k in KINDS]


def filter_cases(N, tier):
    """(filter name, params) for sequences of length N, cheap filters first."""
    for f in ('Identity', 'Chunk', 'Params'):
        yield f, {}
    for n in counts_for(N):
        for strict in (False, True):
            yield 'Take', {'n': n, 'strict': strict}
    for start in (None, 0, 1, 3):
        for stop in (None, 0, 2, N, N + 2):
            for step in (1, 2, 3):
                yield 'Slice', {'start': start, 'stop': stop, 'step': step}
    for seed in (0, 1, 2, 7):
        for cls in ('env', 'pipes'):
            yield 'Shuffle', {'seed': seed, 'cls': cls}
    for n in counts_for(N):
        for seed in ((1, 5) if tier == 'quick' else (1, 2, 3, 5, 8, 1.5)):      # 1 and 5 sample differently already for N=3
            for strict in (False, True):
                yield 'Reservoir', {'n': n, 'seed': seed, 'strict': strict}
    for spacing in (1, 2, 3):
        for seed in ((1, 5, 7) if tier == 'quick' else (1, 2, 3, 5, 7)):          # seeds 1 and 2 riffle identically up to N=5
            yield 'Riffle', {'spacing': spacing, 'seed': seed}
    for n_slice in (25, 1, 2):
        for abandon in (None, 0, 1, 2, 3):
            if abandon is not None and abandon > N: continue
            yield 'Cache', {'n_slice': n_slice, 'abandon': abandon}
    for k in (None, 1, 2, 3, N + 1):
        yield 'BatchUnbatch', {'k': k}
        if k: yield 'BatchSafe', {'k': k}


class MemEnv(Environment):
    """An in-memory source: every read builds the sequence afresh from its descriptor."""
    def __init__(self, sd): self._sd = sd
    @property
    def params(self): return {}
    def read(self): return build_seq(self._sd)


def facade(f, p, *sds):
    """The same filter reached through the Environments facade (coba/environments/core.py), over one or more environments."""
    e = Environments([MemEnv(sd) for sd in sds])
    t = lambda s: tuple(s) if isinstance(s, list) else s
    if f == 'Identity': return e.filter(ef.Identity())
    if f == 'Chunk': return e.chunk(cache=False)
    if f == 'Params': return e.params({'a': 1})
    if f == 'Take': return e.take(p['n'], p['strict'])
    if f == 'Slice': return e.slice(p['start'], p['stop'], p['step'])
    if f == 'Shuffle': return e.shuffle(p['seed'])
    if f == 'Reservoir': return e.reservoir(p['n'], p['seed'], p['strict'])
    if f == 'Riffle': return e.riffle(p['spacing'], p['seed'])
    if f == 'Sort': return e.sort(list(p['keys'])) if p['form'] == 'list' else e.sort(*p['keys'])
    if f == 'Where': return e.where(n_interactions=t(p['ni']), n_actions=t(p['na']), n_features=t(p['nf']))
    if f == 'Cache': return e.cache()
    if f == 'BatchUnbatch': return e.batch(p['k']).unbatch()
    raise ValueError(f)


FACADE_FLAVOURS = [('sim', 'dense'), ('log', 'sparse'), ('gnd', 'none')]


# object-history cases: ONE filter object (or one Environments.<method>() call) over two different sequences A and B
HIST_FLAVOURS = {
    'quick': [(('sim', 'dense'), ('sim', 'dense')), (('sim', 'dense'), ('log', 'dense')), (('log', 'sparse'), ('sim', 'dense')),
              (('gnd', 'none'), ('sim', 'scalar')), (('log', 'dense'), ('log', 'dense')), (('sim', 'dense'), ('sim', 'sparse'))],
}
HIST_FLAVOURS['thorough'] = HIST_FLAVOURS['quick'] + [(('sim', 'sparse'), ('sim', 'sparse')), (('sim', 'scalar'), ('gnd', 'dense')),
                                                      (('log', 'none'), ('log', 'sparse')), (('gnd', 'dense'), ('gnd', 'dense'))]
HIST_FACADE_FLAVOURS = {'quick': HIST_FLAVOURS['quick'][:3], 'thorough': HIST_FLAVOURS['quick']}
HIST_WHERE = [{'ni': ni, 'na': na, 'nf': nf} for ni in (None, 2, [1, 3], [None, 2], [3, None]) for na in (None, [2, 3]) for nf in (None, [1, 2])]


def hist_filter_cases(M, tier, ctxA):
    """(filter, params) of the object-history cases for a pair whose longer sequence has M interactions.
    Cache and Chunk are left out: the statement only makes them the identity on the stream they are attached to
    (Cache is stateful by design: it keeps the first stream it sees)."""
    for f, p in filter_cases(M, tier):
        if f in ('Cache', 'Chunk'): continue
        yield f, p
    yield from hist_extra(ctxA)


def hist_extra(ctxA):
    # key 0 is legal on dense (index) and on sparse contexts (absent key), so it survives a change of representation
    for keys in (([], [0], ['a'], ['b', 'a']) if ctxA == 'sparse' else ([], [0], [1, 0])):
        yield 'Sort', {'keys': keys, 'form': 'args'}
    for p in HIST_WHERE:
        yield 'Where', p


def hist_cases(M, tier):
    for nA in range(M + 1):
        for nB in range(M + 1):
            if max(nA, nB) != M: continue
            for (kA, cA), (kB, cB) in HIST_FLAVOURS[tier]:
                if nA == nB and (kA, cA) == (kB, cB): continue          # that is the plain re-use run of the single-sequence cases
                A = {'n': nA, 'kind': kA, 'ctx': cA}; B = {'n': nB, 'kind': kB, 'ctx': cB}
                for f, p in hist_filter_cases(M, tier, cA):
                    yield {'f': f, 'p': p, 'A': A, 'B': B, 'via': 'reuse'}
            for (kA, cA), (kB, cB) in HIST_FACADE_FLAVOURS[tier]:
                A = {'n': nA, 'kind': kA, 'ctx': cA}; B = {'n': nB, 'kind': kB, 'ctx': cB}
                for f, p in itertools.chain(filter_cases(M, tier), hist_extra(cA)):
                    if f == 'BatchSafe' or (f == 'Shuffle' and p['cls'] != 'env') or (f == 'Cache' and (p['abandon'] is not None or p['n_slice'] != 25)): continue
                    if f == 'Reservoir' and not isinstance(p['seed'], int): continue
                    yield {'f': f, 'p': p, 'A': A, 'B': B, 'via': 'facade2'}


def length_relation(prev, cur):
    return 'after a shorter sequence' if prev < cur else 'after a longer sequence' if prev > cur else 'after an equally long sequence'


class _Rec:
    """Collects what one evaluation of a case reports (so that a case can be re-evaluated with fewer parameters)."""
    def __init__(self):
        self.violations = []; self.outcomes = []; self.counts = []; self.nontrivial = False
    def violation(self, key, what, witness=None): self.violations.append((key, what))
    def outcome(self, sig): self.outcomes.append(sig)
    def count(self, name, n=1): self.counts.append(name)
    def mark_nontrivial(self): self.nontrivial = True


class C09(Check):
    ID = 'C09'
    LEVEL = 'exploration'
    ENGINE = 'ENUM'
    RULE = ('cases = (filter, parameter values, interaction sequence): sequences of length 0..4 (thorough 0..6) of uniquely tagged '
            'interactions x {simulated, logged, grounded} x context {dense with ties, sparse, scalar, None} with per-interaction varying '
            'action counts; Shuffle seeds {0,1,2,7} (environment and pipes class), Take n in {0,1,2,N-1..N+2,None} x strict, Slice '
            'start x stop x step, Reservoir n x seed x strict, Riffle spacing x seed, Sort key lists x ALL context-value sequences over a '
            '4 (dense) / 5 (sparse, with absent keys) letter alphabet, Where n_interactions/n_actions/n_features over {unset, exact k, '
            '(lo,hi)} with lo,hi in {None,0,1,2,3,5,9} (quick: one parameter over all 41 specs x the two others in {unset, one binding range}; thorough: every pair over 41x41 x the third in {unset, one binding range}), Cache '
            '(n_slice x abandoned first read), Chunk, Params, Identity, Batch(k)|Unbatch, Batch(k)|BatchSafe(Identity)|Unbatch; plus the same filters reached through the Environments facade on 3 flavours (differential against the direct filter, tags only); all '
            'object histories: ONE filter object applied to sequence A, then to a different sequence B, then to A again, for every pair of lengths 0..5 x 0..5 (thorough 0..6 x 0..6) x 6 (thorough 10) flavour pairs (same / other kind / other context representation) x the parameter alphabets above (Sort keys incl. key 0 which is legal on dense and sparse; 20 Where specs; Cache and Chunk excluded), each output compared with a fresh filter of equal parameters, the reference model and the input content; the same through ONE Environments.<method>() call over two environments (each member vs. the method applied to it alone, tags only, Cache/Chunk included because the facade attaches one per environment); all '
            'enumerated exhaustively, shortest sequences first; every single-sequence case runs the real filter on a list input, on a one-shot '
            'iterator input and re-uses the filter object. A case is non-trivial when the reference output differs from the input '
            'sequence (re-ordered / shortened / dropped) or, for the identity filters, when the sequence is non-empty')
    ASSUMPTIONS = [
        'which permutation Shuffle/Riffle produce and which subset/order Reservoir produces are not constrained (only permutation / distinctness / count / determinism)',
        'determinism is demanded between fresh filters with equal seed, between list and iterator inputs, and for a completely consumed filter object that is re-used on the same or on a different sequence (output = what a fresh filter with the same parameters gives); reads abandoned half-way are left to C04 (except for Cache, whose re-read must still be the identity)',
        'Cache and Chunk are only demanded to be the identity on the stream they are attached to: a Cache/Chunk object moved to another stream is outside the statement (Cache keeps the first stream it sees by design)',
        'in an object history a step on which a fresh filter raises (e.g. Sort with an index key on the other context representation) is not judged',
        'Sort on scalar or None contexts, and Sort without keys on sparse contexts, may raise; if they return, the output must be a permutation with unaltered content',
        'Sort on a sparse context that lacks a chosen key: absent = 0 ordering or an exception are both accepted',
        'Where(n_actions=...) on logged interactions without an "actions" entry may raise (statement is silent)',
        'Where feature count = number of context features (None: 0, scalar: 1, dense/sparse: len); when interactions of one sequence disagree the environment may be kept or dropped',
        'the dict subclass of an output interaction and the order of its keys are not content; values are compared deeply including their types',
        'content and the reference models are checked on filter.filter(seq) directly; through the Environments facade (which appends Finalize and legitimately re-represents values) only the tags are compared with the direct filter, and an exception on an empty result is accepted',
        'illegal parameters (negative counts, lo>hi, None seeds) are outside the alphabet',
    ]
    TECHNIQUE = 'bounded-exhaustive enumeration of filter parameters x tagged interaction sequences on the real filters vs. plain-Python reference models (list slicing, sorted, bounds arithmetic)'
    LEVEL_TEXT = ('Every filter of the property is run on every tagged interaction sequence of length <=4 (thorough <=6) over 12 '
                  'interaction flavours and on its full parameter alphabet and compared with a reference model; exhaustive below the '
                  'bound, so the shortest counterexample of each failure class is found with certainty.')
    LEVEL_NOTE = 'small-scope hypothesis: sequences <=6 interactions, bounds from {None,0,1,2,3,5,9}, a handful of seeds; the particular permutation / sample is unconstrained'
    MIN_NONTRIVIAL = {'quick': 20000, 'thorough': 200000}
    CASE_TIMEOUT = 30

    # -------------------------------------------------------------- enumeration
    def cases(self, tier):
        maxn = 4 if tier == 'quick' else 6
        flv = flavours()
        wparams = list(where_params(tier))
        for N in range(0, maxn + 1):
            for f, p in filter_cases(N, tier):
                for kind, ctx in flv:
                    yield {'f': f, 'p': p, 's': {'n': N, 'kind': kind, 'ctx': ctx}}
            for f, p in filter_cases(N, tier):
                if f == 'BatchSafe' or (f == 'Shuffle' and p['cls'] != 'env') or (f == 'Cache' and (p['abandon'] is not None or p['n_slice'] != 25)): continue
                if f == 'Reservoir' and not isinstance(p['seed'], int): continue      # Environments.reservoir documents int seeds only
                for kind, ctx in FACADE_FLAVOURS:
                    yield {'f': f, 'p': p, 's': {'n': N, 'kind': kind, 'ctx': ctx}, 'via': 'facade'}
            for keys in ([], [0], [1, 0]):
                yield {'f': 'Sort', 'p': {'keys': keys, 'form': 'args'}, 's': {'n': N, 'kind': 'sim', 'ctx': 'dense'}, 'via': 'facade'}
            for p in ({'ni': [1, 2], 'na': None, 'nf': None}, {'ni': N, 'na': [2, 3], 'nf': None}, {'ni': [None, N], 'na': None, 'nf': [1, 2]}, {'ni': [N + 1, None], 'na': None, 'nf': None}):
                yield {'f': 'Where', 'p': p, 's': {'n': N, 'kind': 'sim', 'ctx': 'dense'}, 'via': 'facade'}
            # Sort: every sequence of context values
            for ctx, nletters, keysets in (('dense', 4, ([], [0], [1], [0, 1], [1, 0])),
                                           ('sparse', 5, (['a'], ['b'], ['a', 'b'], ['b', 'a'], ['c'], []))):
                kinds = KINDS if (ctx == 'dense' and (tier != 'quick' or N <= 3)) else ['sim', 'log'] if ctx == 'sparse' and N <= 3 else ['sim']
                for cv in itertools.product(range(nletters), repeat=N):
                    for keys in keysets:
                        for form in (('args',) if len(keys) < 2 else ('args', 'list')):
                            for kind in kinds:
                                yield {'f': 'Sort', 'p': {'keys': keys, 'form': form}, 's': {'n': N, 'kind': kind, 'ctx': ctx, 'cv': list(cv)}}
            for ctx in ('scalar', 'none'):
                for keys in ([], [0]):
                    for kind in KINDS:
                        yield {'f': 'Sort', 'p': {'keys': keys, 'form': 'args'}, 's': {'n': N, 'kind': kind, 'ctx': ctx}}
            # Where
            for p in wparams:
                for kind, ctx in flv:
                    for acts in ('var', 'const'):
                        if acts == 'const' and p['na'] is None: continue
                        yield {'f': 'Where', 'p': p, 's': {'n': N, 'kind': kind, 'ctx': ctx, 'acts': acts}}
            # one filter object / one Environments call over two different sequences whose longer one has N interactions
            yield from hist_cases(N, tier)
        if tier == 'quick':
            yield from hist_cases(maxn + 1, tier)        # object histories over lengths 0..5 x 0..5

    # -------------------------------------------------------------- real filters
    @staticmethod
    def make(f, p):
        if f == 'Identity': return ef.Identity()
        if f == 'Chunk': return ef.Chunk()
        if f == 'Params': return ef.Params({'a': 1})
        if f == 'Take': return ef.Take(p['n'], p['strict'])
        if f == 'Slice': return ef.Slice(p['start'], p['stop'], p['step'])
        if f == 'Shuffle': return (ef.Shuffle if p['cls'] == 'env' else cpipes.Shuffle)(p['seed'])
        if f == 'Reservoir': return ef.Reservoir(p['n'], strict=p['strict'], seed=p['seed'])
        if f == 'Riffle': return ef.Riffle(p['spacing'], p['seed'])
        if f == 'Sort': return ef.Sort(list(p['keys'])) if p['form'] == 'list' else ef.Sort(*p['keys'])
        if f == 'Where':
            t = lambda s: tuple(s) if isinstance(s, list) else s
            return ef.Where(n_interactions=t(p['ni']), n_actions=t(p['na']), n_features=t(p['nf']))
        if f == 'Cache': return ef.Cache(p['n_slice'])
        if f == 'BatchUnbatch': return cpipes.Pipes.join(ef.Batch(p['k']), ef.Unbatch())
        if f == 'BatchSafe': return cpipes.Pipes.join(ef.Batch(p['k']), ef.BatchSafe(ef.Identity()), ef.Unbatch())
        raise ValueError(f)

    # -------------------------------------------------------------- reference model
    @staticmethod
    def expect(f, p, sd, seq):
        """-> dict(kind='exact'|'perm'|'distinct'|'any-perm', tags=[..] | k=int, allow_exc=bool)"""
        N = len(seq)
        ident = list(range(N))
        if f in ('Identity', 'Chunk', 'Params', 'Cache', 'BatchUnbatch', 'BatchSafe'):
            return {'kind': 'exact', 'tags': ident}
        if f == 'Take':
            n, strict = p['n'], p['strict']
            if n is None: return {'kind': 'exact', 'tags': ident}
            if strict and N < n: return {'kind': 'exact', 'tags': []}
            return {'kind': 'exact', 'tags': ident[:n]}
        if f == 'Slice':
            return {'kind': 'exact', 'tags': ident[p['start']:p['stop']:p['step']]}
        if f in ('Shuffle', 'Riffle'):
            return {'kind': 'perm'}
        if f == 'Reservoir':
            n, strict = p['n'], p['strict']
            if n is None: return {'kind': 'perm'}
            if strict and N < n: return {'kind': 'exact', 'tags': []}
            return {'kind': 'distinct', 'k': min(n, N)}
        if f == 'Sort':
            keys, ctx = p['keys'], sd['ctx']
            if ctx in ('scalar', 'none') or (ctx == 'sparse' and not keys):
                return {'kind': 'perm', 'allow_exc': True}
            if ctx == 'dense':
                kf = (lambda i: tuple(seq[i]['context'])) if not keys else (lambda i: tuple(seq[i]['context'][k] for k in keys))
                return {'kind': 'exact', 'tags': sorted(ident, key=kf)}
            missing = any(k not in it['context'] for it in seq for k in keys)
            kf = lambda i: tuple(seq[i]['context'].get(k, 0) for k in keys)
            return {'kind': 'exact', 'tags': sorted(ident, key=kf), 'allow_exc': missing}
        if f == 'Where':
            allow = p['na'] is not None and any('actions' not in it for it in seq)
            if not in_bounds(N, p['ni']):
                return {'kind': 'exact', 'tags': [], 'why': 'ni', 'allow_exc': allow}
            fin = [in_bounds(feat_count(it['context']), p['nf']) for it in seq]
            if fin and not any(fin):
                return {'kind': 'exact', 'tags': [], 'why': 'nf', 'allow_exc': allow}
            if allow:
                return {'kind': 'skip', 'allow_exc': True}
            kept = [i for i in ident if in_bounds(len(seq[i]['actions']), p['na'])] if p['na'] is not None else ident
            return {'kind': 'exact', 'tags': kept, 'or_empty': not all(fin), 'why': 'na'}
        raise ValueError(f)

    @staticmethod
    def feature(f, p, sd):
        """The coarse parameter class that goes into a violation key (no input-dependent values)."""
        if f == 'Take': return f"count={'None' if p['n'] is None else 'int'} strict={p['strict']}"
        if f == 'Slice': return f"start={'None' if p['start'] is None else 'int'} stop={'None' if p['stop'] is None else 'int'} step={'1' if p['step'] == 1 else '>1'}"
        if f == 'Shuffle': return f"{p['cls']} {sd['kind'] if sd['kind'] == 'log' else 'not-logged'}"
        if f == 'Reservoir': return f"count={'None' if p['n'] is None else '0' if p['n'] == 0 else 'int'} strict={p['strict']}"
        if f == 'Sort': return f"{sd['ctx']} keys={min(len(p['keys']), 2)}"
        if f == 'Where':
            return '; '.join(f'{long} {shape(p[k])}' for k, long in (('ni', 'n_interactions'), ('na', 'n_actions'), ('nf', 'n_features')) if p[k] is not None) or 'no bounds'
        if f == 'Cache': return f"abandoned={'no' if p['abandon'] is None else 'yes'}"
        if f in ('BatchUnbatch', 'BatchSafe'): return f"batch_size={'None' if p['k'] is None else 'int'}"
        if f == 'Riffle': return 'spacing x seed'
        return 'no parameters'

    # -------------------------------------------------------------- one run of the real filter
    def run_real(self, flt, f, p, items, first_use, sd):
        """-> ('ok', [output interactions]) or ('exc', exception)"""
        try:
            if f == 'Cache' and p['abandon'] is not None and first_use:
                g = flt.filter(items)
                for _ in range(p['abandon']): next(g, None)
                g.close()
                items = build_seq(sd)     # a pipeline re-read hands the filter a new read of the same source
            return 'ok', list(flt.filter(items))
        except Exception as e:   # noqa
            return 'exc', e

    def run_case(self, case, acc):
        acc.count('cases_' + case['f'])
        rec = _Rec()
        self._eval(case, rec)
        if rec.violations and case['f'] == 'Where':
            # classify by a smallest set of Where parameters that still violates (greedy, fixed order), so that one root
            # cause does not fan out over every combination of the two unrelated parameters
            cur = dict(case['p'])
            for name in ('ni', 'na', 'nf'):
                if cur[name] is None: continue
                trial = dict(cur); trial[name] = None
                r2 = _Rec()
                self._eval(dict(case, p=trial), r2)
                if r2.violations: cur = trial
            r3 = _Rec()
            self._eval(dict(case, p=cur), r3)
            if r3.violations: rec.violations = r3.violations; case = dict(case, p=cur)
        for key, what in rec.violations: acc.violation(key, what, case)
        for o in rec.outcomes: acc.outcome(o)
        for n in rec.counts: acc.count(n)
        if rec.nontrivial: acc.mark_nontrivial()

    def _eval_facade(self, case, acc):
        """Differential: the filter reached through the Environments facade must select/order (by tag) exactly like the
        directly constructed filter (whose output is compared with the reference model by the direct cases).
        Content is not compared here: Environments appends Finalize, which legitimately re-represents values."""
        f, p, sd = case['f'], case['p'], case['s']
        N = sd['n']
        comp = 'Environments.' + {'BatchUnbatch': 'batch.unbatch', 'Identity': 'filter'}.get(f, f.lower())
        feat = self.feature(f, p, sd)
        K = lambda mode, extra=None: f"{comp}|{mode}|{extra if extra is not None else feat}"
        try:
            direct = [o.get('tag') for o in self.make(f, p).filter(build_seq(sd))]
        except Exception:   # noqa   (reported by the direct case)
            acc.outcome(f'{comp}:direct filter raises'); return
        runs = []
        for _ in range(2):
            try:
                envs = facade(f, p, sd)
                if len(envs) != 1:
                    acc.violation(K('not one environment per input environment'), f'{len(envs)} environments'); return
                tags = [o.get('tag') for o in envs[0].read()]
            except Exception as e:   # noqa
                if not direct:       # Finalize may reject an empty environment: not demanded
                    acc.outcome(f'{comp}:rejected:{type(e).__name__}'); return
                acc.violation(K(f'raises {type(e).__name__} where the filter itself does not'), f'{comp}({p}) on {N} {sd["kind"]}/{sd["ctx"]} interactions raised {e!r}'); return
            if tags != direct:
                acc.violation(K('differs from the directly applied filter'), f'{comp}({p}) on {N} {sd["kind"]}/{sd["ctx"]} interactions -> tags {tags}, {f}({p}).filter -> {direct}'); return
            runs.append(tags)
        acc.outcome((comp, tuple(runs[0])))
        if runs[0] != list(range(N)) or (f in ('Chunk', 'Params', 'Cache', 'BatchUnbatch', 'Identity') and N >= 1): acc.mark_nontrivial()

    def _eval_reuse(self, case, acc):
        """ONE filter object applied to A, then to a different sequence B, then to A again: every output must be what a
        fresh filter with the same parameters gives on that input, must satisfy the reference model and keep the content."""
        f, p, A, B = case['f'], case['p'], case['A'], case['B']
        feat = self.feature(f, p, A)
        fresh = {}
        for name, sd in (('A', A), ('B', B)):
            try:
                fresh[name] = [o.get('tag') for o in self.make(f, p).filter(build_seq(sd))]
            except Exception:   # noqa   (a parameter/sequence combination the filter rejects: judged by the single-sequence cases)
                fresh[name] = None
        try:
            flt = self.make(f, p)
        except Exception:       # noqa   (reported by the single-sequence cases)
            return
        steps = (('A', A, None), ('B', B, A), ('A', A, B))
        for idx, (name, sd, prev) in enumerate(steps):
            N = sd['n']
            rel = 'first use' if prev is None else length_relation(prev['n'], N)
            K = lambda mode, extra=None: f"{f}|{mode}|{extra if extra is not None else feat}; {rel}"
            snap = build_seq(sd); inp = build_seq(sd); orig = list(inp)
            try:
                out = list(flt.filter(inp))
            except Exception as e:   # noqa
                if fresh[name] is None:
                    acc.outcome(f'{f}:rejected:{type(e).__name__}'); continue
                acc.violation(K(f'raises {type(e).__name__} only after the filter object was applied to another sequence'),
                              f'{f}({p}) on {N} {sd["kind"]}/{sd["ctx"]} interactions (use #{idx + 1} of the object) raised {e!r}; a fresh filter returns tags {fresh[name]}'); return
            if len(inp) != N or any(a is not b for a, b in zip(inp, orig)):
                acc.violation(K('caller list modified (order/length)'), f'input list changed to tags {[x.get("tag") for x in inp]}'); return
            tags = []
            for o in out:
                t = o.get('tag') if isinstance(o, dict) else None
                if not isinstance(t, int) or isinstance(t, bool) or not (0 <= t < N):
                    acc.violation(K('output is not an interaction of the current input'), f'use #{idx + 1}: output item {o!r}'); return
                if not same_inter(o, snap[t]):
                    acc.violation(K('interaction content altered', f'{sd["kind"]}/{sd["ctx"]}'), f'expected {dict(snap[t])!r}, got {dict(o)!r}'); return
                tags.append(t)
            if fresh[name] is None: continue
            if tags != fresh[name]:
                acc.violation(K('output depends on what the filter object was applied to before'),
                              f'{f}({p}): one object applied to {[(x[1]["n"], x[1]["kind"] + "/" + x[1]["ctx"]) for x in steps[:idx + 1]]} gives tags {tags} '
                              f'on the last one, a fresh {f}({p}) gives {fresh[name]}'); return
            exp = self.expect(f, p, sd, snap)
            if not self.compare(f, p, sd, exp, tags, N, acc, K, f'use #{idx + 1} of one object'): return
        acc.outcome((f, 'reuse', tuple(fresh['A'] or ()), tuple(fresh['B'] or ())))
        if any(fresh[n] is not None and (fresh[n] != list(range(sd['n'])) or sd['n'] >= 1) for n, sd in (('A', A), ('B', B))) and (A != B):
            acc.mark_nontrivial()

    def _eval_facade2(self, case, acc):
        """ONE Environments.<method>() call over two environments (the facade joins a single filter object to every
        member): each member, read in order A, B, A, must give (by tag) what the same method gives on it alone."""
        f, p, A, B = case['f'], case['p'], case['A'], case['B']
        comp = 'Environments.' + {'BatchUnbatch': 'batch.unbatch', 'Identity': 'filter'}.get(f, f.lower())
        feat = self.feature(f, p, A)
        alone = {}
        for name, sd in (('A', A), ('B', B)):
            try:
                alone[name] = [o.get('tag') for o in facade(f, p, sd)[0].read()]
            except Exception:   # noqa   (judged by the single-environment facade cases / Finalize rejecting an empty result)
                alone[name] = None
        try:
            envs = facade(f, p, A, B)
            if len(envs) != 2:
                acc.violation(f'{comp}|not one environment per input environment|{feat}', f'{len(envs)} environments for 2'); return
        except Exception as e:   # noqa
            acc.violation(f'{comp}|raises {type(e).__name__} on two environments|{feat}', f'{comp}({p}) raised {e!r}'); return
        steps = ((0, 'A', A, None), (1, 'B', B, A), (0, 'A', A, B))
        for idx, (pos, name, sd, prev) in enumerate(steps):
            rel = 'first read' if prev is None else length_relation(prev['n'], sd['n'])
            K = lambda mode: f"{comp}|{mode}|{feat}; {rel}"
            try:
                tags = [o.get('tag') for o in envs[pos].read()]
            except Exception as e:   # noqa
                if alone[name] is None or not alone[name]: continue
                acc.violation(K(f'raises {type(e).__name__} only next to another environment'), f'{comp}({p}) read #{idx + 1} raised {e!r}; alone -> tags {alone[name]}'); return
            if alone[name] is None: continue
            if tags != alone[name]:
                acc.violation(K('member differs from the same method applied to it alone'),
                              f'{comp}({p}) over environments of {A["n"]} {A["kind"]}/{A["ctx"]} and {B["n"]} {B["kind"]}/{B["ctx"]} interactions: read #{idx + 1} '
                              f'(environment {name}) gives tags {tags}, alone it gives {alone[name]}'); return
        acc.outcome((comp, 'two', tuple(alone['A'] or ()), tuple(alone['B'] or ())))
        if (alone['A'] or alone['B']) and A != B: acc.mark_nontrivial()

    def _eval(self, case, acc):
        if case.get('via') == 'facade': return self._eval_facade(case, acc)
        if case.get('via') == 'reuse': return self._eval_reuse(case, acc)
        if case.get('via') == 'facade2': return self._eval_facade2(case, acc)
        f, p, sd = case['f'], case['p'], case['s']
        N = sd['n']
        snap = build_seq(sd)                       # pristine copy (never handed to coba)
        exp = self.expect(f, p, sd, snap)
        feat = self.feature(f, p, sd)
        K = lambda mode, extra=None: f"{f}|{mode}|{extra if extra is not None else feat}"

        runs = []
        flt0 = None
        for form in ('list', 'iter', 'reuse'):
            inp = build_seq(sd)
            orig = list(inp)
            if form == 'reuse':
                flt = flt0
            else:
                try:
                    flt = self.make(f, p)
                except Exception as e:   # noqa
                    acc.violation(K(f'constructor raises {type(e).__name__}'), f'{f}({p}) raised {e!r}'); return
                if flt0 is None: flt0 = flt
            items = iter(inp) if form == 'iter' else inp
            st, out = self.run_real(flt, f, p, items, form != 'reuse', sd)
            # inputs must be left alone
            if len(inp) != N or any(a is not b for a, b in zip(inp, orig)):
                acc.violation(K('caller list modified (order/length)', f'{feat} input={form}'), f'input list changed from tags {list(range(N))} to {[x.get("tag") for x in inp]}'); return
            for i, it in enumerate(orig):
                if not same_inter(it, snap[i]):
                    acc.violation(K('input interaction mutated'), f'input interaction {i} changed to {dict(it)!r}'); return
            if st == 'exc':
                if exp.get('allow_exc'):
                    acc.outcome(f'{f}:rejected:{type(out).__name__}'); acc.count('rejected_allowed')
                    runs.append(None); continue
                acc.violation(K(f'raises {type(out).__name__}'), f'{f}({p}) on {N} {sd["kind"]}/{sd["ctx"]} interactions ({form} input) raised {out!r}'); return
            # every output must be an input interaction with unaltered content
            tags = []
            for o in out:
                t = o.get('tag') if isinstance(o, dict) else None
                if not isinstance(t, int) or isinstance(t, bool) or not (0 <= t < N):
                    acc.violation(K('output is not an input interaction'), f'output item {o!r}'); return
                if not same_inter(o, snap[t]):
                    acc.violation(K('interaction content altered', f'{sd["kind"]}/{sd["ctx"]}'), f'expected {dict(snap[t])!r}, got {dict(o)!r}'); return
                tags.append(t)
            runs.append(tags)
            if not self.compare(f, p, sd, exp, tags, N, acc, K, form): return

        got = [r for r in runs if r is not None]
        if len(runs) == 3 and None not in runs:
            if runs[0] != runs[1]:
                acc.violation(K('list and iterator input give different outputs'), f'list input -> {runs[0]}, iterator input -> {runs[1]}'); return
            if runs[0] != runs[2]:
                acc.violation(K('re-used filter object gives a different output'), f'first call -> {runs[0]}, second call -> {runs[2]}'); return
        elif got and len(got) != len(runs):
            acc.violation(K('raises on some input forms only'), f'runs: {runs}'); return
        if got:
            acc.outcome((f, tuple(got[0])))
            ident = list(range(N))
            if f in ('Identity', 'Chunk', 'Params', 'Cache', 'BatchUnbatch', 'BatchSafe'):
                if N >= 1: acc.mark_nontrivial()
            elif got[0] != ident or (exp['kind'] == 'exact' and exp['tags'] != ident):
                acc.mark_nontrivial()

    def compare(self, f, p, sd, exp, tags, N, acc, K, form):
        kind = exp['kind']
        ident = list(range(N))
        if kind == 'skip': return True
        if kind == 'perm':
            if sorted(tags) != ident:
                acc.violation(K('not a permutation of the input'), f'{f}({p}) on {N} interactions -> tags {tags}'); return False
            return True
        if kind == 'distinct':
            if len(set(tags)) != len(tags):
                acc.violation(K('duplicate interaction in sample'), f'{f}({p}) on {N} interactions -> tags {tags}'); return False
            if len(tags) != exp['k']:
                acc.violation(K('wrong sample size'), f'{f}({p}) on {N} interactions -> {len(tags)} items {tags}, expected {exp["k"]}'); return False
            return True
        want = exp['tags']
        if tags == want: return True
        if exp.get('or_empty') and tags == []: return True
        if f == 'Where':
            n_i = p['ni']
            if exp.get('why') == 'ni' and tags:
                lo, hi = (n_i, n_i) if isinstance(n_i, int) else n_i
                side = 'above max' if hi is not None and N > hi else 'below min'
                acc.violation(K(f'kept environment with interaction count {side}', f'n_interactions {shape(n_i)}'),
                              f'Where(n_interactions={n_i}, n_actions={p["na"]}, n_features={p["nf"]}) on {N} interactions kept tags {tags}, expected nothing'); return False
            if exp.get('why') == 'nf' and tags:
                acc.violation(K('kept environment with feature count out of bounds', f'n_features {shape(p["nf"])} ctx={sd["ctx"]}'),
                              f'Where({p}) on {N} {sd["ctx"]} contexts kept tags {tags}, expected nothing'); return False
            if want and not tags and (p['ni'] is not None or p['nf'] is not None):
                acc.violation(K('dropped environment within bounds', f'{self.feature(f, p, sd)} ctx={sd["ctx"]}' if p['nf'] is not None else None), f'Where({p}) on {N} {sd["kind"]}/{sd["ctx"]} interactions returned nothing, expected tags {want}'); return False
            acc.violation(K('wrong selection by action count', f'n_actions {shape(p["na"])}'), f'Where({p}) -> tags {tags}, expected {want}'); return False
        mode = 'wrong output sequence'
        if f == 'Sort':
            mode = 'not the stable sorted order' if sorted(tags) == ident else 'not a permutation of the input'
        elif f in ('Take', 'Slice'):
            mode = 'wrong slice'
        elif f == 'Reservoir':
            mode = 'strict sample from too short input not empty'
        elif f in ('Identity', 'Chunk', 'Params', 'Cache', 'BatchUnbatch', 'BatchSafe'):
            mode = 'not the identity'
        acc.violation(K(mode), f'{f}({p}) on {N} {sd["kind"]}/{sd["ctx"]} interactions ({form} input) -> tags {tags}, expected {want}')
        return False


CHECK = C09()
