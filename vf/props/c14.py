"""C14 - supervised data becomes a bandit problem whose best action is the true label (ENUM engine).

Every case = (delivery form, feature container, label column, label kind, label_type, take, label sequence).  The labelled
example set is built abstractly (example i has fixed features F[i] and the label chosen by the sequence), handed to the REAL
coba code in the delivery form of the case -- (X,Y), a source of (x,y) pairs, dense / headed / sparse rows with a label
column, or CSV / ARFF (dense, sparse) / LibSVM / Manik text lines -- and read twice from fresh objects:

   raw   SupervisedSimulation(...).read()
   envs  Environments.from_supervised(...)[0].read()      (adds Finalize: lazy rows materialised, categoricals one-hot)

Each read is compared with a plain-Python reference model of the statement:

   classification  one action list on every interaction = the distinct labels; context = features without the label;
                   rewards(label) = 1, rewards(every other action / label) = 0
   multi-label     rewards(S) = |S & Y| / |S | Y| for every subset S of the label universe
   regression      rewards(a) = -|a - y| on a grid
   all             number and order = the examples, or the real pipes.Reservoir(take) applied to the example indexes
"""
import itertools, json, os, shutil, subprocess, sys

from vf.core import Check, HarnessError, REPO, VERIF, jsonable, tmpdir

from coba.environments import Environments, SupervisedSimulation, CsvSource, ArffSource, LibSvmSource, ManikSource
from coba.pipes import ListSource, Pipes, HeadRows, Reservoir, LabelRows
from coba.primitives import Categorical, Dense, Sparse, Source
from coba.context import CobaContext, NullLogger, MemoryCacher

CobaContext.logger = NullLogger()
CobaContext.cacher = MemoryCacher()
CobaContext.search_paths = []

# ------------------------------------------------------------------ alphabets

NA = 'n/a'                                    # 'no declared label type dimension' (the source is not pre-labelled)
LEVELS = ['b', 'a', 'c', 'd']                 # declared levels of a categorical label ('d' never occurs in the data)
UNIVERSE = {                                  # code -> label value (first appearance order != sorted order)
    'str': ['b', 'a', 'c'],
    'numstr': ['1', '0', '2'],
    'mixnum': [1.5, '0', '2.5'],              # regression labels of mixed form: a number, numeric text (number first or text first by the sequence)
    'int': [8, 0, 16],                        # a python set of these iterates in insertion-dependent, unsorted order
    'float': [1.5, 0.0, -2.5],
    'cat': ['b', 'a', 'c'],
    'catmix': ['b', 'a', 'c'],                # Categoricals whose members carry different level lists (see MIXLEVELS)
    'tuple': [(0, 1, 0), (1, 0, 0), (0, 0, 1)],
    'list1': ['b', 'a', 'c'],                 # delivered as ['b']
    'list1n': [8, 0, 16],                     # delivered as [1]
    'list1s': ['1', '0', '2'],                # delivered as ['1']   (what the LibSVM / Manik readers produce)
    'mstr': ['a', 'b', 'c'],                  # multi-label universes
    'mint': [8, 0, 16],
    'mtup': ['a', 'b', 'c'],                  # label sets delivered as tuples
    'mnumstr': ['1', '0', '2'],
}
MSETS = [[1], [0], [2, 0], [0, 1], [], [1, 2], [2], [0, 1, 2]]     # multi-label code -> indexes into the universe
MULTI = ('mstr', 'mint', 'mtup', 'mnumstr')
LIST1 = ('list1', 'list1n', 'list1s')
CATS = ('cat', 'catmix')
# level list of the Categorical label of example i for 'catmix': another order, a superset, the reverse (data assembled from parts)
MIXLEVELS = [['b', 'a', 'c', 'd'], ['c', 'd', 'a', 'b'], ['a', 'b', 'c', 'd', 'e'], ['d', 'c', 'a', 'b'], ['b', 'a', 'c', 'd']]
ARFF2LEVELS = [['b', 'a', 'c', 'd'], ['c', 'd', 'a', 'b']]      # the two ARFF parts of the 'arff2d' / 'arff2s' deliveries

LABEL_TYPES = {                               # label_type values enumerated per label kind (meaningless pairs are left out)
    'str': [None, 'c'], 'numstr': [None, 'c', 'r'], 'int': [None, 'c', 'r'], 'float': [None, 'c', 'r'], 'cat': [None, 'c'], 'catmix': [None, 'c'], 'mixnum': ['r'],
    'tuple': [None, 'c'], 'list1': [None, 'c', 'm'], 'list1n': [None, 'c', 'r', 'm'], 'list1s': [None, 'c', 'r', 'm'],
    'mstr': ['m'], 'mint': ['m'], 'mtup': ['m'], 'mnumstr': ['m'],
}
ADMISSIBLE = {                                # label_type=None: the statement does not say how the type is inferred
    'str': ['c'], 'numstr': ['c'], 'cat': ['c'], 'catmix': ['c'], 'tuple': ['c'], 'int': ['r', 'c'], 'float': ['r', 'c'],
    'list1': ['c', 'm'], 'list1n': ['c', 'm', 'r'], 'list1s': ['c', 'm'],
}

GROUP = {'str': 'scalar', 'numstr': 'scalar', 'int': 'scalar', 'float': 'scalar', 'mixnum': 'mixed number / numeric text', 'cat': 'Categorical', 'catmix': 'Categorical (members with different level lists)', 'tuple': 'tuple',
         'list1': 'list-valued', 'list1n': 'list-valued', 'list1s': 'list-valued'}      # label kinds as they appear in violation keys

DENSE_F = [[10, 20], [11, 21], [12, 22], [13, 23], [14, 24]]
SPARSE_F = [{'f': 10, 'g': 20}, {'g': 21}, {}, {'f': 13}, {'f': 14, 'g': 24}]
SPARSE_FI = [{1: 10, 2: 20}, {2: 21}, {}, {1: 13}, {1: 14, 2: 24}]


def label_value(lab, code, i=0):
    """A fresh label object as the caller hands it to coba."""
    if lab in MULTI:
        v = [UNIVERSE[lab][i] for i in MSETS[code]]
        return tuple(v) if lab == 'mtup' else v
    u = UNIVERSE[lab][code]
    if lab == 'cat': return Categorical(u, list(LEVELS))
    if lab == 'catmix': return Categorical(u, list(MIXLEVELS[i]))
    if lab in LIST1: return [u]
    return u


# csv dialect options handed to CsvSource(**dialect): one representative per option that changes how a line is split
DIALECTS = {'semi': {'delimiter': ';'}, 'tab': {'delimiter': '\t'}, 'skip': {'skipinitialspace': True},
            'squote': {'quotechar': "'"}, 'esc': {'escapechar': '\\', 'quoting': 3}}


def csv_line(fields, dl):
    """Own serialisation of one row under the dialect (the reference never parses: expected values are the fields themselves)."""
    if dl is None: return ','.join(fields)
    if dl == 'semi': return ';'.join(fields)
    if dl == 'tab': return '\t'.join(fields)
    if dl == 'skip': return ', '.join(fields)
    if dl == 'squote': return ','.join("'%s'" % f if (',' in f or k in (0, len(fields) - 1)) else f for k, f in enumerate(fields))
    if dl == 'esc': return ','.join(f.replace(',', '\\,') for f in fields)
    raise ValueError(dl)


_SCRATCH = {'dir': None, 'k': 0}


def line_source(lines, how, ext):
    """The lines as a ListSource, or written to a scratch file and handed over as a path / file:// url (the str route of the sources)."""
    if not how: return ListSource(lines)
    if _SCRATCH['dir'] is None: _SCRATCH['dir'] = tmpdir()
    _SCRATCH['k'] = (_SCRATCH['k'] + 1) % 8
    path = os.path.join(_SCRATCH['dir'], '%d-%d.%s' % (os.getpid(), _SCRATCH['k'], ext))
    with open(path, 'w') as f: f.write(''.join(l + '\n' for l in lines))
    return path if how == 'plain' else 'file://' + path


class ChainSource(Source):
    """Reads its part sources one after the other (data assembled from several files)."""
    def __init__(self, parts): self._parts = parts
    def read(self): return itertools.chain.from_iterable(p.read() for p in self._parts)


def label_text(lab, code):
    """The label as written into a text line."""
    if lab in MULTI: return ','.join(str(UNIVERSE[lab][i]) for i in MSETS[code])
    return str(UNIVERSE[lab][code])


# ------------------------------------------------------------------ building the real inputs + the expected examples

ROWFORM = {'arff2d': 'two arff dense parts', 'arff2s': 'two arff sparse parts',
           'prerows': 'pre-labelled dense rows', 'prehrows': 'pre-labelled headed dense rows', 'presrows': 'pre-labelled sparse rows',
           'prearffd': 'pre-labelled arff dense', 'prearffs': 'pre-labelled arff sparse', 'precsvh': 'pre-labelled csv+header',
           'srows0': 'sparse rows without zero labels', 'hsrows': 'headed sparse rows', 'rows:pos': 'dense rows (positional call)', 'rows:srckw': 'dense rows (source= call)',
           'xy': '(X,Y)', 'pairs': 'source of (x,y) pairs', 'rows': 'dense rows', 'hrows': 'headed dense rows', 'srows': 'sparse rows',
           'csv': 'csv', 'csvh': 'csv+header', 'arffd': 'arff dense', 'arffs': 'arff sparse', 'libsvm': 'libsvm', 'manik': 'manik'}


def build(case):
    """-> (make, feats, labs) ; make() returns fresh (args, kwargs) for SupervisedSimulation / from_supervised,
    feats[i] / labs[i] = the expected context / the label of example i as python values (never handed to coba)."""
    d, lab, lt, ys = case['d'], case['lab'], case['lt'], case['ys']
    d, _, call = d.partition(':')
    pre = d.startswith('pre')
    if pre: d = d[3:]
    n = len(ys)
    take = case.get('take')
    f = case.get('f', 'dense')
    w = case.get('w', 2)
    col = case.get('col')
    by = case.get('by')
    labs = [label_value(lab, c, i) for i, c in enumerate(ys)]            # reference copies
    if lab in CATS: labs = [str(l) for l in labs]

    def pyfeat(i):
        if f == 'dense': return list(DENSE_F[i][:w])
        if f == 'sparse': return dict(SPARSE_F[i])
        if f == 'sparsei': return dict(SPARSE_FI[i])
        if f == 'scalar': return 10 + i
        if f == 'sscalar': return 'x%d' % i
        if f == 'none': return None
        raise ValueError(f)

    kw = {}
    if lt is not None: kw['label_type'] = lt
    if take is not None: kw['take'] = take

    if d == 'xy':
        feats = [pyfeat(i) for i in range(n)]
        def make():
            return ([pyfeat(i) for i in range(n)], [label_value(lab, c, i) for i, c in enumerate(ys)]), dict(kw)
    elif d == 'pairs':
        feats = [pyfeat(i) for i in range(n)]
        def make():
            return (ListSource([(pyfeat(i), label_value(lab, c, i)) for i, c in enumerate(ys)]),), dict(kw)
    elif d in ('rows', 'hrows'):
        feats = [pyfeat(i) for i in range(n)]
        heads = ['f%d' % k for k in range(w)]
        heads.insert(col, 'y')
        def make():
            rows = []
            for i, c in enumerate(ys):
                r = pyfeat(i); r.insert(col, label_value(lab, c, i)); rows.append(r)
            src = ListSource(rows)
            if d == 'hrows': src = Pipes.join(src, HeadRows(list(heads)))
            return (src,), dict(kw, label_col=('y' if by == 'hdr' else col))
    elif d == 'hsrows':
        feats = [{'f%d' % k: DENSE_F[i][k] for k in range(w) if (i + k) % 3 != 2} for i in range(n)]
        heads = ['f%d' % k for k in range(w)]
        heads.insert(col, 'y')
        def make():
            rows = []
            for i, c in enumerate(ys):
                r = {heads.index(h): v for h, v in feats[i].items()}
                r[col] = label_value(lab, c, i)
                rows.append(r)
            return (Pipes.join(ListSource(rows), HeadRows(list(heads))),), dict(kw, label_col=('y' if by == 'hdr' else col))
    elif d in ('srows', 'srows0'):
        key = 'y' if by == 'hdr' else 7
        feats = [pyfeat(i) for i in range(n)]
        def make():
            rows = []
            for i, c in enumerate(ys):
                r = pyfeat(i)
                v = label_value(lab, c, i)
                if not (d == 'srows0' and v in (0, '0')): r[key] = v
                rows.append(r)
            return (ListSource(rows),), dict(kw, label_col=key)
    elif d in ('csv', 'csvh'):
        dl = case.get('dl')
        # under the quoting / escaping dialects the first feature contains the delimiter
        fld = lambda i, k: str(DENSE_F[i][k]) + (',x' if k == 0 and dl in ('squote', 'esc') else '')
        feats = [[fld(i, k) for k in range(w)] for i in range(n)]
        labs = [(str(l)) for l in labs]
        heads = ['f%d' % k for k in range(w)]
        heads.insert(col, 'y')
        def make():
            lines = [csv_line(heads, dl)] if d == 'csvh' else []
            for i, c in enumerate(ys):
                r = [fld(i, k) for k in range(w)]; r.insert(col, label_text(lab, c)); lines.append(csv_line(r, dl))
            src = CsvSource(line_source(lines, case.get('path'), 'csv'), has_header=(d == 'csvh'), **(DIALECTS[dl] if dl else {}))
            return (src,), dict(kw, label_col=('y' if by == 'hdr' else col))
    elif d in ('arffd', 'arffs', 'arff2d', 'arff2s'):
        two = d.startswith('arff2')           # the data comes in two ARFF parts that declare the label levels in different orders
        d = 'arff' + d[-1]
        heads = ['f%d' % k for k in range(w)]
        heads.insert(col, 'y')
        if d == 'arffd':
            feats = [[float(v) for v in DENSE_F[i][:w]] for i in range(n)]
        else:
            feats = [{'f%d' % k: float(DENSE_F[i][k]) for k in range(w) if (i + k) % 3 != 2} for i in range(n)]
        if lab == 'float': labs = [float(l) for l in labs]
        decl = {'cat': '{' + ','.join(LEVELS) + '}', 'catmix': None, 'float': 'numeric', 'str': 'string'}[lab]
        def part(examples, decl):
            lines = ['@relation r']
            for h in heads: lines.append('@attribute %s %s' % (h, decl if h == 'y' else 'numeric'))
            lines.append('@data')
            for i, c in examples:
                if d == 'arffd':
                    r = [str(v) for v in DENSE_F[i][:w]]; r.insert(col, label_text(lab, c)); lines.append(','.join(r))
                else:
                    ent = []
                    for p, h in enumerate(heads):
                        if h == 'y': ent.append('%d %s' % (p, label_text(lab, c)))
                        elif h[1:] and ('f' + h[1:]) in feats[i]: ent.append('%d %s' % (p, DENSE_F[i][int(h[1:])]))
                    lines.append('{' + ','.join(ent) + '}')
            return lines
        def make():
            ex = list(enumerate(ys))
            if not two:
                src = ArffSource(line_source(part(ex, decl), case.get('path'), 'arff'))
            else:
                parts = [ex[:1], ex[1:]]
                src = ChainSource([ArffSource(ListSource(part(e, '{' + ','.join(ARFF2LEVELS[k]) + '}'))) for k, e in enumerate(parts) if e or k == 0])
            return (src,), dict(kw, label_col=('y' if by == 'hdr' else col))
    elif d in ('libsvm', 'manik'):
        feats = [{k: float(v) for k, v in SPARSE_FI[i].items()} for i in range(n)]
        if lab in MULTI: labs = [[str(x) for x in l] for l in labs]
        def make():
            lines = ['%d 2 3' % n] if d == 'manik' else []
            for i, c in enumerate(ys):
                lines.append(' '.join([label_text(lab, c)] + ['%d:%d' % kv for kv in SPARSE_FI[i].items()]))
            return ((ManikSource if d == 'manik' else LibSvmSource)(line_source(lines, case.get('path'), 'txt')),), dict(kw)
    else:
        raise ValueError(d)
    if pre:                                   # the caller labels the rows, the simulation sees a source of labelled rows
        make1 = make
        def make():
            (src,), k = make1()
            k = dict(k)
            src = Pipes.join(src, LabelRows(k.pop('label_col'), case['decl']))
            return (src,), k
    if call:
        make0 = make
        def make():
            (src,), k = make0()
            if call == 'pos': return (src, k.get('label_col'), k.get('label_type'), k.get('take')), {}
            return (), dict(k, source=src)
    return make, feats, labs


# ------------------------------------------------------------------ helpers of the reference model

def materialise(ctx):
    """-> (form, value, problem) ; form in dense/sparse/scalar/none; lazy coba rows are read through their public access paths."""
    if ctx is None: return 'none', None, None
    if isinstance(ctx, (str, int, float)): return 'scalar', ctx, None
    if isinstance(ctx, dict): return 'sparse', dict(ctx), None
    if isinstance(ctx, (list, tuple)): return 'dense', list(ctx), None
    if isinstance(ctx, Dense):
        v = list(iter(ctx))
        try:
            byidx = [ctx[i] for i in range(len(ctx))]
        except Exception as e:   # noqa
            return 'dense', v, 'indexing the lazy context raises %s' % type(e).__name__
        return 'dense', v, (None if byidx == v else 'lazy context: iteration and indexing disagree')
    if isinstance(ctx, Sparse):
        v = dict(ctx.items())
        try:
            bykey = {k: ctx[k] for k in ctx.keys()}
        except Exception as e:   # noqa
            return 'sparse', v, 'indexing the lazy context raises %s' % type(e).__name__
        return 'sparse', v, (None if bykey == v and len(ctx) == len(v) else 'lazy context: items and keys/indexing disagree')
    return 'other', ctx, None


def srepr(o):
    try:
        return repr(o)
    except Exception:   # noqa  (L1Reward.__repr__ raises on a non-numeric argmax)
        return '<%s>' % type(o).__name__


def expected_form(f):
    if isinstance(f, dict): return 'sparse'
    if isinstance(f, list): return 'dense'
    return 'none' if f is None else 'scalar'


def subsets(universe):
    out = []
    for k in range(len(universe) + 1):
        for s in itertools.combinations(universe, k): out.append(list(s))
    return out


def jaccard(S, Y):
    S, Y = set(S), set(Y)
    return len(S & Y) / len(S | Y)


def case_sig(d, lab, lt, got):
    return (d, lab, lt, len(got), srepr(got[0]['actions']) if got and isinstance(got[0], dict) and 'actions' in got[0] else None)


class _Rec:
    def __init__(self): self.v = []; self.checked = 0
    def violation(self, key, what): self.v.append((key, what))


class C14(Check):
    _seen = {}            # per worker process: order key -> action lists already noted
    _order_notes = []
    ID = 'C14'
    LEVEL = 'exploration'
    ENGINE = 'ENUM'
    RULE = ('cases = (delivery, feature container, label position / addressing, label kind, label_type, take, label sequence): example sets of '
            '0..3 (thorough 0..5; multi-label 0..4) examples, example i has fixed features (dense width 0/1/2, sparse with varying key sets incl. {}, scalar, string '
            'scalar, None) and the label chosen by the sequence; ALL label sequences over a 3-letter universe per label kind (str, int incl. 0, '
            'float, Categorical with an unused declared level, Categoricals whose members carry DIFFERENT level lists (other order, superset, reverse; X,Y / pairs / rows and a source chaining two ARFF parts that declare {b,a,c,d} and {c,d,a,b}), int labels {8,0,16} (set iteration order != sorted, insertion dependent), [l] list-valued str/int, one-hot tuples; first-appearance order != sorted order) and, '
            'for multi-label, ALL sequences over the 8 subsets (incl. the empty set) of a 3-label universe (lists of str / int, tuples); label_type in '
            '{None,c,r,m} where meaningful for the label kind; delivery in {(X,Y), source of (x,y) pairs, dense rows + label_col index at every position, '
            'HeadRows dense rows by header / index, sparse rows with str / int label key, sparse rows that omit a 0 label (int, float, and numeric text under regression), regression labels of mixed form (number first / numeric text first, by the sequence) in X,Y, pairs, dense / headed / sparse rows, HeadRows sparse rows by header / '
            'index, PRE-LABELLED sources (dense / headed / sparse rows, ARFF dense+sparse and CSV reader pipelines joined with LabelRows(label, declared type) by the caller, simulation built from the source only) x every declared type in {None,c,r,m} x every requested label_type in {None,c,r,m} meaningful for the label kind (take in {None,2}), positional and source= call styles, CsvSource(**dialect) with one representative per csv option that changes how a line is split (delimiter ; and tab, skipinitialspace, quotechar with a field containing the delimiter, escapechar+QUOTE_NONE; lines written by an own serialiser, expected values = the fields), every text source also from a scratch file handed over as a plain path and as a file:// url, CSV (with/without header, by index / header), ARFF dense and sparse (nominal / numeric / string '
            'label attribute, by header / index, every position), LibSVM, Manik (single and comma-separated labels)}; take in {None,0,1,2,N,N+1} for every '
            'source delivery; enumerated exhaustively, fewest examples first. Every case is read twice from fresh objects (SupervisedSimulation.read and '
            'Environments.from_supervised(...)[0].read); the raw object is read a second time (same action list), the action list of every clean case without take is pooled per (delivery, label kind, label types, SET of labels) and post() demands ONE list per pool (fixed order over all sequences / numbers of examples), and 25x2 string-labelled data sets (c and m, X,Y / rows / csv / arff / libsvm / manik) are read again in 3 fresh interpreters with PYTHONHASHSEED 1,2,3 (same list as in this process). A case is non-trivial when the real code produced at least one interaction (which is then compared '
            'completely: context, rewards, actions) and, for classification, the delivered examples carry >=2 distinct labels')
    ASSUMPTIONS = [
        'WHICH order the action list has is not constrained; demanded is that it is fixed: identical on every interaction, on a second read, for every sequence / number of examples with the same label set (same delivery and types, no take) and in processes with other hash seeds; no duplicates',
        'Categoricals with different level lists: all labels lie in the level list of the first label (a label outside it has no action in coba: not explored); the order of the actions follows the first label there, so the fixed-order-over-sequences clause is not evaluated for them',
        'Categorical labels: the declared levels count as the labels of the data, i.e. the action set must contain every distinct label and only declared levels (sparse ARFF: plus the level "0" that the ARFF reader adds on purpose)',
        'with take the action set may be the distinct labels of the sample or of the whole data (the statement does not say which)',
        'label_type=None: how the type is inferred is not constrained; the interactions must satisfy the complete reference model of one admissible type (numeric: regression or classification; [l]: classification or multi-label; str/Categorical/tuple: classification)',
        'pre-labelled sources: an explicit label_type decides, without one the type declared by the rows does, without both the inference rule above applies; a declared/requested type that is meaningless for the label kind is outside the alphabet',
        'multi-label and regression: the offered action list is not constrained (the statement defines it for classification only); multi-label rewards are called with lists of distinct labels only, never with a bare label; S = Y = {} (0/0) is not evaluated',
        'label sets are sequences (list/tuple) of distinct labels; python set objects and duplicated labels are outside the alphabet',
        'an empty example set (or take=0) may be rejected with an exception instead of giving zero interactions',
        'through Environments.from_supervised a Categorical label is one-hot encoded by Finalize: there only "exactly one offered action has reward 1, the same action for equal labels, different actions for different labels" is demanded (the encoding itself is C10)',
        'regression labels that mix numbers and numeric text in one column (X,Y with object columns; sparse text rows whose omitted label is the number 0) are inside: a read may reject them as a whole, but an interaction that is produced must reward by -|a - float(label)|; other labels of mixed types, negative label_col indexes, rows without a label (other than a sparse numeric 0) and label_type values that are meaningless for the label kind (r on words, m on scalars) are outside the alphabet',
        'text sources: only the plainest serialisation of each format is used (format variety is C12), except one own serialisation per csv dialect option handed to CsvSource(**dialect); a finding that disappears when the dialect option / the path route is removed from the case is reported under one key per route; expected values have the types the readers document (csv: str, arff numeric: float, libsvm: int key -> float, labels: list of str)',
        'regression from a text source: the expected label is float(text)',
        'second reads / re-use of an environment object are left to C04',
        'an Environments-level finding is reported only when the raw SupervisedSimulation read of the same case is clean (same root cause, one key)',
    ]
    TECHNIQUE = 'bounded-exhaustive enumeration of labelled example sets x delivery forms x label columns x label types x take on the real SupervisedSimulation / Environments.from_supervised vs. a plain-Python reference model (distinct labels, 0/1, Jaccard, -|a-y|) and the real pipes.Reservoir on indexes'
    LEVEL_TEXT = ('Every example set of <=3 (thorough <=5, multi-label <=4) examples over every label sequence of a 3-label universe (8 label sets for multi-label) x 11 delivery '
                  'forms incl. real CSV/ARFF/LibSVM/Manik text x every label position x label types x take is turned into interactions by the real code and '
                  'compared with the statement; exhaustive below the bound, so the smallest failing example set of each failure class is found with certainty.')
    LEVEL_NOTE = 'small-scope hypothesis: <=5 examples, <=3 distinct labels, <=2 features, one value per type; plain serialisations only; label-type inference unconstrained'
    MIN_NONTRIVIAL = {'quick': 90000, 'thorough': 800000}
    CASE_TIMEOUT = 30

    def setup(self, tier):
        _SCRATCH['dir'] = tmpdir()

    def teardown(self):
        if _SCRATCH['dir']: shutil.rmtree(_SCRATCH['dir'], True)
        _SCRATCH['dir'] = None

    # -------------------------------------------------------------- enumeration
    def cases(self, tier):
        maxn = 3 if tier == 'quick' else 5           # thorough: 5 examples for the single-label kinds, 4 for multi-label
        for n in range(0, maxn + 1):
            takes = [None] + [t for t in (0, 1, 2, n, n + 1) if t >= 0]
            takes = [t for i, t in enumerate(takes) if t not in takes[:i]]
            for shape in self.shapes(tier):
                d, f, w, col, by, lab = shape[:6]
                extra = shape[6] if len(shape) > 6 else {}
                ncodes = 8 if lab in MULTI else 3
                codes = [c for c in range(ncodes) if not (d in ('libsvm', 'manik') and lab in MULTI and not MSETS[c])]
                if lab in MULTI and (n == 5 or (n == 4 and d not in ('xy', 'pairs', 'rows', 'srows', 'libsvm', 'manik'))): continue
                pre = d.startswith('pre')
                types = LABEL_TYPES[lab] if not pre else [None] + [t for t in LABEL_TYPES[lab] if t is not None]
                if 'lts' in extra:
                    types = extra['lts']; extra = {k: v for k, v in extra.items() if k != 'lts'}
                for lt in types:
                    for decl in (types if pre else [NA]):
                        if pre and lt is None and decl is None and None not in LABEL_TYPES[lab]: continue      # multi-label is never inferred
                        for take in (takes if d != 'xy' else [None]):
                            if (pre or extra) and take not in (None, 2): continue
                            if extra.get('path') and take is not None: continue
                            if n == 0:
                                yield dict(self.desc(d, f, w, col, by, lab, lt, take, [], decl), **extra)
                                continue
                            for ys in itertools.product(codes, repeat=n):
                                yield dict(self.desc(d, f, w, col, by, lab, lt, take, list(ys), decl), **extra)

    @staticmethod
    def desc(d, f, w, col, by, lab, lt, take, ys, decl='n/a'):
        c = {'d': d, 'lab': lab, 'lt': lt, 'ys': ys}
        if decl != NA: c['decl'] = decl
        if f is not None: c['f'] = f
        if w is not None: c['w'] = w
        if col is not None: c['col'] = col
        if by is not None: c['by'] = by
        if take is not None: c['take'] = take
        return c

    @staticmethod
    def shapes(tier):
        """(delivery, feature kind, dense width, label position, label addressed by, label kind)"""
        py = ['str', 'int', 'float', 'cat', 'list1', 'list1n', 'tuple', 'mstr', 'mint'] + (['mtup'] if tier != 'quick' else [])
        for f in ('dense', 'scalar'):                      # Categorical labels whose members carry different level lists
            yield 'xy', f, (2 if f == 'dense' else None), None, None, 'catmix'
        yield 'pairs', 'dense', 2, None, None, 'catmix'
        for col in (0, 2):
            yield 'rows', 'dense', 2, col, 'idx', 'catmix'
        yield 'srows', 'sparse', None, None, 'hdr', 'catmix'
        for d in ('arff2d', 'arff2s'):
            for col, by in ((1, 'hdr'), (1, 'idx'), (0, 'hdr'), (2, 'hdr')):
                yield d, 'dense', 2, col, by, 'catmix'
        for lab in py:
            for f in ('dense', 'sparse', 'scalar', 'sscalar', 'none'):
                if lab in MULTI and f not in ('dense', 'sparse'): continue
                yield 'xy', f, (2 if f == 'dense' else None), None, None, lab
        for lab in py:
            for f in ('dense', 'sparse', 'scalar'):
                if lab in MULTI and f != 'dense': continue
                yield 'pairs', f, (2 if f == 'dense' else None), None, None, lab
        dense_pos = [(2, 0), (2, 1), (2, 2), (1, 0), (1, 1), (0, 0)]
        for lab in py:
            for w, col in dense_pos:
                if lab in MULTI and (w, col) not in ((2, 1), (0, 0)): continue
                yield 'rows', 'dense', w, col, 'idx', lab
        for lab in py:
            for w, col in ((2, 0), (2, 1), (2, 2)):
                if lab in MULTI and col != 1: continue
                for by in ('hdr', 'idx'):
                    yield 'hrows', 'dense', w, col, by, lab
        for lab in py:
            for by, f in (('hdr', 'sparse'), ('idx', 'sparsei')):
                yield 'srows', f, None, None, by, lab
        for lab in ('int', 'float'):                       # sparse rows that leave a label of 0 out
            yield 'srows0', 'sparse', None, None, 'hdr', lab
        yield 'srows0', 'sparse', None, None, 'hdr', 'numstr', {'lts': ['r']}     # ... whose other labels are numeric text (regression)
        for f in ('dense', 'sparse', 'scalar'):            # regression labels of mixed form (numbers and numeric text in one Y)
            yield 'xy', f, (2 if f == 'dense' else None), None, None, 'mixnum'
        yield 'pairs', 'dense', 2, None, None, 'mixnum'
        for col in (0, 2):
            yield 'rows', 'dense', 2, col, 'idx', 'mixnum'
        yield 'hrows', 'dense', 2, 1, 'hdr', 'mixnum'
        yield 'srows', 'sparse', None, None, 'hdr', 'mixnum'
        for lab in py:                                     # int-keyed sparse rows under HeadRows(['f0','y','f1'])
            if lab in MULTI and lab != 'mstr': continue
            for by in ('hdr', 'idx'):
                yield 'hsrows', 'dense', 2, 1, by, lab
        for lab in py:                                     # pre-labelled sources: rows leave a LabelRows(label, declared type) joined by the
            if lab == 'mint': continue                     # caller, the simulation gets the source only (+ label_type, take)
            for col in ((0, 1, 2) if lab not in MULTI else (1,)):
                yield 'prerows', 'dense', 2, col, 'idx', lab
            yield 'prehrows', 'dense', 2, 1, 'hdr', lab
            yield 'presrows', 'sparse', None, None, 'hdr', lab
        for lab in ('cat', 'float', 'str'):
            for by in ('hdr', 'idx'):
                yield 'prearffd', 'dense', 2, 1, by, lab
            yield 'prearffs', 'dense', 2, 1, 'hdr', lab
        for lab in ('str', 'numstr'):
            yield 'precsvh', 'dense', 2, 2, 'hdr', lab
        for dl in DIALECTS:                                # CsvSource(**dialect): every option that changes how a line is split
            for lab in ('str', 'numstr'):
                for col in (0, 2):
                    yield 'csv', 'dense', 2, col, 'idx', lab, {'dl': dl}
                    yield 'csvh', 'dense', 2, col, 'hdr', lab, {'dl': dl}
                yield 'csv', 'dense', 0, 0, 'idx', lab, {'dl': dl}
        for how in ('plain', 'file'):                      # the str route of the text sources: a path / file:// url instead of a Source
            yield 'csvh', 'dense', 2, 2, 'hdr', 'str', {'path': how}
            yield 'csv', 'dense', 2, 0, 'idx', 'numstr', {'path': how, 'dl': 'squote'}
            yield 'arffd', 'dense', 2, 1, 'hdr', 'cat', {'path': how}
            yield 'arffs', 'dense', 2, 1, 'hdr', 'float', {'path': how}
            yield 'libsvm', 'sparsei', None, None, None, 'list1s', {'path': how}
            yield 'manik', 'sparsei', None, None, None, 'mnumstr', {'path': how}
        for lab in ('str', 'int', 'mstr'):                 # the other call styles of the constructor
            for d in ('rows:pos', 'rows:srckw'):
                yield d, 'dense', 2, 1, 'idx', lab
        for lab in ('str', 'numstr'):
            for w, col in dense_pos:
                yield 'csv', 'dense', w, col, 'idx', lab
                for by in ('hdr', 'idx'):
                    yield 'csvh', 'dense', w, col, by, lab
        for d in ('arffd', 'arffs'):
            for lab in ('cat', 'float', 'str'):
                for w, col in dense_pos:
                    for by in ('hdr', 'idx'):
                        yield d, 'dense', w, col, by, lab
        for d in ('libsvm', 'manik'):
            for lab in ('list1s', 'mnumstr'):
                yield d, 'sparsei', None, None, None, lab

    # -------------------------------------------------------------- one case
    def run_case(self, case, acc):
        acc.count('cases_' + case['d'])
        report, nontrivial, outcomes = self._eval(case)
        for o in outcomes: acc.outcome(o)
        if nontrivial: acc.mark_nontrivial()
        if not report:
            # fixed order (a): remember the action list per (delivery, label kind, types, SET of labels); post() demands one list per key
            for okey, alist in self._order_notes:
                seen = self._seen.setdefault(okey, set())
                if alist not in seen:
                    seen.add(alist); acc.note(okey, [json.dumps([alist, case['ys']])])
            return
        key, what = report[0]
        if case.get('take') is not None and '|take given' not in key:
            # classify: the same example set without take decides whether the sampling step or something else is at fault
            base = {k: v for k, v in case.items() if k != 'take'}
            rep0, _, _ = self._eval(base)
            if rep0:
                key, what = rep0[0]; case = base
            else:
                comp, mode, _ = key.split('|', 2)
                key = f'{comp}|{mode}|only when take is given'
        for field, mode in (('path', 'interactions are wrong only when the source is given as a path / url|text source from a str'),
                            ('dl', 'interactions are wrong only when csv dialect options are given|CsvSource(**dialect)')):
            if case.get(field) and '|take given' not in key and 'only when take' not in key:
                base = {k: v for k, v in case.items() if k != field}
                rep0, _, _ = self._eval(base)
                if rep0:
                    key, what = rep0[0]; case = base          # also wrong without it: go on with the simpler case
                else:
                    key = key.split('|', 1)[0] + '|' + mode; break
        decl, lt = case.get('decl', NA), case['lt']
        if decl not in (NA, None) and lt is not None and decl != lt:
            # classify: the same case with a source that declares the requested type decides whether the precedence between
            # the declared and the requested label type is at fault
            base = dict(case, decl=lt)
            rep0, _, _ = self._eval(base)
            if rep0:
                key, what = rep0[0]; case = base
            else:
                key = key.split('|', 1)[0] + '|the explicit label_type does not decide (interactions follow the type the source declares)|source declares another type than label_type'
        acc.violation(key, what, case)

    def _eval(self, case):
        """-> ([(key, what)] (at most the first finding), non-trivial?, [outcome signatures])"""
        d, lab, lt, ys = case['d'], case['lab'], case['lt'], case['ys']
        n = len(ys)
        take = case.get('take')
        make, feats, labs = build(case)
        idx = list(range(n)) if take is None else list(Reservoir(take).filter(list(range(n))))
        eff = lt if lt is not None else case.get('decl', NA) if case.get('decl', NA) != NA else None     # an explicit label_type decides, else the declared one
        kinds = [eff] if eff is not None else ADMISSIBLE[lab]
        rowform = ROWFORM[d] + (' with dialect options' if case.get('dl') else '') + (' from a file path' if case.get('path') else '')
        by = {'hdr': 'header', 'idx': 'index', None: 'none'}[case.get('by')]
        feat = f'{rowform} label_col={by}'
        nontrivial = False
        outcomes = []
        self._order_notes = []

        results = {}
        for level in ('raw', 'envs'):
            comp = 'SupervisedSimulation' if level == 'raw' else 'Environments.from_supervised'
            args, kw = make()
            try:
                if level == 'raw':
                    sim = SupervisedSimulation(*args, **kw)
                    got = list(sim.read())
                else:
                    envs = Environments.from_supervised(*args, **kw)
                    if len(envs) != 1:
                        results[level] = [(f'{comp}|not one environment|{feat}', f'{len(envs)} environments')]; continue
                    got = list(envs[0].read())
            except Exception as e:   # noqa
                if not idx:            # no example (left): the readers / Finalize may reject an empty data set: not demanded
                    outcomes.append(level + ':empty rejected:' + type(e).__name__); results[level] = []; continue
                if lab == 'mixnum':    # labels of mixed form may be rejected as a whole (but not turned into rewards that raise)
                    outcomes.append(level + ':mixed forms rejected:' + type(e).__name__); results[level] = []; continue
                results[level] = [(f'{comp}|read raises {type(e).__name__}|{feat} label_type={lt}', f'read of {case} raised {e!r}')]
                continue
            best = None
            for kind in kinds:
                rec = _Rec(); rec.kind = kind
                self.compare(comp, level, kind, got, idx, feats, labs, case, feat, rec)
                if best is None or (best.v and not rec.v): best = rec
                if not rec.v: break
            results[level] = best.v
            if level == 'raw' and not best.v and got and best.kind in ('c', 'm'):
                first = got[0]['actions']
                # fixed order (b): a second read of the same object offers the same list (whether it can be read again at all is C04)
                try:
                    again = list(sim.read())
                except Exception:   # noqa
                    again = []
                if len(again) == len(got) and [list(it['actions']) for it in again] != [list(first)] * len(got):
                    results[level] = [(f'{comp}|action list differs on re-reading|' + {'c': 'classification', 'm': 'multi-label'}[best.kind],
                                       f'first read offers {list(first)!r}, second read {[list(it["actions"]) for it in again][:1]!r}: {case}')]
                elif take is None and lab != 'catmix':
                    ls = sorted({srepr(x) for j in idx for x in (labs[j] if best.kind == 'm' else [labs[j][0] if isinstance(labs[j], list) else labs[j]])})
                    okey = json.dumps(['order', best.kind, {k: v for k, v in case.items() if k not in ('ys', 'take')}, ls], sort_keys=True)
                    self._order_notes.append((okey, srepr(list(first))))
            if level == 'raw':
                ndist = len({repr(labs[j]) for j in idx})
                if got and (kinds[0] != 'c' or ndist >= 2): nontrivial = True
                outcomes.append(case_sig(d + ':' + str(case.get('dl')) + ':' + str(case.get('path')), lab, lt, got))
        # an envs-level finding is reported only when the raw read of the same case is clean (one root cause, one key)
        report = results['raw'] or results['envs']
        return report[:1], nontrivial, outcomes

    # -------------------------------------------------------------- fixed order across example sequences and across processes
    def raw_actions(self, case):
        make, _, _ = build(case)
        args, kw = make()
        got = list(SupervisedSimulation(*args, **kw).read())
        return srepr(list(got[0]['actions'])) if got else None

    def hash_cases(self):
        """String-labelled data whose action list must not depend on the hash seed of the interpreter."""
        out = []
        for ys in ([0, 1, 2], [2, 1, 0]):
            out += [{'d': 'xy', 'lab': 'str', 'lt': 'c', 'ys': ys, 'f': 'dense', 'w': 2},
                    {'d': 'xy', 'lab': 'list1', 'lt': None, 'ys': ys, 'f': 'dense', 'w': 2},
                    {'d': 'xy', 'lab': 'list1', 'lt': 'm', 'ys': ys, 'f': 'sparse'},
                    {'d': 'pairs', 'lab': 'str', 'lt': None, 'ys': ys, 'f': 'dense', 'w': 2},
                    {'d': 'rows', 'lab': 'str', 'lt': 'c', 'ys': ys, 'f': 'dense', 'w': 2, 'col': 1, 'by': 'idx'},
                    {'d': 'csvh', 'lab': 'str', 'lt': None, 'ys': ys, 'f': 'dense', 'w': 2, 'col': 2, 'by': 'hdr'},
                    {'d': 'csv', 'lab': 'numstr', 'lt': 'c', 'ys': ys, 'f': 'dense', 'w': 2, 'col': 0, 'by': 'idx'},
                    {'d': 'arffd', 'lab': 'str', 'lt': 'c', 'ys': ys, 'f': 'dense', 'w': 2, 'col': 1, 'by': 'hdr'},
                    {'d': 'arffs', 'lab': 'cat', 'lt': None, 'ys': ys, 'f': 'dense', 'w': 2, 'col': 1, 'by': 'hdr'},
                    {'d': 'libsvm', 'lab': 'list1s', 'lt': None, 'ys': ys, 'f': 'sparsei'},
                    {'d': 'manik', 'lab': 'list1s', 'lt': 'c', 'ys': ys, 'f': 'sparsei'},
                    {'d': 'libsvm', 'lab': 'list1s', 'lt': 'm', 'ys': ys, 'f': 'sparsei'},
                    {'d': 'prerows', 'lab': 'list1', 'lt': None, 'decl': 'm', 'ys': ys, 'f': 'dense', 'w': 2, 'col': 1, 'by': 'idx'}]
        for ys in ([7], [3, 5], [6, 1, 0], [5, 3, 2]):
            out += [{'d': 'xy', 'lab': 'mstr', 'lt': 'm', 'ys': ys, 'f': 'dense', 'w': 2},
                    {'d': 'xy', 'lab': 'mtup', 'lt': 'm', 'ys': ys, 'f': 'dense', 'w': 2},
                    {'d': 'pairs', 'lab': 'mstr', 'lt': 'm', 'ys': ys, 'f': 'dense', 'w': 2},
                    {'d': 'srows', 'lab': 'mstr', 'lt': 'm', 'ys': ys, 'f': 'sparse', 'by': 'hdr'},
                    {'d': 'libsvm', 'lab': 'mnumstr', 'lt': 'm', 'ys': ys, 'f': 'sparsei'},
                    {'d': 'manik', 'lab': 'mnumstr', 'lt': 'm', 'ys': ys, 'f': 'sparsei'}]
        return out

    def probe(self, cases, hashseed):
        """The action lists of `cases` as read by a fresh interpreter started with PYTHONHASHSEED=hashseed."""
        env = dict(os.environ, PYTHONHASHSEED=str(hashseed), PYTHONPATH=f'{VERIF}:{REPO}', COBA_REPO=REPO, PYTHONDONTWRITEBYTECODE='1')
        src = ('import sys, json, os\nfrom vf.props.c14 import CHECK\nimport coba\n'
               'print("C14-RESULT " + json.dumps({"file": os.path.realpath(os.path.dirname(os.path.dirname(coba.__file__))), "seed": os.environ.get("PYTHONHASHSEED"),'
               ' "lists": [CHECK.raw_actions(c) for c in json.loads(sys.argv[1])]}))')
        try:
            p = subprocess.run([sys.executable, '-B', '-W', 'ignore', '-c', src, json.dumps(cases)], env=env, capture_output=True, text=True, timeout=300, cwd='/')
        except subprocess.TimeoutExpired:
            raise HarnessError('hash-seed subprocess did not finish in 300 s')
        line = [l for l in p.stdout.splitlines() if l.startswith('C14-RESULT ')]
        if p.returncode != 0 or not line:
            raise HarnessError(f'hash-seed subprocess failed rc={p.returncode}: {p.stderr[-800:]}')
        got = json.loads(line[0][len('C14-RESULT '):])
        if got['file'] != REPO or got['seed'] != str(hashseed):
            raise HarnessError(f'hash-seed subprocess imported coba from {got["file"]} with hash seed {got["seed"]}')
        return got['lists']

    @staticmethod
    def order_kind(case):
        lt = case['lt'] if case['lt'] is not None else case.get('decl') if case.get('decl', NA) != NA else None
        return {'c': 'classification', 'm': 'multi-label', None: 'classification'}[lt]

    def check_hashseeds(self, cases, seeds, acc):
        here = [self.raw_actions(c) for c in cases]
        for h in seeds:
            there = self.probe(cases, h)
            acc.count('hashseed_process_reads', len(cases))
            for i, (c, a, b) in enumerate(zip(cases, here, there)):
                if a != b:
                    acc.violation(f'SupervisedSimulation|action list order depends on the hash seed of the process|{self.order_kind(c)}',
                                  f'this process (PYTHONHASHSEED={os.environ.get("PYTHONHASHSEED")}) offers {a}, a fresh process with PYTHONHASHSEED={h} offers {b}: {c}',
                                  {'mode': 'hashseed', 'case': c, 'seed': h}, order=(10 ** 9, h, i))

    def post(self, acc, tier):
        # (a) one action list per label SET, whatever the sequence / number of the examples
        for n, (okey, vals) in enumerate(sorted(acc.notes.items())):
            if not okey.startswith('["order"'): continue
            by = {}
            for v in vals:
                alist, ys = json.loads(v)
                if alist not in by or (len(ys), ys) < (len(by[alist]), by[alist]): by[alist] = ys
            acc.count('order_keys')
            if len(by) > 1:
                _, kind, desc, ls = json.loads(okey)
                (a1, y1), (a2, y2) = sorted(by.items(), key=lambda kv: (len(kv[1]), kv[1]))[:2]
                acc.violation('SupervisedSimulation|action list order depends on the sequence of the examples|' + {'c': 'classification', 'm': 'multi-label'}[kind],
                              f'labels {ls}: example labels {y1} offer {a1}, example labels {y2} offer {a2}: {desc}',
                              {'mode': 'pair', 'cases': [dict(desc, ys=y1), dict(desc, ys=y2)]}, order=(10 ** 9 - 1, n))
        # (c) string labels: the list is the same in fresh interpreters with other hash seeds
        self.check_hashseeds(self.hash_cases(), (1, 2, 3), acc)
        return {'hashseed_processes': 3}

    def replay(self, witness, acc):
        mode = witness.get('mode') if isinstance(witness, dict) else None
        if mode == 'pair':
            a, b = (self.raw_actions(c) for c in witness['cases'])
            if a != b:
                acc.violation('SupervisedSimulation|action list order depends on the sequence of the examples|' + self.order_kind(witness['cases'][0]),
                              f'{witness["cases"][0]} offers {a}, {witness["cases"][1]} offers {b}', witness)
            return
        if mode == 'hashseed':
            return self.check_hashseeds([witness['case']], (witness['seed'],), acc)
        return self.run_case(witness, acc)

    # -------------------------------------------------------------- the reference model
    def compare(self, comp, level, kind, got, idx, feats, labs, case, feat, rec):
        d, lab, lt = case['d'], case['lab'], case['lt']
        take = case.get('take')
        K = lambda mode, extra=None: f'{comp}|{mode}|{extra if extra is not None else feat}'
        for k, it in enumerate(got):
            if not isinstance(it, dict) or not all(x in it for x in ('context', 'actions', 'rewards')):
                rec.violation(K('interaction lacks context/actions/rewards'), f'interaction {k}: {it!r}'); return
        # ---- contexts: the features without the label, in the order of the examples / of the reservoir sample
        mats = []
        for k, it in enumerate(got):
            form, val, problem = materialise(it['context'])
            if problem:
                rec.violation(K(problem), f'interaction {k} of {case}'); return
            mats.append((form, val))

        def which(form, val, prefer):
            cands = ([prefer] if prefer is not None else []) + [j for j in range(len(feats)) if j != prefer]
            for j in cands:
                if form == expected_form(feats[j]) and val == feats[j]: return j
            return None
        got_idx = [which(form, val, idx[k] if k < len(idx) else None) for k, (form, val) in enumerate(mats)]
        if None not in got_idx and got_idx != idx:
            if take is None:
                rec.violation(K('interactions are not the examples in their order'), f'interactions show examples {got_idx}, expected {idx}: {case}')
            else:
                rec.violation(K('interactions are not the seeded reservoir sample in its order', 'take given'), f'interactions show examples {got_idx}, pipes.Reservoir(take) gives {idx}: {case}')
            return
        if len(got) != len(idx):
            rec.violation(K('wrong number of interactions'), f'{len(got)} interactions for {len(idx)} expected examples: {case}'); return
        exp_ctx = [feats[j] for j in idx]
        for k, ((form, val), e) in enumerate(zip(mats, exp_ctx)):
            if form == expected_form(e) and val == e: continue
            j = idx[k]
            rawlab = label_value(lab, case['ys'][j], j)
            inside = (isinstance(val, dict) and len(val) == len(e) + 1 and all(val.get(a) == b for a, b in e.items())) if isinstance(e, dict) else \
                     (isinstance(val, list) and isinstance(e, list) and len(val) == len(e) + 1)
            if inside:
                rec.violation(K('label kept in the context'), f'interaction {k}: context {val!r}, features {e!r}, label {rawlab!r}: {case}'); return
            if isinstance(val, list) and isinstance(e, list) and len(val) == len(e) and any(str(labs[j]) == str(x) for x in val):
                rec.violation(K('wrong column removed from the context'), f'interaction {k}: context {val!r}, features {e!r}, label {rawlab!r}: {case}'); return
            rec.violation(K('context is not the features of the example'), f'interaction {k}: context {val!r} ({form}), expected {e!r}: {case}'); return
        # ---- rewards and actions
        lfeat = f'{GROUP.get(lab, lab)} labels as ' + {'c': 'classification', 'm': 'multi-label', 'r': 'regression'}[kind]
        universe = UNIVERSE[lab]
        if kind == 'c':
            delist = lambda l: l[0] if isinstance(l, list) else l
            want = [delist(labs[j]) for j in idx]
            onehot = level == 'envs' and lab in CATS
            A0 = got[0]['actions'] if got else None
            for k, it in enumerate(got):
                A = it['actions']
                if not isinstance(A, (list, tuple)):
                    rec.violation(K('actions are not a list', lfeat), f'interaction {k}: actions {A!r}: {case}'); return
                if list(A) != list(A0):
                    rec.violation(K('action list differs between interactions', lfeat), f'interaction 0: {A0!r}, interaction {k}: {A!r}: {case}'); return
            if got:
                A = list(A0)
                if any(A[i] == A[j] for i in range(len(A)) for j in range(i)):
                    rec.violation(K('duplicate action', lfeat), f'actions {A!r}: {case}'); return
                sample_d = [l for i, l in enumerate(want) if l not in want[:i]]
                all_want = [delist(l) for l in labs]
                all_d = [l for i, l in enumerate(all_want) if l not in all_want[:i]]
                if lab in CATS:
                    allowed = LEVELS + (['e'] if lab == 'catmix' else []) + (['0'] if d.endswith(('arffs', 'arff2s')) else [])
                    if onehot:
                        ok = len(sample_d) <= len(A) <= len(allowed)
                    else:
                        ok = all(l in A for l in sample_d) and all(a in allowed for a in A)
                    if not ok:
                        rec.violation(K('action set is not (the declared levels containing) the distinct labels', lfeat), f'actions {A!r}, labels {sample_d!r}, declared {allowed!r}: {case}'); return
                else:
                    same = lambda D: len(A) == len(D) and all(l in A for l in D)
                    if not (same(sample_d) or same(all_d)):
                        miss = [l for l in sample_d if l not in A]
                        mode = 'a label of the data is not offered as an action' if miss else 'an action is offered that is not a label of the data'
                        rec.violation(K(mode, lfeat), f'actions {A!r}, distinct labels {sample_d!r}: {case}'); return
            winners = {}
            for k, it in enumerate(got):
                r = it['rewards']
                l = want[k]
                try:
                    vals = [r(a) for a in it['actions']]
                    if not onehot:
                        own = r(l)
                        others = [(u, r(u)) for u in universe if u != l]
                except Exception as e:   # noqa
                    rec.violation(K(f'reward raises {type(e).__name__}', lfeat), f'interaction {k} rewards {srepr(r)}: {e!r}: {case}'); return
                if onehot:
                    if sorted(vals) != [0] * (len(vals) - 1) + [1]:
                        rec.violation(K('not exactly one offered action has reward 1', lfeat), f'interaction {k}: rewards over the actions {vals}: {case}'); return
                    w = vals.index(1)
                    if winners.setdefault(l, w) != w or any(w2 == w for l2, w2 in winners.items() if l2 != l):
                        rec.violation(K('rewarded action does not follow the label', lfeat), f'interaction {k}: label {l!r} rewards action #{w}, before: {winners}: {case}'); return
                else:
                    if own != 1:
                        rec.violation(K('reward of the true label is not 1', lfeat), f'interaction {k}: rewards({l!r}) = {own!r}: {case}'); return
                    bad = [(a, v) for a, v in zip(it['actions'], vals) if v != (1 if a == l else 0)] + [(u, v) for u, v in others if v != 0]
                    if bad:
                        rec.violation(K('reward of another action is not 0', lfeat), f'interaction {k}: label {l!r}, rewards {bad!r}: {case}'); return
                rec.checked += 1
        elif kind == 'm':
            subs = subsets(universe)
            for k, it in enumerate(got):
                Y = labs[idx[k]]
                Y = [str(y) for y in Y] if lab == 'mnumstr' or lab == 'list1s' else list(Y)
                r = it['rewards']
                ef = 'label_type=m empty label set' if not Y else lfeat
                for S in subs:
                    if not S and not Y: continue               # 0/0: undefined
                    for form in (S, S[::-1]) if len(S) == 2 else (S,):
                        try:
                            v = r(list(form))
                        except Exception as e:   # noqa
                            rec.violation(K(f'reward raises {type(e).__name__}', ef), f'interaction {k}: {srepr(r)}({form!r}): {e!r}: {case}'); return
                        if not isinstance(v, (int, float)) or abs(v - jaccard(form, Y)) > 1e-12:
                            rec.violation(K('reward is not the Jaccard overlap', ef), f'interaction {k}: label set {Y!r}, rewards({form!r}) = {v!r}, expected {jaccard(form, Y)}: {case}'); return
                rec.checked += 1
        elif kind == 'r':
            for k, it in enumerate(got):
                l = labs[idx[k]]
                form = ('list[%s]' % type(l[0]).__name__) if isinstance(l, list) else type(l).__name__
                if lab == 'mixnum' or (d == 'srows0' and lab == 'numstr'): form = 'numbers and numeric text in one label column'
                y = l[0] if isinstance(l, list) else l
                y = float(y) if isinstance(y, str) else y
                r = it['rewards']
                for a in (y, y + 1, y - 0.5, 0, 3, -7.25):
                    try:
                        v = r(a)
                    except Exception as e:   # noqa
                        rec.violation(K(f'reward raises {type(e).__name__}', f'label_type=r label delivered as {form}'), f'interaction {k}: {srepr(r)}({a!r}): {e!r}: {case}'); return
                    if not isinstance(v, (int, float)) or abs(v + abs(a - y)) > 1e-9:
                        rec.violation(K('reward is not the negative absolute error', f'label_type=r label delivered as {form}'), f'interaction {k}: label {y!r}, rewards({a!r}) = {v!r}: {case}'); return
                rec.checked += 1
        else:
            raise ValueError(kind)


CHECK = C14()
