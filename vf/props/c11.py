"""C11 - Scale and Impute apply exactly the statistics of their fitting window (ENUM engine).

Every feature column over a small cell alphabet (numbers, None, NaN, a string, 0 / sparse-absent) of <=3 (<=4) rows,
alone or next to a second feature, is rendered as a dense list, a dense tuple, a sparse dict and a scalar context,
pushed through the REAL `Scale` / `Impute` filter for every (shift, scale, using) / (stat, indicator, using) choice
and compared cell by cell with a reference that computes the window statistics with exact `Fraction` arithmetic.
`Environments.scale` / `Environments.impute` are compared with the explicit composition of the real filters.
"""
import itertools, math, re
from fractions import Fraction
from functools import lru_cache
from collections import Counter
from collections.abc import Mapping

from vf.core import Check, jsonable

from coba.context import CobaContext, NullLogger, MemoryCacher
from coba.exceptions import CobaException
from coba.primitives import SimulatedInteraction
from coba.environments import Environments
from coba.environments.filters import Scale, Impute

NAN = float('nan')


class _Abs:
    def __repr__(self): return '<absent>'


ABS = _Abs()                              # a sparse key that is not present in a row (coba convention: value 0)

KEYS = ['x', 'y']                         # sparse feature keys
DENSE_TOKENS = [1, 2, 5, None, 'nan', 'a', 0]
SPARSE_TOKENS = [1, 2, 5, None, 'nan', 'a', 'abs']
SMALL_TOKENS = [1, 2, None, 'a']          # second feature / Environments-level data

SHIFTS = [0, 2, 'min', 'mean', 'med']
SCALES = [3, 'minmax', 'std', 'iqr', 'maxabs']
REDUCED_PAIRS = [(0, 3), (2, 3), (0, 'minmax'), ('min', 'minmax'), ('mean', 'std'), ('med', 'iqr'), (2, 'maxabs'), ('min', 3), (0, 'std')]
# type / sign of the numbers: int and float, positive and negative values; int and float spellings of numeric shift / scale
TYPED_TOKENS = [1, 2.5, -3, -1.5, None]
SHIFTS_T = [0, 0.0, 2, 2.0, 'min', 'mean', 'med']
SCALES_T = [3, 3.0, 'minmax', 'std', 'iqr', 'maxabs']
STATS = ['mean', 'median', 'mode']
STAT_LISTS = [[s] for s in STATS] + [list(p) for p in itertools.product(STATS, repeat=2)]


def tok(t):
    return NAN if t == 'nan' else ABS if t == 'abs' else t


def isnan(v): return isinstance(v, float) and v != v
def isnum(v): return isinstance(v, (int, float)) and not isinstance(v, bool) and v == v
def ismissing(v): return v is None or isnan(v)


def usings(n):
    out = [None, 1]
    for u in (2, n + 1):
        if u not in out: out.append(u)
    return out


# ------------------------------------------------------------------ rendering

def build(cont, cols):
    """Fresh interactions for the columns (lists of tokens); returns (interactions, cells[row][feature])."""
    n = len(cols[0])
    rows, cells = [], []
    for r in range(n):
        c = [tok(col[r]) for col in cols]
        if cont == 'list': ctx = list(c)
        elif cont == 'tuple': ctx = tuple(c)
        elif cont == 'sparse': ctx = {KEYS[j]: v for j, v in enumerate(c) if v is not ABS}
        elif cont == 'scalar': ctx = c[0]
        else: raise ValueError(cont)
        rows.append(SimulatedInteraction(ctx, [1, 2], [0, 1], note=[3, 'x'], action=2, probability=.5))
        cells.append(c)
    return rows, cells


OTHER = {'actions': [1, 2], 'rewards': [0, 1], 'note': [3, 'x'], 'action': 2, 'probability': .5}


def col_kind(vals):
    """vals: the column with absent cells already read as 0."""
    has_str = any(isinstance(v, str) for v in vals)
    has_num = any(isnum(v) for v in vals)
    if has_str and has_num: return 'mixed'
    if has_str: return 'str'
    if has_num: return 'num'
    return 'empty'


# ------------------------------------------------------------------ reference statistics (exact)

def _median(vs):
    s = sorted(vs); n = len(s)
    return Fraction(s[n // 2]) if n % 2 else (Fraction(s[n // 2 - 1]) + Fraction(s[n // 2])) / 2


def _percentile(s, p):      # linear interpolation between closest ranks (the common / numpy default definition)
    i = p * (len(s) - 1)
    lo = i.numerator // i.denominator
    if lo == i: return Fraction(s[lo])
    w = i - lo
    return (1 - w) * s[lo] + w * s[lo + 1]


@lru_cache(maxsize=None)
def scale_stats(wv, shift, scale):
    """(shift, factor) for the numeric window values `wv`, or None when the statement does not define them
    (no value in the window, a single value for std/iqr, a denominator below the documented 1e-6 threshold)."""
    if not wv: return None
    wv = tuple(Fraction(v) for v in wv)          # ints and (exactly representable) floats alike
    if shift == 'min': s = -Fraction(min(wv))
    elif shift == 'mean': s = -Fraction(sum(wv), len(wv))
    elif shift == 'med': s = -_median(wv)
    else: s = Fraction(shift)
    if scale == 'minmax': den = Fraction(max(wv) - min(wv))
    elif scale == 'std':
        if len(wv) < 2: return None
        m = Fraction(sum(wv), len(wv))
        var = sum((v - m) ** 2 for v in wv) / (len(wv) - 1)
        den = math.sqrt(var)
    elif scale == 'iqr':
        if len(wv) < 2: return None
        srt = sorted(wv)
        den = _percentile(srt, Fraction(3, 4)) - _percentile(srt, Fraction(1, 4))
    elif scale == 'maxabs': den = max(abs(v + s) for v in wv)
    else: return s, Fraction(scale)
    if den < 1e-6: return None
    return s, 1 / den


@lru_cache(maxsize=None)
def impute_stat(wv, stat):
    """Acceptable replacement values (list) for the non-missing window values `wv`; None when undefined."""
    if not wv: return None
    if stat == 'mean': return [float(sum(Fraction(v) for v in wv) / len(wv))]
    if stat == 'median': return [float(_median([Fraction(v) for v in wv]))]
    cnt = Counter(wv); top = max(cnt.values())
    return [v for v, c in cnt.items() if c == top]        # any of the most common values is "the mode"


def close(a, b):
    return abs(a - b) <= 1e-9 * max(1.0, abs(b))


# ------------------------------------------------------------------ expectations per cell
# ('same', v)   identical value (None stays None, NaN stays NaN, string stays the string, number stays equal)
# ('num', x)    a number within 1e-9 relative of x
# ('in', [..])  one of the listed values (numbers compared at 1e-9, strings by equality)
# ('missing',)  still missing (None or NaN)
# ('finite',)   any finite number
# ('free',)     not constrained
# every expectation accepts "absent / 0" handling through `cell_ok(..., was_abs)`

def cell_ok(exp, got, was_abs):
    k = exp[0]
    if k == 'free': return True
    if got is ABS:
        if not was_abs: return False            # a key that was present must stay present
        return k in ('finite',) or (k == 'num' and close(0, exp[1])) or (k == 'same' and exp[1] == 0)
    if k == 'same':
        v = exp[1]
        if v is None: return got is None
        if isnan(v): return isnan(got)
        if isinstance(v, str): return isinstance(got, str) and got == v
        return isnum(got) and got == v
    if k == 'num': return isnum(got) and math.isfinite(got) and close(got, exp[1])
    if k == 'in':
        for v in exp[1]:
            if isinstance(v, str):
                if isinstance(got, str) and got == v: return True
            elif isnum(got) and close(got, v): return True
        return False
    if k == 'missing': return ismissing(got)
    if k == 'finite': return isnum(got) and math.isfinite(got)
    raise ValueError(exp)


def changes(exp, cell):
    """Does the expectation demand a value different from the input cell (non-triviality)?"""
    if exp[0] == 'num': return not (isnum(cell) and close(cell, exp[1])) and not (cell is ABS and close(0, exp[1]))
    if exp[0] == 'in': return True
    return False


@lru_cache(maxsize=None)
def ref_scale_col(coltoks, using, shift, scale):
    """Expectation per row for one feature column (tuple of tokens) under Scale; also returns the column kind."""
    cells = [tok(t) for t in coltoks]
    vals = [0 if c is ABS else c for c in cells]
    kind = col_kind(vals)
    if kind == 'mixed': return kind, [('free',)] * len(cells)
    if kind == 'str': return kind, [('same', v) for v in vals]
    if kind == 'empty': return kind, [('missing',)] * len(cells)
    wv = tuple(v for v in vals[:using] if isnum(v))
    st = scale_stats(wv, shift, scale)
    out = []
    for v in vals:
        if not isnum(v): out.append(('missing',))
        elif st is None: out.append(('finite',))
        else:
            s, f = st
            out.append(('num', float(Fraction(v) + s) * f if isinstance(f, float) else float((Fraction(v) + s) * f)))
    return ('num' if st is not None else 'num-degenerate'), out


@lru_cache(maxsize=None)
def ref_impute_col(coltoks, using, stat):
    """(kind, expectation per row, indicator status 'req'|'opt'|'no', allowed indicator values per row)."""
    cells = [tok(t) for t in coltoks]
    vals = [0 if c is ABS else c for c in cells]
    kind = col_kind(vals)
    window = vals[:using]
    w_none = any(v is None for v in window)
    w_nan = any(isnan(v) for v in window)
    has_nan = any(isnan(v) for v in vals)
    imputable = kind == 'num' or (stat == 'mode' and kind == 'str')
    wv = tuple(v for v in window if v is not None and not isnan(v))
    cand = impute_stat(wv, stat) if imputable and not w_nan else None
    exp, ind = [], []
    for v in vals:
        if v is None:
            if kind == 'mixed' or w_nan: exp.append(('free',))
            elif not imputable: exp.append(('same', None) if kind == 'str' else ('free',))
            elif cand is None: exp.append(('free',))
            else: exp.append(('in', cand))
            ind.append((1,) if (cand is not None and kind != 'mixed') else (0, 1))
        elif isnan(v):
            exp.append(('free',)); ind.append((0, 1))
        else:
            exp.append(('same', v)); ind.append((0,))
    if w_none: status = 'req' if (cand is not None and kind != 'mixed') else 'opt'
    else: status = 'opt' if w_nan else 'no'
    return kind, exp, status, ind


# ------------------------------------------------------------------ reading the output back

def out_cells(cont, ctx, nfeat):
    """-> (feature cells, extra values list | dict) or raises ValueError(text) when the shape is wrong."""
    if cont in ('list', 'tuple'):
        if not isinstance(ctx, (list, tuple)): raise ValueError(f'dense context became {type(ctx).__name__}')
        if len(ctx) < nfeat: raise ValueError(f'dense context lost features: {ctx!r}')
        return list(ctx[:nfeat]), list(ctx[nfeat:])
    if cont == 'sparse':
        if not isinstance(ctx, Mapping): raise ValueError(f'sparse context became {type(ctx).__name__}')
        return [ctx.get(k, ABS) for k in KEYS[:nfeat]], {k: v for k, v in ctx.items() if k not in KEYS[:nfeat]}
    if isinstance(ctx, (list, tuple)):            # scalar + indicator is documented to become [value, indicator]
        if len(ctx) < 1: raise ValueError('scalar context became an empty sequence')
        return [ctx[0]], list(ctx[1:])
    if isinstance(ctx, Mapping): raise ValueError('scalar context became a mapping')
    return [ctx], []


def describe(cells, using):
    """The discriminating feature of a (minimised) column for violation keys."""
    vals = [0 if c is ABS else c for c in cells]
    kind = col_kind(vals)
    if kind == 'str': return 'string feature'
    if kind == 'mixed': return 'feature mixing strings and numbers'
    w = cells[:using]
    f = []
    if cells[0] is None: f.append('None in first row')
    if any(v is None for v in cells[1:]): f.append('None in later row')
    if any(isnan(v) for v in w): f.append('NaN in window')
    elif any(isnan(v) for v in cells): f.append('NaN outside window')
    if all(c is ABS for c in w) and any(c is not ABS for c in cells): f.append('key absent in whole window')
    if kind == 'empty': f.append('no value at all')
    return ' + '.join(f) if f else 'no missing values'


def cshape(cont): return 'dense' if cont in ('list', 'tuple') else cont


class MemEnv:
    def __init__(self, interactions): self._i = interactions
    @property
    def params(self): return {}
    def read(self): return iter([i.copy() for i in self._i])


def canon(x):
    """Hashable, NaN-safe canonical form of a filter/environment output."""
    if isinstance(x, float):
        if x != x: return 'nan'
        return round(x, 9)
    if isinstance(x, (list, tuple)): return tuple(canon(v) for v in x)
    if isinstance(x, Mapping): return tuple(sorted(((repr(k), canon(v)) for k, v in x.items())))
    if x is None or isinstance(x, (int, str, bool)): return x
    if x is ABS: return '<abs>'
    return re.sub(r' at 0x[0-9a-f]+', '', repr(x))


class Fail(Exception):
    """A failed comparison: component, failure mode, culprit feature (or None), text."""
    def __init__(self, comp, mode, j, what):
        self.comp, self.mode, self.j, self.what = comp, mode, j, what


def check_other_fields(comp, rows_out):
    for r, it in enumerate(rows_out):
        if not isinstance(it, dict): raise Fail(comp, 'output is not an interaction', None, f'row {r} is {type(it).__name__}')
        if set(it) != set(OTHER) | {'context'}: raise Fail(comp, 'interaction fields added or dropped', None, f'row {r} has fields {sorted(it)}')
        for f, v in OTHER.items():
            if it[f] != v or type(it[f]) is not type(v):
                raise Fail(comp, f'field {f} changed', None, f'row {r}: {f}={it[f]!r}, expected {v!r}')


def eval_scale(cont, cols, params, flt=None):
    """Run the real Scale (a fresh one, or the given object) on fresh interactions and compare
    -> (nontrivial, outcome signature); raises Fail."""
    shift, scale, using = params
    rows, cells = build(cont, cols)
    nfeat, n = len(cols), len(rows)
    colcells = [[cells[r][j] for r in range(n)] for j in range(nfeat)]
    refs = [ref_scale_col(tuple(c), using, shift, scale) for c in cols]
    try:
        out = list((flt or Scale(shift, scale, 'context', using)).filter(rows))
    except CobaException as e:
        if cont == 'sparse' and shift != 0: return False, 'scale-rejected-sparse-shift'
        raise Fail('Scale', 'raises CobaException', None, repr(e))
    except Exception as e:      # noqa
        if any(k == 'mixed' for k, _ in refs): return False, f'scale-mixed-raises-{type(e).__name__}'
        raise Fail('Scale', f'raises {type(e).__name__}', None, f'Scale.filter raised {e!r}')
    if len(out) != n: raise Fail('Scale', 'wrong number of interactions', None, f'{n} in, {len(out)} out')
    check_other_fields('Scale', out)
    got_rows = []
    for r, it in enumerate(out):
        try:
            g, extra = out_cells(cont, it['context'], nfeat)
        except ValueError as e:
            raise Fail('Scale', 'context shape changed', None, str(e))
        if extra: raise Fail('Scale', 'features added', None, f'row {r}: extra {extra!r}')
        got_rows.append(g)
    nontrivial = False
    for j in range(nfeat):
        kind, exp = refs[j]
        for r in range(n):
            c = cells[r][j]
            if changes(exp[r], c): nontrivial = True
            if not cell_ok(exp[r], got_rows[r][j], c is ABS):
                if kind == 'str': mode = 'non-numeric feature changed'
                elif exp[r][0] == 'missing': mode = 'missing value not left missing'
                else: mode = 'wrong value'
                raise Fail('Scale', mode, j, f'feature {j} row {r}: input {c!r}, expected {exp[r]!r}, got {got_rows[r][j]!r}; column {colcells[j]!r}')
    return nontrivial, hash('S' + cont + repr(got_rows))


def eval_impute(cont, cols, params, flt=None):
    """Run the real Impute (a fresh one, or the given object) on fresh interactions and compare
    -> (nontrivial, outcome signature); raises Fail."""
    stat, indicator, using = params
    rows, cells = build(cont, cols)
    nfeat, n = len(cols), len(rows)
    colcells = [[cells[r][j] for r in range(n)] for j in range(nfeat)]
    refs = [ref_impute_col(tuple(c), using, stat) for c in cols]
    try:
        out = list((flt or Impute(stat, indicator, using)).filter(rows))
    except Exception as e:      # noqa
        if any(r[0] == 'mixed' for r in refs): return False, f'impute-mixed-raises-{type(e).__name__}'
        raise Fail('Impute', f'raises {type(e).__name__}', None, f'Impute.filter raised {e!r}')
    if len(out) != n: raise Fail('Impute', 'wrong number of interactions', None, f'{n} in, {len(out)} out')
    check_other_fields('Impute', out)
    got_rows, extras = [], []
    for r, it in enumerate(out):
        try:
            g, extra = out_cells(cont, it['context'], nfeat)
        except ValueError as e:
            raise Fail('Impute', 'context shape changed', None, str(e))
        got_rows.append(g); extras.append(extra)
    nontrivial = False
    for j in range(nfeat):
        kind, exp, status, ind = refs[j]
        if indicator and status == 'req': nontrivial = True
        for r in range(n):
            c = cells[r][j]
            if changes(exp[r], c): nontrivial = True
            if not cell_ok(exp[r], got_rows[r][j], c is ABS):
                if c is None: mode = 'missing value not replaced by the window statistic' if exp[r][0] == 'in' else 'missing value of a non-imputable feature changed'
                else: mode = 'non-missing value changed'
                raise Fail('Impute', mode, j, f'feature {j} row {r}: input {c!r}, expected {exp[r]!r}, got {got_rows[r][j]!r}; column {colcells[j]!r}')
    # indicator features
    if cont == 'sparse':
        names = sorted({k for e in extras for k in e}, key=repr)
        ext = [[e.get(k, 0) for k in names] for e in extras]
    else:
        if len({len(e) for e in extras}) != 1: raise Fail('Impute', 'rows got different numbers of added features', None, f'extras {extras!r}')
        ext = extras
    k = len(ext[0])
    req = [j for j in range(nfeat) if indicator and refs[j][2] == 'req']
    opt = [j for j in range(nfeat) if indicator and refs[j][2] == 'opt']
    ok = False
    if len(req) <= k <= len(req) + len(opt):
        for extra_opt in itertools.combinations(opt, k - len(req)):
            for perm in itertools.permutations(req + list(extra_opt)):
                if all(type(ext[r][p]) in (int, float) and ext[r][p] in refs[j][3][r] for p, j in enumerate(perm) for r in range(n)):
                    ok = True; break
            if ok: break
    if not ok:
        if not indicator: mode = 'features added although indicator=False'
        elif k < len(req): mode = 'missingness indicator absent for a feature with missing values in the window'
        elif k > len(req) + len(opt): mode = 'indicator added for a feature without missing values in the window'
        else: mode = 'indicator values are not the 0/1 missingness of the feature'
        raise Fail('Impute', mode, None, f'added features per row {ext!r}; required for features {req}, optional for {opt}; columns {colcells!r}')
    return nontrivial, hash('I' + cont + repr(got_rows) + repr(ext))


def read_env(env):
    out = [dict(i) for i in env.read()]
    return ('ok', canon(out), [jsonable(i.get('context')) for i in out])


def guarded(f):
    try: return f()
    except Exception as e: return ('raises', type(e).__name__)     # noqa


def show_env(r): return f'contexts {r[2]}' if r[0] == 'ok' else str(r)


def explicit_env(op, cont, cols, params):
    """What one environment must read as: the real filters, FRESH objects, applied in order, then wrapped in Environments."""
    rows, _ = build(cont, cols)
    if op.endswith('impute'):
        stats, indicator, using = params
        def f():
            data = rows
            for st in ([stats] if isinstance(stats, str) else list(stats)): data = list(Impute(st, indicator, using).filter(data))
            return read_env(Environments(MemEnv(data))[0])
    else:
        shift, scale, using = params
        def f(): return read_env(Environments(MemEnv(list(Scale(shift, scale, 'context', using).filter(rows))))[0])
    return guarded(f)


_EXPLICIT = {}


def explicit_env_cached(op, cont, cols, params):
    k = repr((op[-6:], cont, cols, params))
    if k not in _EXPLICIT:
        if len(_EXPLICIT) > 100000: _EXPLICIT.clear()
        _EXPLICIT[k] = explicit_env(op, cont, cols, params)
    return _EXPLICIT[k]


def eval_reuse(op, cont, seq, params):
    """ONE Scale / Impute object filters the streams of `seq` one after the other; every result must satisfy the
    reference for ITS OWN window (i.e. equal what a fresh filter gives)."""
    if op == 'reuse_scale': flt, ev = Scale(params[0], params[1], 'context', params[2]), eval_scale
    else: flt, ev = Impute(*params), eval_impute
    sigs, nts = [], []
    for step, cols in enumerate(seq):
        try:
            nt, sig = ev(cont, cols, params, flt)
        except Fail as f:
            f.step, f.cols = step, cols
            raise
        nts.append(nt); sigs.append(sig)
    return sum(nts) >= 2, hash(('R', op, tuple(sigs)))


def eval_env2(op, cont, seq, params):
    """ONE Environments.scale / .impute call over several environments with different data: every member, read in
    the order 0,1,..,0, must read as the explicit fresh-filter composition over its own data."""
    base = 'env_' + op[5:]
    comp = 'Environments.impute' if base == 'env_impute' else 'Environments.scale'
    members = [MemEnv(build(cont, cols)[0]) for cols in seq]
    try:
        if base == 'env_impute': envs = Environments(*members).impute(*params)
        else: envs = Environments(*members).scale(params[0], params[1], 'context', params[2])
    except Exception as e:      # noqa
        raise Fail(comp, f'raises {type(e).__name__}', 'several environments', repr(e))
    if len(envs) != len(seq):
        raise Fail(comp, 'wrong number of environments', 'several environments', f'{len(seq)} in, {len(envs)} out')
    sigs = []
    order = list(range(len(seq))) + [0]
    for pos, i in enumerate(order):
        got = guarded(lambda: read_env(envs[i]))
        exp = explicit_env_cached(base, cont, seq[i], params)
        if got[:2] != exp[:2]:
            f = Fail(comp, 'an environment differs from filtering it alone', 'several environments',
                     f'environment {i} (read number {pos + 1}): {show_env(got)}; alone: {show_env(exp)}')
            f.step, f.cols = pos, seq[i]
            raise f
        sigs.append(got[:2])
    return all(g[0] == 'ok' for g in sigs) and len({g for g in sigs}) > 1, hash(('E2', op, tuple(sigs)))


def eval_env(op, cont, cols, params):
    """Environments.impute / Environments.scale vs the explicit in-order composition of the real filters."""
    rows, _ = build(cont, cols)
    rows2, _ = build(cont, cols)

    def read(envs):
        if len(envs) != 1: return ('n-environments', len(envs))
        return read_env(envs[0])

    if op == 'env_impute':
        stats, indicator, using = params
        slist = [stats] if isinstance(stats, str) else list(stats)
        got = guarded(lambda: read(Environments(MemEnv(rows)).impute(stats, indicator, using)))

        def explicit():
            data = rows2
            for s in slist: data = list(Impute(s, indicator, using).filter(data))
            return read(Environments(MemEnv(data)))
        exp = guarded(explicit)
        comp, feat = 'Environments.impute', ('one statistic' if len(slist) == 1 else 'list of statistics')
    else:
        shift, scale, using = params
        got = guarded(lambda: read(Environments(MemEnv(rows)).scale(shift, scale, 'context', using)))
        exp = guarded(lambda: read(Environments(MemEnv(list(Scale(shift, scale, 'context', using).filter(rows2))))))
        comp, feat = 'Environments.scale', 'one target'
    if got[:2] != exp[:2]:
        show = show_env
        raise Fail(comp, 'differs from applying the filter(s) in order', feat, f'Environments result: {show(got)}; explicit composition of the filters: {show(exp)}')
    base = guarded(lambda: read(Environments(MemEnv(build(cont, cols)[0]))))
    return exp[0] == 'ok' and exp[:2] != base[:2], hash(('E', op, got[:2]))


def evaluate(op, cont, cols, params):
    if op.startswith('reuse_'): return eval_reuse(op, cont, cols, params)
    if op.startswith('env2_'): return eval_env2(op, cont, cols, params)
    if op == 'scale': return eval_scale(cont, cols, params)
    if op == 'impute': return eval_impute(cont, cols, params)
    return eval_env(op, cont, cols, params)


def fails_same(op, cont, cols, params, comp, mode):
    try:
        evaluate(op, cont, cols, params)
    except Fail as f:
        return (f.comp, f.mode) == (comp, mode)
    return False


def _spell(x): return x if isinstance(x, str) else type(x).__name__


@lru_cache(maxsize=200000)
def minimal_feature(op, cont, col, params, comp, mode, ptypes=None):
    """Greedy minimisation of one failing column: every missing / absent cell that is not needed for the failure is
    replaced by a plain number, every float by an int and every negative number by a positive one; the description
    of what remains is the key's discriminating feature.  (`ptypes` only keeps 0 and 0.0 apart in the cache key.)"""
    col = list(col)
    using = params[2]
    if col_kind([0 if tok(c) is ABS else tok(c) for c in col]) in ('num', 'empty'):
        for i in range(len(col)):
            if col[i] in (None, 'nan', 'abs'):
                for repl in (1, 2):
                    trial = col[:i] + [repl] + col[i + 1:]
                    if fails_same(op, cont, [trial], params, comp, mode):
                        col = trial; break
    numeric = col_kind([0 if tok(c) is ABS else tok(c) for c in col]) == 'num'
    if numeric:
        for i in range(len(col)):
            for simpler in ((lambda v: int(v)) if isinstance(col[i], float) else None, (lambda v: -v) if isnum(col[i]) and col[i] < 0 else None):
                if simpler is None or not isnum(col[i]): continue
                trial = col[:i] + [simpler(col[i])] + col[i + 1:]
                if fails_same(op, cont, [trial], params, comp, mode): col = trial
    feat = describe([tok(c) for c in col], using)
    if feat == 'no missing values' and mode == 'wrong value':
        names = []
        for k, nm in ((0, 'shift'), (1, 'scale')):
            v = params[k]
            if isinstance(v, str): names.append(f'{nm}={v}'); continue
            other = float(v) if isinstance(v, int) else int(v)       # does the failure depend on the int/float spelling?
            p2 = tuple(other if i == k else x for i, x in enumerate(params))
            names.append(f'{nm}=number' if fails_same(op, cont, [col], p2, comp, mode) else f'{nm}={_spell(v)}')
        feat += ' ' + ' '.join(names)
    if numeric:
        if any(isinstance(c, float) and c == c for c in col): feat += ' float values'
        if any(isnum(c) and c < 0 for c in col): feat += ' negative values'
    if op == 'impute':      # name the statistic only when the failure depends on it
        others = [st for st in STATS if st != params[0]]
        if not all(fails_same(op, cont, [col], (st,) + tuple(params[1:]), comp, mode) for st in others):
            feat += ' (mode)' if params[0] == 'mode' else ' (mean/median)'
    return feat


def classify(case, params, f):
    """Violation key = component|failure mode|container shape + minimal discriminating feature of the culprit column."""
    op, cont = case['op'], case['cont']
    shp = cshape(cont)
    if op.startswith('reuse_') or op.startswith('env2_'):
        # a failure that a FRESH filter shows on the same data too is the base failure (same key as there);
        # otherwise the result depends on what the same object filtered before
        if not hasattr(f, 'cols'): return f'{f.comp}|{f.mode}|{f.j}'
        base = op[6:] if op.startswith('reuse_') else 'env_' + op[5:]
        try:
            evaluate(base, cont, f.cols, params)
        except Fail as f0:
            f.base = (base, f.cols, f0.what)          # replay the plain case, not the re-use sequence
            return classify({'op': base, 'cont': cont, 'cols': f.cols}, params, f0)
        earlier = case['seq'][:f.step] if op.startswith('reuse_') else [case['seq'][i] for i in (list(range(len(case['seq']))) + [0])[:f.step]]
        hist = 'first call' if not earlier else 'same data filtered before' if all(c == f.cols for c in earlier) else 'different data filtered before'
        if op.startswith('env2_'): return f'{f.comp}|one call over several environments: {f.mode}|{hist}'
        return f'{f.comp}|result depends on earlier filter() calls of the same object: {f.mode}|{shp} {hist}'
    cols = case['cols']
    if op.startswith('env'): return f'{f.comp}|{f.mode}|{f.j}'
    if f.mode.startswith('field ') or f.mode in ('output is not an interaction', 'interaction fields added or dropped', 'wrong number of interactions'):
        return f'{f.comp}|{f.mode}|{shp}'
    params = tuple(params)
    culprit = None
    if len(cols) == 1: culprit = 0
    else:
        for j in ([f.j] if f.j is not None else range(len(cols))):
            if fails_same(op, cont, [cols[j]], params, f.comp, f.mode): culprit = j; break
    if culprit is None:
        return f'{f.comp}|{f.mode}|{shp} only next to a second feature: ' + ' / '.join(describe([tok(c) for c in col], params[2]) for col in cols)
    return f'{f.comp}|{f.mode}|{shp} ' + minimal_feature(op, cont, tuple(cols[culprit]), params, f.comp, f.mode, tuple(type(x).__name__ for x in params))


class C11(Check):
    ID = 'C11'
    LEVEL = 'exploration'
    ENGINE = 'ENUM'
    RULE = ('case = (filter, container, feature columns[, reduced parameter set]); columns are ALL words over the cell alphabet '
            '{1,2,5,None,NaN,"a",0 (dense/scalar) | absent key (sparse)} with 1..3 rows (thorough 1..4), rendered as dense list, dense tuple, '
            'sparse dict and scalar context; alone, and next to a second feature (all pairs for <=2 rows; beyond that every full-alphabet column '
            'with every column of a reduced alphabet, in both orders). Inside a case EVERY parameter choice is executed on fresh interactions and '
            'counted as one evaluation: Scale shift in {0,2,min,mean,med} x scale in {3,minmax,std,iqr,maxabs} x using in {None,1,2,rows+1} '
            '(sparse: shift 0 x all scales + 4 rejected pairs; large two-feature sub-spaces: 9 representative pairs), Impute stat in {mean,median,mode} '
            'x indicator x using, Environments.impute with every statistic / list of <=2 statistics, Environments.scale with all 25 pairs. '
            'An evaluation is non-trivial when the reference demands a changed cell or an indicator feature (Environments: output differs from input). '
            'Type/sign sub-space: all one-feature columns over {1, 2.5, -3, -1.5, None} (same row bounds, list/sparse/scalar) x shift in {0,0.0,2,2.0,min,mean,med} x scale in {3,3.0,minmax,std,iqr,maxabs} x using, and all Impute parameters. '
            'Re-use dimension: for ALL ordered pairs (A,B) of columns over {1,2,5,None} with <=2 rows (thorough: {1,2,5,None,NaN,"a"} and 3 rows over {1,5,None}; '
            'plus one-/two-feature context pairs) ONE Scale / Impute object filters A,A,B,A and every result must satisfy the reference for its own window; '
            'ONE Environments.scale/.impute call over the environments (A,B) is read in the order A,B,A and every member must read as when filtered alone '
            '(non-trivial: the same object did demanded work at least twice / the members read differently).')
    ASSUMPTIONS = [
        'missing = None, and for Scale also NaN (ignored in the statistics, stays missing in the output: None or NaN accepted)',
        'Impute: a NaN cell, and the replacement value / indicator of a feature with NaN in the window, are not constrained (docstring says nan, code says None)',
        'a sparse key that is absent in a row counts as the value 0 (coba sparse convention) and may come back absent or as 0',
        'Scale of a sparse context with shift != 0 may be rejected with CobaException (documented)',
        'a feature whose window holds no value / a single value for std,iqr / a denominator < 1e-6 (constant feature): only "finite number, no exception" is demanded',
        'a feature column mixing strings and numbers is not constrained (except that Impute changes no non-missing value) and may raise; its neighbours are still checked when no exception is raised',
        'std is the sample standard deviation, iqr uses linear interpolation between closest ranks, any most-common value is accepted as the mode',
        'mean/median leave string features untouched, mode also imputes string features',
        'Impute: a feature with None in the window but no defined statistic (or not imputable by the chosen statistic) may or may not get an indicator; indicator position / key name is free, only a consistent 0/1 column per required feature is demanded; a feature without any missing value in the window must not get one',
        'dense list vs tuple vs other Dense types of the output container are not constrained; input interactions being left unmodified is not demanded here (C04)',
        'Environments.scale/impute are compared (after the Finalize step every Environments member applies) with the explicit in-order composition of the real filters, whose own semantics are checked at filter level',
        're-use: a filter object is assumed to be applied to streams one after the other (not interleaved); a failure that a fresh filter shows on the same data is reported under the plain key, only history-dependent failures get the re-use key',
        'violation keys name the culprit column after greedy minimisation (missing cells that are not needed for the failure are replaced by numbers), so one root cause maps to one key per container shape',
    ]
    MIN_NONTRIVIAL = {'quick': 150000, 'thorough': 1000000}
    TECHNIQUE = 'bounded-exhaustive enumeration of feature columns x containers x all parameter choices on the real Scale/Impute filters vs. an exact-Fraction reference model'
    LEVEL_TEXT = ('Every feature column over {1,2,5,None,NaN,"a",0/absent} with <=3 rows (thorough <=4), alone and paired with a second feature, in dense-list, '
                  'dense-tuple, sparse and scalar form is run through the real Scale (25 shift/scale choices x 4 windows) and Impute (3 statistics x indicator x 4 windows) '
                  'and through Environments.scale/impute (all statistic lists of length <=2); each output cell, every other field and the indicator features are compared '
                  'with an exact reference. Exhaustive below the bound, nothing sampled.')
    LEVEL_NOTE = 'small-scope hypothesis (<=4 rows, <=2 features, 7-symbol cell alphabet plus the int/float x positive/negative sub-space {1,2.5,-3,-1.5,None} with int and float spellings of numeric shift/scale); float comparison at 1e-9 relative; deliberate non-demands listed in assumptions'
    CASE_TIMEOUT = 60

    def setup(self, tier):
        CobaContext.logger = NullLogger(); CobaContext.cacher = MemoryCacher(); CobaContext.search_paths = []

    # ---------------------------------------------------------------- enumeration
    def cases(self, tier):
        maxn = 3 if tier == 'quick' else 4
        for n in range(1, maxn + 1):
            # one feature, every container
            for op in ('scale', 'impute'):
                for cont in ('list', 'sparse', 'scalar', 'tuple'):
                    toks = SPARSE_TOKENS if cont == 'sparse' else DENSE_TOKENS
                    for col in itertools.product(toks, repeat=n):
                        yield {'op': op, 'cont': cont, 'cols': [list(col)]}
            # two features: full-alphabet column next to a reduced-alphabet column, in both orders
            for op in ('scale', 'impute'):
                for cont in ('list', 'sparse', 'tuple'):
                    if cont == 'tuple' and n > 2: continue        # tuple differs from list only in Mutable's first step
                    toks = SPARSE_TOKENS if cont == 'sparse' else DENSE_TOKENS
                    if n == 1 or (n == 2 and tier != 'quick'): seconds = list(itertools.product(toks, repeat=n)); both = False
                    elif n == 2 or (n == 3 and tier != 'quick'): seconds = list(itertools.product(SMALL_TOKENS, repeat=n)); both = True
                    elif tier == 'quick': seconds = [(2, None, 2), (None, 2, 1), ('a', 'a', 'a')]; both = True
                    else: seconds = list(itertools.product([2, None], repeat=n)) + [tuple(['a'] * n)]; both = False
                    # Scale next to a second feature: the cross-feature logic does not depend on the statistic, so the
                    # larger sub-spaces use 9 representative (shift, scale) pairs instead of all 25
                    extra = {'pset': 'reduced'} if op == 'scale' and (n == 4 or (tier == 'quick' and n >= 2)) else {}
                    for c1 in itertools.product(toks, repeat=n):
                        for c2 in seconds:
                            yield {'op': op, 'cont': cont, 'cols': [list(c1), list(c2)], **extra}
                            if both and c1 != c2:      # swapped order: the reduced pairs suffice for Scale
                                yield {'op': op, 'cont': cont, 'cols': [list(c2), list(c1)], **(extra if op == 'impute' else {'pset': 'reduced'})}
            # quick only: 4-row columns over a reduced alphabet, the smallest size where a window holds three values next to
            # a missing one (median != mean); thorough covers 4 rows with the full alphabet above
            if tier == 'quick' and n == 3:
                for op in ('impute', 'scale'):
                    for cont in ('list', 'sparse', 'scalar'):
                        for col in itertools.product([1, 2, 5, None], repeat=4):
                            if op == 'impute' or None in col: yield {'op': op, 'cont': cont, 'cols': [list(col)]}
            # type and sign of the numbers: int/float, positive/negative values x int AND float spellings of numeric shift/scale
            for op in ('scale', 'impute'):
                for cont in ('list', 'sparse', 'scalar'):
                    for col in itertools.product(TYPED_TOKENS, repeat=n):
                        if any(isinstance(c, float) or (c is not None and c < 0) for c in col):
                            yield {'op': op, 'cont': cont, 'cols': [list(col)], 'pset': 'typed'}
            if n == 2: yield from self.reuse_cases(tier)
            # Environments level (composition): small data alphabet (3 rows and all 25 Scale pairs only in thorough)
            if n <= (2 if tier == 'quick' else 3):
                for op in ('env_impute', 'env_scale'):
                    extra = {'pset': 'reduced'} if op == 'env_scale' and tier == 'quick' else {}
                    for cont in ('list', 'sparse', 'scalar'):
                        for c1 in itertools.product(SMALL_TOKENS, repeat=n):
                            yield {'op': op, 'cont': cont, 'cols': [list(c1)], **extra}
                            if cont != 'scalar' and n <= 2:
                                for c2 in itertools.product(SMALL_TOKENS, repeat=n):
                                    yield {'op': op, 'cont': cont, 'cols': [list(c1), list(c2)], **extra}

    def reuse_cases(self, tier):
        """Re-use dimension: the SAME filter object (directly, and through one Environments.scale/impute call over
        several environments) sees a sequence of streams.  All ordered pairs (A,B) of columns of a sub-alphabet:
        sequence A,A,B,A = same data twice, different data, and back."""
        thorough = tier != 'quick'
        alpha = [1, 2, 5, None, 'nan', 'a'] if thorough else [1, 2, 5, None]
        one = [[list(c)] for n in (1, 2) for c in itertools.product(alpha, repeat=n)]
        if thorough: one += [[list(c)] for c in itertools.product([1, 5, None], repeat=3)]
        # contexts with one and with two features (environments need not have the same number of features)
        two = [[list(c)] for c in itertools.product([1, 5], repeat=2)] + \
              [[list(c1), list(c2)] for c1 in itertools.product([1, 5], repeat=2) for c2 in ((2, 2), (2, None), (None, 5))]
        for op in ('reuse_scale', 'reuse_impute'):
            for cont in ('list', 'sparse', 'scalar'):
                for A in one:
                    for B in one:
                        yield {'op': op, 'cont': cont, 'seq': [A, A, B, A] if A != B else [A, A]}
            for cont in ('list', 'sparse'):
                for A in two:
                    for B in two:
                        if A != B and len(A) + len(B) > 2: yield {'op': op, 'cont': cont, 'seq': [A, A, B, A], 'pset': 'reduced'}
        small = [[list(c)] for c in itertools.product([1, 2, 5, None], repeat=2)]
        if thorough: small = [[list(c)] for c in itertools.product([1, 2, 5, None], repeat=1)] + small + two[4:]
        for op in ('env2_scale', 'env2_impute'):
            for cont in ('list', 'sparse', 'scalar'):
                for ia, A in enumerate(small):
                    for ib, B in enumerate(small):
                        if A == B or (cont == 'scalar' and len(A) + len(B) > 2): continue
                        yield {'op': op, 'cont': cont, 'seq': [A, B], 'pset': 'reduced'}
                        if thorough and ia < ib: yield {'op': op, 'cont': cont, 'seq': [A, B, A], 'pset': 'reduced'}

    def param_space(self, case):
        n = max(len(c[0]) for c in case['seq']) if 'seq' in case else len(case['cols'][0])
        if 'params' in case: return [tuple(tuple(p) if isinstance(p, list) and not case['op'].endswith('env_impute') and not case['op'].endswith('env2_impute') else p for p in case['params'])]
        if case['op'] in ('reuse_scale', 'reuse_impute'):
            sub = dict(case, op=case['op'][6:], cols=case['seq'][0]); del sub['seq']
            return [p for p in self.param_space(sub) if p[2] != n + 1 or n == 1]
        if case['op'] == 'env2_scale': return [(sh, sc, u) for sh, sc in REDUCED_PAIRS for u in (None, 1)]
        if case['op'] == 'env2_impute':
            return [(sl, ind, u) for sl in ('mean', ['median'], ['mean', 'mode'], ['mode', 'median']) for ind in (False, True) for u in (None, 1)]
        if case['op'] == 'scale':
            if case.get('pset') == 'typed':
                if case['cont'] == 'sparse': pairs = [(sh, sc) for sh in (0, 0.0) for sc in SCALES_T] + [(2.0, 3.0), ('min', 'maxabs')]
                else: pairs = [(sh, sc) for sh in SHIFTS_T for sc in SCALES_T]
            elif case['cont'] == 'sparse':     # shift != 0 is (documentedly) rejected for sparse contexts: a few such combinations suffice
                pairs = [(0, sc) for sc in SCALES] + [(2, 3), ('min', 'minmax'), ('mean', 'std'), ('med', 'iqr')]
            elif case.get('pset') == 'reduced': pairs = REDUCED_PAIRS
            else: pairs = [(sh, sc) for sh in SHIFTS for sc in SCALES]
            return [(sh, sc, u) for sh, sc in pairs for u in usings(n)]
        if case['op'] == 'impute': return [(st, ind, u) for st in STATS for ind in (False, True) for u in usings(n)]
        if case['op'] == 'env_impute': return [(sl, ind, u) for sl in list(STATS) + STAT_LISTS for ind in (False, True) for u in usings(n)[:3]]
        if case['op'] == 'env_scale':
            pairs = REDUCED_PAIRS if case.get('pset') == 'reduced' else [(sh, sc) for sh in SHIFTS for sc in SCALES]
            return [(sh, sc, u) for sh, sc in pairs for u in usings(n)[:3]]
        raise ValueError(case['op'])

    # ---------------------------------------------------------------- execution
    def run_case(self, case, acc):
        idx = acc._cur[0] if acc._cur else 0
        space = self.param_space(case)
        acc.evaluations += len(space) - 1
        op, cont = case['op'], case['cont']
        cols = case['seq'] if 'seq' in case else case['cols']
        wkey = 'seq' if 'seq' in case else 'cols'
        for pi, params in enumerate(space):
            try:
                nontrivial, sig = evaluate(op, cont, cols, params)
            except Fail as f:
                key = classify(case, params, f)
                if hasattr(f, 'base'):
                    w = {'op': f.base[0], 'cont': cont, 'cols': f.base[1], 'params': list(params)}
                    acc.violation(key, f'{f.base[2]}   [{f.base[0]} {cont} cols={f.base[1]} params={list(params)}]', w)
                    continue
                w = {'op': op, 'cont': cont, wkey: cols, 'params': list(params)}
                step = f'call {f.step + 1} of the same object: ' if hasattr(f, 'step') else ''
                acc.violation(key, f'{step}{f.what}   [{op} {cont} {wkey}={cols} params={list(params)}]', w)
                continue
            acc.outcome(sig)
            if nontrivial: acc.mark_nontrivial(idx * 1024 + pi if 'params' not in case else None)


CHECK = C11()
