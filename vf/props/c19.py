"""C19 - ConcurrentCacher: no partial entries, locks released, nobody waits forever.   (SCHED + CRASH)

Part A (SCHED): 2..3 callers (threads sharing one cacher / simulated processes each owning a pickled copy) run short
programs of get_set / rmv operations on equal, hash-colliding and distinct keys against the REAL ConcurrentCacher, whose
lock and shared array are the scheduler's primitives (constructor arguments) and whose retry `time.sleep` is a
blocking wait; an instrumented inner cache monitors readers/writers/removers per key at every phase.  All schedules
within the deviation bound are executed.
Part B (CRASH): real DiskCacher - every byte-prefix of a written cache file is planted and read back; getters that fail
after i of n lines.
"""
import os, sys, json, gzip, itertools, threading, collections, shutil, subprocess
from hashlib import blake2b

from vf.engines import sched
sched.install()

from vf.core import Check, HarnessError, tmpdir, VERIF, REPO      # noqa: E402
from vf.lib import cobaenv                            # noqa: E402
import coba                                           # noqa: E402
cobaenv.register()
import coba.context.cachers as cachers_mod            # noqa: E402
from coba.context.cachers import ConcurrentCacher, DiskCacher, MemoryCacher    # noqa: E402
from coba.exceptions import CobaException             # noqa: E402


# ---------------------------------------------------------------- the sleep seam
class _ShimTime:
    """`coba.context.cachers.time`: sleep = blocked until some shared-array cell has been written since."""
    def __getattr__(self, n):
        import time
        return getattr(time, n)

    @staticmethod
    def sleep(secs):
        s = sched.CUR
        if s is None or sched.current_task() is None:
            # sequential use (part B): a retry loop that sleeps can only be waiting for itself
            SPINS[0] += 1
            if SPINS[0] > 20: raise HangDetected()
            return
        e0 = WRITE_EPOCH[0]
        sched.yield_point('sleep', 'sleep', lambda: WRITE_EPOCH[0] != e0)


WRITE_EPOCH = [0]
SPINS = [0]


class HangDetected(BaseException):
    """A sequential caller is spinning on a lock nobody else can release."""


cachers_mod.time = _ShimTime()


ARRAYS = []


class MonArray(sched.FakeArray):
    def __init__(self, ctype, init):
        super().__init__(ctype, init)
        ARRAYS.append(self)

    def __setitem__(self, i, v):
        sched.yield_point(f'{self._key}[{i}]', 'write')
        self._cells[i] = v
        WRITE_EPOCH[0] += 1


# ---------------------------------------------------------------- colliding keys
def _index(key):
    return int.from_bytes(blake2b(str(key).encode('utf-8'), digest_size=2).digest(), 'big')


def _find_collision():
    seen = {}
    for i in itertools.count():
        k = f'k{i}'
        ix = _index(k)
        if ix in seen: return seen[ix], k
        seen[ix] = k


sched.FakeContext.ARRAY_CLS = MonArray

K1, K2 = _find_collision()          # different keys, same 16-bit lock index
K3 = next(f'd{i}' for i in itertools.count() if _index(f'd{i}') != _index(K1))
KEYS = {'k1': K1, 'k2': K2, 'k3': K3}


class GetterError(Exception): pass
class BodyError(Exception): pass


# ---------------------------------------------------------------- instrumented inner cache (the shared "disk")
class MonCache(sched._Shared):
    def __init__(self):
        self._reg()
        self.data = {}                                  # key -> ('partial',) | ('complete', value)
        self.readers = collections.Counter()
        self.writers = collections.Counter()
        self.removers = collections.Counter()

    def _bad(self, mode, detail):
        sched.record(('violation', mode, detail))

    def __contains__(self, key):
        sched.yield_point(f'inner:{key}', 'contains')
        return key in self.data

    def rmv(self, key):
        sched.yield_point(f'inner:{key}', 'rmv-begin')
        if key in self.data:
            if self.readers[key]: self._bad('entry removed while being read', key)
            if self.writers[key]: self._bad('entry removed while being written', key)
            self.removers[key] += 1
            sched.yield_point(f'inner:{key}', 'rmv-end')
            self.data.pop(key, None)
            self.removers[key] -= 1

    def get_set(self, key, getter):
        sched.yield_point(f'inner:{key}', 'get_set')
        if self.data.get(key) == ('empty',):
            # like DiskCacher: a zero-length entry (a write cut at byte 0) is dropped and, if a getter was given, written again
            if self.writers[key]: self._bad('two writers populate the same key', key)
            self.data.pop(key, None)
            if getter is None: raise TypeError("'NoneType' object is not iterable")
            if self.readers[key]: self._bad('entry written while being read', key)
        if key not in self.data:
            if getter is None:
                if getattr(self, 'had_empty', False):      # DiskCacher: another caller dropped the zero-length entry - iterating None raises
                    raise TypeError("'NoneType' object is not iterable")
                self._bad('missing entry served', key)
                return MonValue(self, key)
            if self.writers[key]: self._bad('two writers populate the same key', key)
            if self.readers[key]: self._bad('entry written while being read', key)
            if self.removers[key]: self._bad('entry written while being removed', key)
            self.writers[key] += 1
            self.data[key] = ('partial',)
            try:
                sched.yield_point(f'inner:{key}', 'write-begin')
                value = getter() if callable(getter) else getter
                sched.yield_point(f'inner:{key}', 'write-end')
                self.data[key] = ('complete', value)
            except BaseException:
                self.data.pop(key, None)             # like DiskCacher: a failed population leaves nothing
                raise
            finally:
                self.writers[key] -= 1
        else:
            if self.writers[key]: self._bad('entry read while being written', key)
            if self.removers[key]: self._bad('entry read while being removed', key)
        return MonValue(self, key)


class MonValue:
    def __init__(self, cache, key): self.cache, self.key = cache, key

    def __enter__(self):
        c, k = self.cache, self.key
        if c.writers[k]: c._bad('entry read while being written', k)
        if c.removers[k]: c._bad('entry read while being removed', k)
        c.readers[k] += 1
        return self

    def read(self):
        c, k = self.cache, self.key
        sched.yield_point(f'inner:{k}', 'read')
        v = c.data.get(k)
        if c.writers[k]: c._bad('entry read while being written', k)
        if v is None or v[0] != 'complete':
            c._bad('caller received an incomplete value', f'{k}: {v}')
            return None
        return v[1]

    def __exit__(self, *a):
        self.cache.readers[self.key] -= 1
        return False


# ---------------------------------------------------------------- caller programs
OPS = ['get', 'get_getter_raises', 'get_body_raises', 'rmv', 'get_nested']


def run_op(cacher, inner, op, key, who, empty_ok=False):
    k = KEYS[key]

    def getter():
        v = inner.data.get(k)
        if v is not None and v[0] == 'complete':
            inner._bad('getter ran although the entry is cached', k)
        sched.record(('getter', who, key))
        if op == 'get_getter_raises': raise GetterError(k)
        return f'value-of-{k}'

    try:
        if op == 'rmv':
            cacher.rmv(k)
            sched.record(('done', who, op, key, None))
            return
        with cacher.get_set(k, getter) as v:
            val = v.read()
            if op == 'get_body_raises': raise BodyError(k)
            if op == 'get_nested':
                with cacher.get_set(k, getter) as v2:
                    val2 = v2.read()
                    if val2 != val: inner._bad('nested read differs', k)
        if val != f'value-of-{k}': inner._bad('caller received a wrong value', f'{k}: {val}')
        sched.record(('done', who, op, key, val))
    except GetterError:
        sched.record(('raised', who, op, key, 'GetterError'))
        if op != 'get_getter_raises': inner._bad("another caller's getter error reached this caller", f'{who} {op}')
    except BodyError:
        sched.record(('raised', who, op, key, 'BodyError'))
        if op != 'get_body_raises': inner._bad('unexpected BodyError', f'{who} {op}')
    except sched.Abort:
        raise
    except BaseException as e:       # noqa
        sched.record(('raised', who, op, key, type(e).__name__))
        if not (empty_ok and isinstance(e, TypeError)):      # reading a zero-length entry may raise (it is never served as complete)
            inner._bad(f'caller got unexpected {type(e).__name__}', str(e)[:80])


def run_prog(cacher, inner, prog, who, empty_ok=False):
    for op, key in prog:
        run_op(cacher, inner, op, key, who, empty_ok)
    me = threading.current_thread().ident
    held = {str(k[1]): v for k, v in cacher._locks.items() if v != 0 and k[0] == me}
    sched.record(('locks', who, held))


class WiredUser:
    """The filter run by CobaMultiprocessor's workers: each item is one caller program, run on whatever cacher the worker was given."""
    def filter(self, item):
        from coba.context import CobaContext
        inner, prog, who, eo = item
        run_prog(CobaContext.cacher, inner, prog, who, eo)
        yield who


def make_body(case):
    progs, mode = case['progs'], case['mode']
    def body():
        WRITE_EPOCH[0] = 0
        del ARRAYS[:]
        inner = MonCache()
        for k, st in (case.get('initial') or {}).items():
            inner.data[KEYS[k]] = ('empty',) if st == 'empty' else ('complete', f'value-of-{KEYS[k]}')
            if st == 'empty': inner.had_empty = True
        if mode == 'layered':
            # two INDEPENDENT cachers built with default counters (a memory-like cache in front of a disk-like one): populating a key of
            # the first reads the same key from the second - a lock held in one cacher must not exist for the other
            inner2 = MonCache()
            c1 = ConcurrentCacher(inner, None, sched.FAKE.Lock()); c2 = ConcurrentCacher(inner2, None, sched.FAKE.Lock())
            k = KEYS['k1']
            def caller(who):
                def getter2():
                    sched.record(('getter', who, 'k1/second')); return f'value-of-{k}'
                def getter1():
                    sched.record(('getter', who, 'k1/first'))
                    with c2.get_set(k, getter2) as v2: return v2.read()
                try:
                    with c1.get_set(k, getter1) as v: val = v.read()
                    if val != f'value-of-{k}': inner._bad('caller received a wrong value', f'{k}: {val}')
                    sched.record(('done', who, 'get', 'k1', val))
                except sched.Abort: raise
                except BaseException as e:      # noqa
                    sched.record(('raised', who, 'get', 'k1', type(e).__name__)); inner._bad(f'caller got unexpected {type(e).__name__}', str(e)[:80])
                me = threading.current_thread().ident
                sched.record(('locks', who, {f'{n}:{kk[1]}': v for n, c in enumerate((c1, c2)) for kk, v in c._locks.items() if v != 0 and kk[0] == me}))
            ts = [threading.Thread(target=caller, args=(i,), daemon=True) for i in range(len(progs))]
            for t in ts: t.start(); t.join()      # one after the other: the arrays are plain lists (no scheduling points), the waits are the subject
            cells = {f'{n}:{i}': v for n, c in enumerate((c1, c2)) for i, v in enumerate(c._array) if v != 0}
            return {'cells': cells, 'readers': +inner.readers, 'writers': +inner.writers}
        if mode == 'wired':
            # the callers are the worker processes of the REAL CobaMultiprocessor, which builds the ConcurrentCacher itself
            from coba.context import CobaContext, BasicLogger
            from coba.pipes import ListSink
            from coba.multiprocessing import CobaMultiprocessor
            CobaContext.logger = BasicLogger(ListSink()); CobaContext.cacher = inner; CobaContext.store = {}
            eo = 'empty' in (case.get('initial') or {}).values()
            got = list(CobaMultiprocessor(WiredUser(), len(progs), 0).filter([(inner, p, i, eo) for i, p in enumerate(progs)]))
            if sorted(got) != list(range(len(progs))): inner._bad('a caller program was not run exactly once', str(got))
            cells = {f'{n}:{i}': v for n, a in enumerate(ARRAYS) for i, v in enumerate(a._cells) if v != 0}
            return {'cells': cells, 'readers': +inner.readers, 'writers': +inner.writers}
        array = MonArray(None, [0] * 2 ** 16)
        lock = sched.FAKE.Lock()
        cacher = ConcurrentCacher(inner, array, lock)
        if mode == 'threads':
            eo = 'empty' in (case.get('initial') or {}).values()
            kw = {'name': 'pool-worker'} if case.get('same_name') else {}      # thread pools give all their threads one name
            ts = [threading.Thread(target=run_prog, args=(cacher, inner, p, i, eo), daemon=True, **kw) for i, p in enumerate(progs)]
        else:
            eo = 'empty' in (case.get('initial') or {}).values()
            ts = [sched.FakeProcess(target=run_prog, args=(cacher, inner, p, i, eo)) for i, p in enumerate(progs)]
        for t in ts: t.start()
        for t in ts: t.join()
        cells = {i: v for i, v in enumerate(array._cells) if v != 0}
        return {'cells': cells, 'readers': +inner.readers, 'writers': +inner.writers}
    return body


def judge(case, ex):
    bad = []
    if ex.deadlock: bad.append(('caller waits forever (deadlock)', 'no task enabled'))
    if ex.livelock: bad.append(('caller waits forever (livelock)', 'point budget exhausted'))
    for ev in ex.log:
        if ev[0] == 'violation': bad.append((ev[1], str(ev[2])))
        if ev[0] == 'locks' and ev[2]: bad.append(('per-caller lock table not cleared', json.dumps(ev[2])))
    if ex.result and ex.result[0] == 'ok':
        r = ex.result[1]
        if r['cells']: bad.append(('shared lock counter not released', json.dumps(r['cells'])))
    elif ex.result and ex.result[0] == 'exc':
        bad.append(('harness body raised', repr(ex.result[1])))
    for tid, name, err in ex.task_errors:
        bad.append(('caller task crashed', f'{name}: {err!r}'))
    if not (ex.deadlock or ex.livelock):
        nops = sum(len(p) for p in case['progs'])
        fin = sum(1 for ev in ex.log if ev[0] in ('done', 'raised'))
        if fin != nops: bad.append(('operation never completed', f'{fin} of {nops}'))
    return bad


def feature(case):
    ops = sorted({op for p in case['progs'] for op, _ in p})
    keys = {k for p in case['progs'] for _, k in p}
    rel = 'same-key' if len(keys) == 1 else ('colliding-keys' if keys <= {'k1', 'k2'} else 'mixed-keys')
    init = ''.join(f' entry-initially-{v}' for v in sorted(set((case.get('initial') or {}).values())))
    return f"{case['mode']}{' same-thread-name' if case.get('same_name') else ''} {'+'.join(ops)} {rel}{init}"


# ---------------------------------------------------------------- part B: disk faults
def disk_cases(tier):
    vals = [['a'], ['ab', 'c'], ['line one', 'zwei', '3']]
    out = []
    for v in (vals if tier != 'quick' else vals[:2]):
        out.append({'kind': 'disk-prefix', 'lines': v})
        for i in range(len(v) + 1):
            for exc in ('GetterError', 'KeyboardInterrupt', 'SystemExit'):
                out.append({'kind': 'disk-getter-fails', 'lines': v, 'after': i, 'exc': exc})
    return out


class C19(Check):
    ID = 'C19'
    LEVEL = 'model_checking'
    ENGINE = 'SCHED'
    RULE = ('part A: callers (2, thorough also 3) x programs of <=2 operations from {get_set ok / getter raises / body raises / nested, rmv} '
            'on {k1, colliding k2, distinct k3} x {threads sharing a cacher, processes with pickled copies}: every schedule with <= b '
            'deviations is executed on the real ConcurrentCacher with scheduling points at every lock, array-cell and inner-cache '
            'phase; part B: every byte-prefix of a DiskCacher file and every getter failure position; non-trivial = at least two callers '
            'touch the same lock index (part A) / the prefix cuts inside the file (part B)')
    ASSUMPTIONS = ['a single caller never nests get_set on two different colliding keys (excluded by the property)',
                   'time.sleep(1) in the retry loops is modelled as blocked-until-a-shared-array-cell-is-written',
                   'scheduling points: lock acquire/release, every array cell read/write, inner-cache phases; single statements between them are atomic',
                   'disk crash model: any byte-prefix of the .gz file survives',
                   '__contains__ on the inner cache is not a read of the entry']
    TECHNIQUE = 'stateless model checking of the real ConcurrentCacher under a controlled scheduler (deviation-bounded exhaustive DFS) with an invariant monitor; byte-prefix fault enumeration for DiskCacher'
    LEVEL_TEXT = ('All interleavings (within the deviation bound) of 2-3 callers on the real lock protocol are executed and the reader/writer/remover '
                  'invariants are evaluated in every state by an instrumented inner cache; final states are checked for released counters, cleared '
                  'per-caller tables and termination; torn cache files are enumerated byte by byte.')
    LEVEL_NOTE = 'bounded: <=3 callers, <=2 ops each, deviation bound 2 (quick) / 3 (thorough, 2 for 3 callers); simulated lock/array/process layer'
    MIN_NONTRIVIAL = {'quick': 30, 'thorough': 60}
    CASE_TIMEOUT = 3000

    def setup(self, tier):
        self._tier = tier
        self._tmp = tmpdir()

    def cases(self, tier):
        out = []
        single = [[(op, k)] for op in OPS for k in ('k1',)]
        # two callers, one op each: op x op, second caller on the same / colliding / distinct key
        for mode in ('threads', 'procs'):
            for a in OPS:
                for b in OPS:
                    if b < a: continue
                    for kb in ('k1', 'k2', 'k3'):
                        if kb == 'k3' and not (a == 'get' and b == 'get'): continue
                        if mode == 'procs' and tier == 'quick' and kb == 'k2' and not (a in ('get', 'rmv') and b in ('get', 'rmv')): continue
                        out.append({'kind': 'sched', 'mode': mode, 'progs': [[(a, 'k1')], [(b, kb)]]})
        # two callers, two ops for the first
        seq2 = [[('get', 'k1'), ('rmv', 'k1')], [('rmv', 'k1'), ('get', 'k1')], [('get', 'k1'), ('get', 'k2')],
                [('get_getter_raises', 'k1'), ('get', 'k1')], [('get_body_raises', 'k1'), ('rmv', 'k1')]]
        for mode in ('threads', 'procs'):
            for p in seq2:
                for b in (('get', 'k1'), ('rmv', 'k1'), ('get', 'k2')):
                    if tier == 'quick' and mode == 'procs' and b[1] == 'k2': continue
                    out.append({'kind': 'sched', 'mode': mode, 'progs': [p, [b]]})
        # entries that exist before the callers start: a complete one (both callers take the hit path) and a zero-length one
        for mode in ('threads', 'procs'):
            for init in ('complete', 'empty'):
                for b in ('get', 'rmv', 'get_body_raises'):
                    if tier == 'quick' and mode == 'procs' and b != 'get': continue
                    out.append({'kind': 'sched', 'mode': mode, 'progs': [[('get', 'k1')], [(b, 'k1')]], 'initial': {'k1': init}})
        # three callers on ONE key: two getters and a remover (a gap in a lock hand-over is only visible to a third party)
        for mode in ('threads', 'procs'):
            for c3 in (('rmv', 'k1'), ('get', 'k1')):
                if tier == 'quick' and mode == 'procs' and c3[0] == 'get': continue
                out.append({'kind': 'sched', 'mode': mode, 'progs': [[('get', 'k1')], [('get', 'k1')], [c3]]})
        # caller threads that all carry the same thread NAME; two independent default-constructed cachers used nested by one caller
        for progs in ([[('get', 'k1')], [('get', 'k1')]], [[('get', 'k1')], [('rmv', 'k1')]], [[('get', 'k1')], [('get', 'k1')], [('get', 'k1')]]):
            out.append({'kind': 'sched', 'mode': 'threads', 'same_name': True, 'progs': progs})
        out.append({'kind': 'sched', 'mode': 'layered', 'progs': [[('get', 'k1')]]})
        out.append({'kind': 'sched', 'mode': 'layered', 'progs': [[('get', 'k1')], [('get', 'k1')]]})
        # the callers are workers of the real CobaMultiprocessor (which must hand every worker the SAME lock and counters)
        for a, b in ([('get', 'get'), ('get', 'rmv')] if tier == 'quick' else [(a, b) for a in OPS for b in OPS if a <= b]):
            out.append({'kind': 'sched', 'mode': 'wired', 'progs': [[(a, 'k1')], [(b, 'k1')]]})
        if tier == 'thorough':
            for mode in ('threads', 'procs'):
                for p in seq2:
                    for q in seq2:
                        out.append({'kind': 'sched', 'mode': mode, 'progs': [p, q]})
                for a, b, c in itertools.combinations_with_replacement(['get', 'rmv', 'get_getter_raises', 'get_body_raises'], 3):
                    out.append({'kind': 'sched', 'mode': mode, 'progs': [[(a, 'k1')], [(b, 'k1')], [(c, 'k2')]]})
        split = []
        for c in out:      # heavy schedule trees are spread over several workers: one sub-case per (policy, part of the first-level deviations)
            weight = sum(len(p) for p in c['progs']) + sum(1 for p in c['progs'] for op, _ in p if op == 'get_nested')
            nparts = 4 if len(c['progs']) >= 3 else (2 if weight >= 3 else 0)
            if nparts:
                for pol in ('low', 'high'):
                    for k in range(nparts): split.append({**c, 'policy': pol, 'part': [k, nparts]})
            else:
                split.append(c)
        return split + disk_cases(tier)

    def bound(self, case):
        if case['mode'] == 'wired': return 1 if self._tier == 'quick' else 2
        if self._tier == 'quick': return 2
        n = len(case['progs']); ops = sum(len(p) for p in case['progs'])
        return 3 if (n == 2 and ops <= 2) else 2

    # ---- part A
    def run_sched(self, case, acc, schedule=None):
        factory = lambda: make_body(case)
        a = sched.execute(factory()); b = sched.execute(factory())
        sig = lambda ex: (tuple(ex.choices), tuple(p.n for p in ex.points), json.dumps(ex.log, default=str))
        if sig(a) != sig(b):
            # the same schedule gave two different runs: fresh cachers, callers and counters were built for each, so something outside them
            # (module / class level state of the cacher) survived; if a run is also wrong that is the violation, otherwise the harness lost control
            bad = judge(case, a) + judge(case, b)
            if not bad: raise HarnessError(f'nondeterministic execution for {case}')
            for mode, what in bad:
                acc.violation(f'ConcurrentCacher|{mode} (and the run is not reproducible: state outside the cacher objects survives)|{feature(case)}', what,
                              {'case': case, 'policy': 'low', 'schedule': []}, order=(sum(len(p) for p in case['progs']), 0, 0))
            acc.mark_nontrivial(); acc.outcome('nondeterministic')
            return
        keys = [set(KEYS[k] for _, k in p) for p in case['progs']]
        idx = [set(_index(k) for k in ks) for ks in keys]
        if any(idx[i] & idx[j] for i in range(len(idx)) for j in range(i + 1, len(idx))): acc.mark_nontrivial()

        def on_exec(ex, prefix, policy):
            o = json.dumps([e for e in ex.log if e[0] in ('done', 'raised', 'getter')], default=str)
            acc.outcome(o)
            for mode, what in judge(case, ex):
                acc.violation(f'ConcurrentCacher|{mode}|{feature(case)}', what,
                              {'case': case, 'policy': policy, 'schedule': list(prefix)},
                              order=(sum(len(p) for p in case['progs']), sum(1 for c in prefix if c), len(prefix)))
        if schedule is not None:
            on_exec(sched.execute(factory(), schedule['schedule'], schedule['policy']), tuple(schedule['schedule']), schedule['policy'])
            return
        cap = 6000 if self._tier == 'quick' else 80000
        policies = (case['policy'],) if case.get('policy') else (('low', 'high', 'rr') if case['mode'] == 'wired' else ('low', 'high'))
        st = sched.explore(factory, self.bound(case), policies, cap=cap, on_exec=on_exec, part=tuple(case['part']) if case.get('part') else None)
        acc.states += st['points']; acc.transitions += st['transitions']; acc.traces += st['executions']
        acc.count('executions', st['executions'])
        acc.counters['max_depth_points'] = max(acc.counters.get('max_depth_points', 0), st['max_depth'])
        if st['capped']: acc.cap(f'execution cap {cap} hit for {json.dumps(case)}')

    # ---- part B
    def run_disk(self, case, acc):
        SPINS[0] = 0
        try:
            self._run_disk(case, acc)
        except HangDetected:
            acc.violation('ConcurrentCacher|caller waits forever (sequential spin)|disk', 'a lock left behind makes the next call spin forever', case)
        except (GetterError, KeyboardInterrupt, SystemExit):
            raise
        except Exception as e:      # noqa
            acc.violation(f'ConcurrentCacher|cacher unusable after a failure ({type(e).__name__})|disk', str(e)[:100], case)

    def _run_disk(self, case, acc):
        lines = case['lines']
        d = os.path.join(self._tmp, f'disk-{os.getpid()}')
        shutil.rmtree(d, ignore_errors=True); os.makedirs(d)
        if case['kind'] == 'disk-getter-fails':
            i = case['after']
            EXC = {'GetterError': GetterError, 'KeyboardInterrupt': KeyboardInterrupt, 'SystemExit': SystemExit}[case.get('exc', 'GetterError')]
            def getter():
                for j, l in enumerate(lines):
                    if j == i: raise EXC('x')
                    yield l
                if i >= len(lines): raise EXC('x')
            for wrap in ('disk', 'concurrent', 'memory', 'concurrent-memory'):
                c = {'disk': lambda: DiskCacher(d), 'concurrent': lambda: ConcurrentCacher(DiskCacher(d)), 'memory': MemoryCacher,
                     'concurrent-memory': lambda: ConcurrentCacher(MemoryCacher())}[wrap]()
                try:
                    with c.get_set('key', getter) as f: list(f)
                    acc.violation(f'DiskCacher|failing getter did not raise|{wrap}', f'after {i} lines')
                except EXC:
                    pass
                if 'key' in c:
                    try:
                        with c.get_set('key', None) as f: got = [l.rstrip('\n') for l in f]
                        acc.violation(f'{"MemoryCacher" if "memory" in wrap else "DiskCacher"}|partial entry served after failed getter|{wrap}' + ('' if EXC is GetterError else ' getter killed by ' + EXC.__name__), f'after {i} of {len(lines)} lines: {got}')
                    except Exception as e:     # noqa
                        acc.violation(f'DiskCacher|partial entry left after failed getter|{wrap}', f'{type(e).__name__}')
                if wrap.startswith('concurrent') and any(v != 0 for v in c._locks.values()):
                    acc.violation('ConcurrentCacher|lock held after failing getter|disk', str({k[1]: v for k, v in c._locks.items()}))
                with c.get_set('key', lambda: lines) as f: got = [l.rstrip('\n') for l in f]
                if got != lines:
                    acc.violation(f'{"MemoryCacher" if "memory" in wrap else "DiskCacher"}|wrong value after failed getter|{wrap}', f'{got} != {lines}')
                c.rmv('key')
            acc.mark_nontrivial(); acc.states += 1; acc.transitions += 4; acc.traces += 1
            return
        # every byte-prefix of the written file
        c0 = DiskCacher(d)
        with c0.get_set('key', lambda: lines) as f: full = [l.rstrip('\n') for l in f]
        if full != lines: acc.violation('DiskCacher|round trip differs|complete file', f'{full} != {lines}')
        path = os.path.join(d, 'key.gz')
        blob = open(path, 'rb').read()
        for n in range(len(blob) + 1):
            for wrap in ('disk', 'concurrent'):
                with open(path, 'wb') as fh: fh.write(blob[:n])
                c = DiskCacher(d) if wrap == 'disk' else ConcurrentCacher(DiskCacher(d))
                acc.states += 1; acc.transitions += 1
                outcome = None
                try:
                    with c.get_set('key', lambda: lines) as f: got = [l.rstrip('\n') for l in f]
                    outcome = 'value'
                    if got != lines:
                        acc.violation(f'DiskCacher|torn file served as complete|{wrap}', f'prefix {n}/{len(blob)} bytes gave {got}, expected {lines}',
                                      {'kind': 'disk-prefix', 'lines': lines})
                except (EOFError, OSError, gzip.BadGzipFile, UnicodeDecodeError, ValueError) as e:
                    outcome = 'raises ' + type(e).__name__
                except Exception as e:      # noqa
                    outcome = 'raises ' + type(e).__name__
                acc.outcome(outcome)
                if wrap == 'concurrent' and any(v != 0 for v in c._locks.values()):
                    acc.violation('ConcurrentCacher|lock held after torn read|disk', f'prefix {n}: ' + str({k[1]: v for k, v in c._locks.items()}), {'kind': 'disk-prefix', 'lines': lines})
                if wrap == 'concurrent' and any(c._array[i] != 0 for i in (c._index('key'),)):
                    acc.violation('ConcurrentCacher|shared counter held after torn read|disk', f'prefix {n}', {'kind': 'disk-prefix', 'lines': lines})
        acc.traces += len(blob) + 1
        acc.mark_nontrivial()

    def run_case(self, case, acc):
        if case['kind'] == 'sched': self.run_sched(case, acc)
        else: self.run_disk(case, acc)

    def replay(self, witness, acc):
        self.setup('quick')
        if witness.get('real'):
            self.real_runs([witness['spec']], acc); return
        if 'schedule' in witness: self.run_sched(witness['case'], acc, schedule=witness)
        elif witness.get('kind') == 'sched': self.run_sched(witness, acc)
        else: self.run_disk(witness, acc)

    # ---- conformance: the lock protocol on REAL processes (separate interpreters with different hash seeds)
    def real_runs(self, specs, acc):
        import signal as _sig
        env = dict(os.environ, PYTHONPATH=f'{VERIF}:{REPO}')
        env.pop('PYTHONHASHSEED', None)
        procs = [(sp, subprocess.Popen([sys.executable, '-B', '-W', 'ignore', '-m', 'vf.lib.realcache', json.dumps(sp)], env=env,
                                        stdout=subprocess.PIPE, stderr=subprocess.PIPE, text=True, start_new_session=True)) for sp in specs]
        n = 0
        for sp, p in procs:
            feat = f"real processes {sp['second']} key={type(sp['key']).__name__}"
            wit = {'real': True, 'spec': sp}
            try:
                out, err = p.communicate(timeout=150)
            except subprocess.TimeoutExpired:
                try: os.killpg(p.pid, _sig.SIGKILL)
                except ProcessLookupError: pass
                p.communicate()
                acc.violation(f'ConcurrentCacher|caller waits forever|{feat}', 'real run did not finish in 150s', wit); continue
            line = [l for l in out.splitlines() if l.startswith('OBS ')]
            if not line: raise HarnessError(f'real cache run {sp} produced no observation: {err[-500:]}')
            o = json.loads(line[-1][4:])
            full = ['line one', 'line two', 'line three']
            if sp['second'] == 'wired':
                if o['starts'] != 1 or o['ends'] != 1:
                    acc.violation(f'ConcurrentCacher|two writers populate the same key|{feat}', f"getter started {o['starts']} and finished {o['ends']} times for two workers of CobaMultiprocessor", wit)
                if o['wired'] != [[0, 'value', full], [1, 'value', full]]:
                    acc.violation(f'ConcurrentCacher|caller received an incomplete value|{feat}', f"workers got {o['wired']} (log {o['log']})", wit)
                n += 1; continue
            if o.get('hung'): acc.violation(f'ConcurrentCacher|caller waits forever|{feat}', 'a process was still alive after 60s', wit)
            if o.get('second.finished_while_writing'):
                acc.violation(f'ConcurrentCacher|entry accessed while being written|{feat}', f"the second process finished ({o.get('second.result')}) while the writer was inside its getter", wit)
            if o.get('writer.raised'): acc.violation(f'ConcurrentCacher|writer raised|{feat}', o['writer.raised'], wit)
            elif o.get('writer.value') != full: acc.violation(f'ConcurrentCacher|caller received an incomplete value|{feat}', f"writer got {o.get('writer.value')}", wit)
            r = o.get('second.result') or ['hung', None]
            if sp['second'] == 'get' and (r[0] != 'value' or r[1] != full):
                acc.violation(f'ConcurrentCacher|caller received an incomplete value|{feat}', f'second process got {r}', wit)
            if r[0] == 'raised': acc.violation(f'ConcurrentCacher|second caller raised|{feat}', str(r[1]), wit)
            if o.get('second.getter_calls'): acc.violation(f'ConcurrentCacher|getter ran although the entry is cached|{feat}', 'second process ran its getter', wit)
            if o.get('cells_nonzero'): acc.violation(f'ConcurrentCacher|shared lock counter not released|{feat}', f"{o['cells_nonzero']} cells non-zero", wit)
            n += 1
        return n

    def post(self, acc, tier):
        specs = [{'key': 'abc', 'second': 'get'}, {'key': 'abc', 'second': 'rmv'}, {'key': 'abc', 'second': 'wired'}]
        if tier == 'thorough': specs += [{'key': 'k7', 'second': 'get'}, {'key': 'openml_042693_arff', 'second': 'get'}, {'key': 'openml 042693.csv', 'second': 'rmv'}]      # DiskCacher keys are strings
        n = self.real_runs(specs, acc)
        acc.traces += n
        return {'real_os_conformance_runs': n}


CHECK = C19()
