"""C01 - Experiment results do not depend on the execution configuration.   (SCHED + ENUM)

For every experiment shape x (processes, maxchunksperchild, maxtasksperchunk) x seed the REAL Experiment.run is
executed on the simulated spawn context under the controlled scheduler (per-pid coba globals: what is not marshalled
to a worker is really absent there); every schedule within the deviation bound is run and the four Result tables +
experiment meta must equal those of the in-process reference run.  Selected configurations are also run on the real
OS primitives (real spawn) and compared with the same reference.
"""
import os, sys, json, subprocess

from vf.engines import sched
sched.install()

from vf.core import Check, HarnessError, VERIF, REPO        # noqa: E402
from vf.lib import cobaenv                                   # noqa: E402
import coba                                                  # noqa: E402
cobaenv.register()
from coba.context import CobaContext, BasicLogger, MemoryCacher   # noqa: E402
from coba.pipes import ListSink                              # noqa: E402
from vf.lib import expparts as P                             # noqa: E402

SHAPES = ['S1', 'S2', 'S3', 'S5', 'S4', 'S6', 'S7', 'S8', 'S9', 'S10']
CONFIGS = [(p, c, t) for p in (1, 2, 3) for c in (0, 1, 2) for t in (0, 1, 2)]


def before():
    CobaContext.logger = BasicLogger(ListSink())
    CobaContext.cacher = MemoryCacher()
    CobaContext.store = {}


def body_factory(shape, cfg, seed):
    def body():
        r = P.make_experiment(shape).run(processes=cfg[0], maxchunksperchild=cfg[1], maxtasksperchunk=cfg[2], seed=seed, quiet=True)
        return P.canon(r)
    return body


def reference(shape, seed):
    """The in-process run, executed in the state of a FRESH interpreter (sched.execute installs import-time values for all process-global
    state incl. class/module-level containers): what earlier experiments of this worker left behind must not leak into the reference."""
    ex = sched.execute(body_factory(shape, (1, 0, 0), seed), (), 'low', before=before)
    if not ex.result or ex.result[0] != 'ok': raise HarnessError(f'reference run of {shape} failed: {ex.result!r}')
    return ex.result[1]


def diff(ref, got):
    for k in ('experiment', 'environments', 'learners', 'evaluators', 'interactions'):
        if ref[k] != got[k]:
            if isinstance(ref[k], list):
                if len(ref[k]) != len(got[k]): return k, f'{len(got[k])} rows instead of {len(ref[k])}'
                for i, (a, b) in enumerate(zip(ref[k], got[k])):
                    if a != b:
                        cols = sorted(c for c in set(a) | set(b) if a.get(c) != b.get(c))
                        return k, f'row {i} differs in {cols}: {json.dumps({c: [a.get(c), b.get(c)] for c in cols})[:200]}'
            return k, f'{json.dumps(got[k])[:120]} instead of {json.dumps(ref[k])[:120]}'
    return None


class C01(Check):
    ID = 'C01'
    LEVEL = 'model_checking'
    ENGINE = 'SCHED'
    RULE = ('programs = 10 experiment shapes (1x1; 2 envs x stateful learners; shared chunk() prefix with shuffle(n=2); explicit triple list with a '
            'shared learner, SequentialCB/RejectionCB and a logged env; plus component alphabets (environment filters/sources built with non-default parameters P:<name>, learners L:<name>, evaluator configurations V:<name>; sizes in the counters), default schedules only; PMF- and kwargs-returning learners; custom evaluator + cache() prefix; RejectionCB next to learners writing learning_info; one learner under several evaluators, plain and chunked; an empty environment behind a chunk with a summary-row evaluator) x '
            'configurations processes{1,2,3} x maxchunksperchild{0,1,2} x maxtasksperchunk{0,1,2} x seeds; for each, every schedule of the '
            'simulated worker processes / loader / callbacks / log thread with <= b deviations from each default policy is executed; '
            'non-trivial = worker processes were spawned (or, for (1,0,0), the run is the reference itself run a second time)')
    ASSUMPTIONS = ['process layer simulated (per-pid coba globals, pickled copies, FIFO queues); real OS layer only replayed for selected configurations',
                   'timing columns predict_time/learn_time are ignored; log lines, pids and which worker ran what are not compared',
                   'components are seeded built-ins or deterministic user classes (vf/lib/expparts.py)']
    TECHNIQUE = 'stateless model checking of the real Experiment.run on a simulated spawn context (deviation-bounded exhaustive schedule DFS) against the in-process reference; real-spawn conformance runs'
    LEVEL_TEXT = ('Every configuration of every shape is executed under all schedules within the bound on the real code and compared table by table '
                  'with the in-process run; id assignment, chunk grouping/splitting, seed propagation into workers and learner copying are therefore '
                  'exercised for every configuration and for worker schedules the OS would only produce rarely.')
    LEVEL_NOTE = 'bounded: 10 shapes + 3 component alphabets, 27 configurations, 2 seeds; deviation bound 0 everywhere + 1 on the small shapes (quick) / 1 on all with caps (thorough)'
    MIN_NONTRIVIAL = {'quick': 30, 'thorough': 100}
    CASE_TIMEOUT = 6000

    def setup(self, tier):
        self._tier = tier
        self._ref = {}

    def cases(self, tier):
        out = []
        if tier == 'quick':
            cfgs = [c for c in CONFIGS if c[0] <= 2 and c[1] <= 1 and c[2] <= 1] + [(3, 2, 2), (3, 0, 1), (2, 2, 0), (1, 2, 2)]
            for shape in SHAPES:
                for cfg in cfgs:
                    seeds = (1, 7) if shape in ('S5', 'S6') and cfg in ((2, 0, 0), (1, 1, 1)) else (1,)
                    for seed in seeds:
                        b = 1 if (shape == 'S1' and cfg in ((2, 0, 0), (1, 1, 0), (2, 1, 1))) or (shape == 'S2' and cfg == (2, 0, 0)) else 0
                        out.append({'shape': shape, 'cfg': list(cfg), 'seed': seed, 'bound': b})
        else:
            for shape in SHAPES:
                for cfg in CONFIGS:
                    for seed in ((1, 7) if shape in ('S2', 'S5') else (1,)):
                        b = 1 if (shape in ('S1', 'S2', 'S5') and seed == 1) or cfg in ((2, 0, 0), (2, 1, 1)) else 0
                        out.append({'shape': shape, 'cfg': list(cfg), 'seed': seed, 'bound': b})
        # the pipeline alphabet: every environment filter / source with non-default parameters, behind worker processes
        for name in ['P:' + n for n in P.PIPES] + ['L:' + n for n in P.LEARNERS] + ['V:' + n for n in P.EVALUATORS]:
            for cfg in (((2, 0, 0), (1, 1, 1)) if tier == 'quick' else ((2, 0, 0), (1, 1, 1), (2, 1, 1), (3, 0, 1), (2, 2, 2))):
                out.append({'shape': name, 'cfg': list(cfg), 'seed': 1, 'bound': 0})
        return out

    def ref(self, shape, seed):
        k = (shape, seed)
        if k not in self._ref:
            a = reference(shape, seed); b = reference(shape, seed)
            if a != b: raise HarnessError(f'reference run of {shape} seed {seed} is not reproducible: {diff(a, b)}')
            if not a['interactions']: raise HarnessError(f'reference run of {shape} produced no interaction rows')
            self._ref[k] = a
        return self._ref[k]

    def judge(self, case, ex, ref):
        if ex.deadlock: return ('run', 'deadlock', 'no task enabled while Experiment.run is waiting')
        if ex.livelock: return ('run', 'non-termination', 'point budget exhausted')
        kind, val = ex.result
        if kind == 'exc': return ('run', f'raises {type(val).__name__}', repr(val)[:200])
        d = diff(ref, val)
        if d: return (d[0], 'differs from the in-process run', d[1])
        return None

    def feature(self, case):
        p, c, t = case['cfg']
        if case['shape'][:2] in ('P:', 'L:', 'V:'): return f"{ {'P': 'pipeline', 'L': 'learner', 'V': 'evaluator'}[case['shape'][0]] } {case['shape'][2:]} behind worker processes"
        return f"{case['shape']} processes{'=1' if p == 1 else '>1'} maxchunksperchild{'=0' if c == 0 else '>0'} maxtasksperchunk{'=0' if t == 0 else '>0'}"

    def run_case(self, case, acc, schedule=None):
        shape, cfg, seed = case['shape'], tuple(case['cfg']), case['seed']
        ref = self.ref(shape, seed)
        factory = lambda: body_factory(shape, cfg, seed)
        if cfg == (1, 0, 0):
            # no worker processes: "constructing and running the same experiment a second time gives the same Result"
            before()
            got = factory()()
            acc.states += 1; acc.transitions += 1; acc.traces += 1
            d = diff(ref, got)
            if d: acc.violation(f'Experiment|second in-process run differs|{shape} {d[0]}', d[1])
            acc.mark_nontrivial(); acc.outcome('same')
            return
        a = sched.execute(factory(), (), 'low', before=before); b = sched.execute(factory(), (), 'low', before=before)
        sig = lambda ex: (tuple(ex.choices), tuple(p.n for p in ex.points), json.dumps(ex.result[1], sort_keys=True, default=repr) if ex.result and ex.result[0] == 'ok' else repr(ex.result))
        if sig(a) != sig(b):
            # the same schedule gave two different runs: if the Result is affected that IS the violation (e.g. a worker fell back
            # to a time-seeded generator because the experiment seed did not reach it); otherwise the harness lost control
            ja, jb = self.judge(case, a, ref), self.judge(case, b, ref)
            if ja or jb:
                j = ja or jb
                acc.violation(f'Experiment|{j[1]} (and not reproducible under one schedule)|{j[0]} {self.feature(case)}', j[2],
                              {'case': case, 'policy': 'low', 'schedule': []})
                acc.mark_nontrivial(); acc.outcome('nondeterministic')
                return
            raise HarnessError(f'nondeterministic execution for {case}')
        nontrivial = [False]

        def on_exec(ex, prefix, policy):
            if ex.npids > 1: nontrivial[0] = True
            j = self.judge(case, ex, ref)
            acc.outcome(('same' if j is None else f'{j[0]}:{j[1]}') + f' processes-used={ex.npids}')
            if ex.task_errors: acc.count('executions_with_uncaught_thread_exception')
            if j:
                acc.violation(f'Experiment|{j[1]}|{j[0]} {self.feature(case)}', j[2],
                              {'case': case, 'policy': policy, 'schedule': list(prefix)},
                              order=(SHAPES.index(shape) if shape in SHAPES else 99, sum(cfg), sum(1 for c in prefix if c), len(prefix)))
        if schedule is not None:
            on_exec(sched.execute(factory(), schedule['schedule'], schedule['policy'], before=before), tuple(schedule['schedule']), schedule['policy'])
            return
        cap = 1500 if self._tier == 'quick' else 6000
        policies = ('low', 'high', 'rr')
        st = sched.explore(factory, case['bound'], policies, cap=cap, on_exec=on_exec, before=before, max_points=20000)
        acc.states += st['points']; acc.transitions += st['transitions']; acc.traces += st['executions']
        acc.count('executions', st['executions'])
        acc.counters['max_depth_points'] = max(acc.counters.get('max_depth_points', 0), st['max_depth'])
        if st['capped']: acc.cap(f'execution cap {cap} hit for {json.dumps(case)}')
        if nontrivial[0]: acc.mark_nontrivial()

    def replay(self, witness, acc):
        self.setup('quick')
        if witness.get('real'):
            self.real_runs([witness['case']], acc); return
        if 'schedule' in witness: self.run_case(witness['case'], acc, schedule=witness)
        else: self.run_case(witness.get('case', witness), acc)

    # ---- conformance on the real OS primitives
    def real_runs(self, pick, acc):
        import signal as _sig
        env = dict(os.environ, PYTHONPATH=f'{VERIF}:{REPO}')
        def launch(c):
            return subprocess.Popen([sys.executable, '-B', '-W', 'ignore', '-m', 'vf.lib.realexp', json.dumps(c)], env=env,
                                    stdout=subprocess.PIPE, stderr=subprocess.PIPE, text=True, start_new_session=True)
        pending, running, n = list(pick), [], 0
        while pending or running:
            while pending and len(running) < 8:
                c = pending.pop(0); running.append((c, launch(c)))
            c, p = running.pop(0)
            try:
                out, err = p.communicate(timeout=180)
            except subprocess.TimeoutExpired:
                try: os.killpg(p.pid, _sig.SIGKILL)
                except ProcessLookupError: pass
                p.communicate()
                acc.violation(f'Experiment|real spawn run hangs|{self.feature(c)}', 'no result within 180s', {'case': c, 'real': True}); continue
            line = [l for l in out.splitlines() if l.startswith('OBS ')]
            if not line: raise HarnessError(f'real run of {c} produced no observation: {err[-600:]}')
            got = json.loads(line[-1][4:])
            ref = json.loads(json.dumps(self.ref(c['shape'], c['seed'])))
            d = diff(ref, got)
            if d: acc.violation(f'Experiment|differs from the in-process run|{d[0]} {self.feature(c)} real-os', d[1], {'case': c, 'real': True})
            n += 1
        return n

    def post(self, acc, tier):
        if tier == 'quick':
            pick = [{'shape': s, 'cfg': list(c), 'seed': 1, 'bound': 0} for s, c in (('S2', (2, 0, 0)), ('S5', (2, 1, 1)), ('S4', (2, 0, 1)), ('S6', (1, 1, 0)), ('P:noise-seeds', (2, 0, 0)), ('P:dense-lookup', (2, 1, 1)), ('V:reject-seed', (2, 0, 0)), ('L:corral-imp', (1, 1, 1)))]
        else:
            pick = [{'shape': s, 'cfg': list(c), 'seed': 1, 'bound': 0} for s in ('S2', 'S4', 'S5') for c in CONFIGS if c != (1, 0, 0)] + [{'shape': k + n, 'cfg': [2, 0, 0], 'seed': 1, 'bound': 0} for k, ns in (('P:', P.PIPES), ('L:', P.LEARNERS), ('V:', P.EVALUATORS)) for n in ns]
        self.setup(tier)
        n = self.real_runs(pick, acc)
        acc.traces += n
        return {'real_os_conformance_runs': n, 'alphabet_pipelines': len(P.PIPES), 'alphabet_learners': len(P.LEARNERS), 'alphabet_evaluators': len(P.EVALUATORS)}


CHECK = C01()
