"""C18 - analysis compares only complete, equal-length runs and averages correctly (ENUM engine).

Every Result below the bound (E environments x L learners x V evaluators, EVERY presence pattern of the E*L*V
evaluation triples, every assignment of evaluation lengths from a small set, two parameter-table flavours with
duplicate / tuple-valued / mixed-type parameter values) is built through the public `Result(envs, lrns, vals, ints)`
constructor, and every operation of a fixed operation alphabet is run on a FRESH copy of it:

  where_fin / filter_fin (n, l, p)        compared with a naive recomputation from the interaction rows
  chains where -> where_fin -> where_fin, where_fin -> where -> where_fin, where_best -> where_fin
  raw_learners (x, l, p, span)            compared with a per-evaluation textbook average of the interaction rows
  moving_average (values, span, weights)  compared with the textbook definition in exact rational arithmetic

Reference model (plain Python over the list of interaction rows):
  pairing (only when l or p is given; a missing one defaults to learner_id / environment_id): a p-group survives iff it
  holds exactly one evaluation for every level of l;  then length: n='min' truncates every evaluation to the shortest
  one, n=k drops evaluations shorter than k and truncates the others to k;  surviving cells are unchanged;  every id
  used by an interaction row has exactly one, unchanged, parameter row and every parameter row is used.
"""
import itertools
from collections import Counter, defaultdict
from fractions import Fraction

from vf.core import Check

from coba.results.core import Result, Table, moving_average
from coba.context import CobaContext, NullLogger, MemoryCacher

CobaContext.logger = NullLogger()
CobaContext.cacher = MemoryCacher()
CobaContext.search_paths = []

ICOLS = ['environment_id', 'learner_id', 'evaluator_id', 'index', 'reward']
ECOLS = ['environment_id', 'data_id', 'index_seed', 'environment_idx']
LCOLS = ['learner_id', 'family', 'reindex', 'learner_id2']
VCOLS = ['evaluator_id', 'evaluator_idx']

# two flavours of ids / parameter values.  0: sortable, duplicates, tuple-valued.  1: non-contiguous ids, mixed types
# (str/int/None: not sortable, so coba takes its unsorted grouping paths), rows handed to the constructor in reverse order.
ENV_IDS = {0: [0, 1, 2], 1: [3, 5, 6]}
LRN_IDS = {0: [0, 1, 2], 1: [1, 2, 4]}
VAL_IDS = {0: [0, 1], 1: [7, 9]}
ENV_P = {0: {'data_id': [7, 7, 8], 'index_seed': [1, 2, 1], 'environment_idx': [(1, 'a'), (1, 'b'), (1, 'a')]},
         1: {'data_id': ['a', 3, 'a'], 'index_seed': [None, 1, None], 'environment_idx': [(2,), (2,), (3, 'c')]}}
LRN_P = {0: {'family': ['a', 'a', 'b'], 'reindex': [0.1, 0.2, 0.1], 'learner_id2': [('x', 1), ('x', 2), ('x', 1)]},
         1: {'family': ['a', 1, 'a'], 'reindex': [0.5, 0.5, 0.25], 'learner_id2': [('y',), ('y',), ('y',)]}}
VAL_P = {0: {'evaluator_idx': ['on', 'off']}, 1: {'evaluator_idx': ['on', 'on']}}
REWARD_STEP = (0, 3, 1, 2)      # reward = base*4 + REWARD_STEP[i]: unique per row, not monotone inside an evaluation


# ------------------------------------------------------------------ the model of a Result

class Model:
    """Plain-Python content of a Result: parameter rows by id and the interaction rows by evaluation."""
    __slots__ = ('envs', 'lrns', 'vals', 'evals')

    def __init__(self, envs, lrns, vals, evals):
        self.envs, self.lrns, self.vals, self.evals = envs, lrns, vals, evals

    def level(self, spec, key):
        """The value of column (list) `spec` for evaluation key=(e,l,v)."""
        if isinstance(spec, (list, tuple)): return tuple(self.level(s, key) for s in spec)
        e, l, v = key
        if spec == 'full_name': return ('learner', l)       # the string itself is not constrained: one label per learner
        if spec in ECOLS: return self.envs[e][spec]
        if spec in LCOLS: return self.lrns[l][spec]
        if spec in VCOLS: return self.vals[v][spec]
        raise KeyError(spec)

    def rows(self):
        return sorted((e, l, v, i, r) for (e, l, v), rs in self.evals.items() for i, r in rs)

    def tight(self):
        """The same evaluations with only the referenced parameter rows."""
        ks = list(self.evals)
        return Model({e: self.envs[e] for e in {k[0] for k in ks}}, {l: self.lrns[l] for l in {k[1] for k in ks}},
                     {v: self.vals[v] for v in {k[2] for k in ks}}, self.evals)


def describe(rd):
    E, L, V = rd['E'], rd['L'], rd['V']
    fl = rd.get('fl', 0)
    eids, lids, vids = ENV_IDS[fl][:E], LRN_IDS[fl][:L], VAL_IDS[fl][:V]
    envs = {eids[i]: dict({'environment_id': eids[i]}, **{c: ENV_P[fl][c][i] for c in ECOLS[1:]}) for i in range(E)}
    lrns = {lids[i]: dict({'learner_id': lids[i]}, **{c: LRN_P[fl][c][i] for c in LCOLS[1:]}) for i in range(L)}
    vals = {vids[i]: dict({'evaluator_id': vids[i]}, **{c: VAL_P[fl][c][i] for c in VCOLS[1:]}) for i in range(V)}
    evals = {}
    t = 0
    for ei in range(E):
        for li in range(L):
            for vi in range(V):
                n = rd['lens'][t]; t += 1
                if n:
                    base = ei * 9 + li * 3 + vi
                    evals[(eids[ei], lids[li], vids[vi])] = [(i + 1, base * 4 + REWARD_STEP[i]) for i in range(n)]
    return Model(envs, lrns, vals, evals)


def build(M, reverse=False):
    """A fresh real Result with the content of the model (public constructor, list-of-rows form as in the docs/tests)."""
    er = [[r[c] for c in ECOLS] for _, r in sorted(M.envs.items())]
    lr = [[r[c] for c in LCOLS] for _, r in sorted(M.lrns.items())]
    vr = [[r[c] for c in VCOLS] for _, r in sorted(M.vals.items())]
    ir = [list(r) for r in M.rows()]
    if reverse:
        er.reverse(); lr.reverse(); vr.reverse(); ir.reverse()
    return Result([list(ECOLS)] + er, [list(LCOLS)] + lr, [list(VCOLS)] + vr, [list(ICOLS)] + ir)


class Unreadable(Exception):
    pass


def readback(res):
    """-> (env rows, lrn rows, val rows, interaction rows) through the public observers only."""
    try:
        out = []
        for t, cols in ((res.environments, ECOLS), (res.learners, LCOLS), (res.evaluators, VCOLS)):
            if tuple(t.columns) != tuple(cols) and len(t) != 0:
                raise Unreadable(f'parameter table columns {tuple(t.columns)} instead of {tuple(cols)}')
            out.append([dict(d) for d in t.to_dicts()])
        it = res.interactions
        if tuple(it.columns) != tuple(ICOLS) and len(it) != 0:
            raise Unreadable(f'interaction columns {tuple(it.columns)} instead of {tuple(ICOLS)}')
        rows = [tuple(r) for r in it]
        if len(rows) != len(it):
            raise Unreadable(f'len(interactions)={len(it)} but iteration gives {len(rows)} rows')
        out.append(rows)
        return out
    except Unreadable:
        raise
    except Exception as e:      # noqa
        raise Unreadable(f'reading the tables raised {e!r}')


def group_rows(rows):
    evals = {}
    for e, l, v, i, r in rows:
        evals.setdefault((e, l, v), []).append((i, r))
    return evals


# ------------------------------------------------------------------ reference: where / where_fin

def model_fin(M, n, l, p, levels_from_table=False):
    """-> (evals expected to survive, why[key] in {'kept','pairing:<kind>','short'})"""
    evals = dict(M.evals)
    why = {k: 'kept' for k in evals}
    if l or p:
        L = l or 'learner_id'
        P = p or 'environment_id'
        levels = {M.level(L, k) for k in evals}
        if levels_from_table:
            levels = {M.level(L, (e, ll, v)) for e in M.envs for ll in M.lrns for v in M.vals}
        groups = defaultdict(list)
        for k in evals: groups[M.level(P, k)].append(k)
        for g, ks in groups.items():
            c = Counter(M.level(L, k) for k in ks)
            dup = any(x > 1 for x in c.values())
            mis = set(c) != levels
            if dup or mis:
                kind = 'two evaluations of one level and none of another' if dup and mis else \
                       'more than one evaluation of a level' if dup else 'no evaluation of some level'
                for k in ks:
                    why[k] = 'pairing:' + kind
                    del evals[k]
    if n:
        if n == 'min':
            m = min(map(len, evals.values())) if evals else 0
        else:
            m = n
            for k in [k for k, rs in evals.items() if len(rs) < n]:
                why[k] = 'short'
                del evals[k]
        evals = {k: rs[:m] for k, rs in evals.items()}
    return evals, why


def where_values(col, positions, form, fl):
    if col in ECOLS: pool, idx = (ENV_IDS[fl] if col == 'environment_id' else ENV_P[fl][col]), 0
    elif col in LCOLS: pool, idx = (LRN_IDS[fl] if col == 'learner_id' else LRN_P[fl][col]), 1
    else: pool, idx = (VAL_IDS[fl] if col == 'evaluator_id' else VAL_P[fl][col]), 2
    values = [pool[q] if q < len(pool) else 99 for q in positions]
    return idx, values, (values[0] if form == 'eq' else list(values))


def model_where(M, step, fl):
    """-> (kwargs of the Result.where call, evaluations (with their rows) expected to remain, feature, short name)
    where      one keyword on a parameter column: evaluations whose env/lrn/val row has the value (eq) / one of the values (in)
    where2     two keywords on columns of ONE parameter table: union ("multiple kwargs in a single where applies an or"), in the given keyword order
    wherer     reward = / in the rewards of the first rows of the named triples (an interaction column: single rows survive)
    wherei     index = k (an interaction column)"""
    k0 = step[0]
    if k0 in ('where', 'where2'):
        conds = [step[1:4]] if k0 == 'where' else [list(c) for c in step[1:]]
        kwargs, match = {}, set()
        for col, positions, form in conds:
            idx, values, arg = where_values(col, positions, form, fl)
            kwargs[col] = arg
            table = (M.envs, M.lrns, M.vals)[idx]
            match |= {k for k in M.evals if k[idx] in table and table[k[idx]][col] in values}
        evals = {k: rs for k, rs in M.evals.items() if k in match}
        if k0 == 'where': return kwargs, evals, f'{kind(conds[0][0])} column {conds[0][2]}', 'where'
        return kwargs, evals, f'two keywords on the {("environment", "learner", "evaluator")[idx]} table ({kind(conds[0][0])} then {kind(conds[1][0])} column)', 'where[2 keywords]'
    if k0 == 'wherer':
        values = [(e * 9 + l * 3 + v) * 4 + REWARD_STEP[0] for e, l, v in step[1]]
        arg = values[0] if step[2] == 'eq' else list(values)
        evals = {k: [r for r in rs if r[1] in values] for k, rs in M.evals.items()}
        return {'reward': arg}, {k: rs for k, rs in evals.items() if rs}, f'reward {step[2]}', 'where[interaction column]'
    if k0 == 'wherei':
        evals = {k: [r for r in rs if r[0] == step[1]] for k, rs in M.evals.items()}
        return {'index': step[1]}, {k: rs for k, rs in evals.items() if rs}, 'index eq', 'where[interaction column]'
    raise ValueError(step)


WHERE_KINDS = ('where', 'where2', 'wherer', 'wherei')


def unreferenced(M):
    ks = list(M.evals)
    return [set(M.envs) - {k[0] for k in ks}, set(M.lrns) - {k[1] for k in ks}, set(M.vals) - {k[2] for k in ks}]


# ------------------------------------------------------------------ reference: averages

def ref_moving_average(values, span, weights):
    """Textbook definition, exact.  -> list of Fraction (None where the window has zero total weight)"""
    vals = [Fraction(v) for v in values]
    n = len(vals)
    if weights == 'exp':
        a = Fraction(2, 1 + span)
        out = []
        for t in range(n):
            num = sum((1 - a) ** i * vals[t - i] for i in range(t + 1))
            den = sum((1 - a) ** i for i in range(t + 1))
            out.append(num / den)
        return out
    w = [Fraction(1)] * n if weights is None else [Fraction(x) for x in weights]
    out = []
    for t in range(n):
        lo = 0 if span is None else max(0, t - span + 1)
        den = sum(w[lo:t + 1])
        out.append(sum(a * b for a, b in zip(vals[lo:t + 1], w[lo:t + 1])) / den if den else None)
    return out


def close(a, b):
    try:
        a = float(a); b = float(b)
    except Exception:   # noqa
        return False
    return a == b or abs(a - b) <= 1e-9 * (1 + abs(b))


def is_nan(x):
    return isinstance(x, float) and x != x


def model_raw(M, x, l, p, span):
    """-> dict (l value, x value) -> list of exact averages, one per surviving evaluation; or None when nothing survives"""
    if p:
        evals, _ = model_fin(M, 'min' if x == 'index' else None, l, p)
    else:
        evals = M.evals
    if not evals: return None
    cells = defaultdict(list)
    for k in sorted(evals):
        ys = [r for _, r in evals[k]]
        lv = M.level(l, k)
        if x == 'index':
            for (i, _), a in zip(evals[k], ref_moving_average(ys, span, None)):
                cells[(lv, i)].append(a)
        else:
            tail = ys[-span:] if span else ys
            cells[(lv, M.level(x, k))].append(Fraction(sum(tail), len(tail)))
    return cells


# ------------------------------------------------------------------ operation alphabets

def kind(c):
    if c is None: return 'None'
    if isinstance(c, list): return 'list'
    return 'id' if c.endswith('_id') and c != 'data_id' else 'param'


def kind2(c):
    return 'omitted' if c is None else 'list' if isinstance(c, list) else 'column'


FIN_N = [None, 'min', 1, 2, 3]
FIN_L_FULL = [None, 'learner_id', 'family', 'reindex', ['family', 'reindex'], ['learner_id', 'evaluator_id']]     # 'reindex': level order differs from id order
FIN_P_FULL = [None, 'environment_id', 'data_id', ['data_id', 'index_seed'], ['environment_id', 'evaluator_id']]
FIN_LP_RED = [('learner_id', 'environment_id'), ('family', 'environment_id'), ('reindex', 'environment_id'), ('learner_id', 'data_id'),
              ('learner_id', ['environment_id', 'evaluator_id']), (['learner_id', 'evaluator_id'], 'environment_id')]
WHERES = [['where', 'learner_id', [0], 'eq'], ['where', 'learner_id', [1, 0], 'in'], ['where', 'environment_id', [1], 'eq'],
          ['where', 'environment_id', [0, 1], 'in'], ['where', 'data_id', [0], 'eq'], ['where', 'family', [0], 'eq'],
          ['where', 'evaluator_id', [0], 'eq'], ['where', 'learner_id', [9], 'eq']]


# two keywords on ONE parameter table; the matches of the second keyword precede those of the first in table order (and the reverse)
WHERE2 = [['where2', ['family', [2], 'eq'], ['reindex', [1], 'eq']], ['where2', ['reindex', [1], 'eq'], ['family', [2], 'eq']],
          ['where2', ['learner_id', [2], 'eq'], ['reindex', [1], 'eq']], ['where2', ['reindex', [1], 'eq'], ['learner_id', [2], 'eq']],
          ['where2', ['learner_id', [1], 'eq'], ['family', [0], 'eq']],
          ['where2', ['data_id', [2], 'eq'], ['index_seed', [1], 'eq']], ['where2', ['index_seed', [1], 'eq'], ['data_id', [2], 'eq']],
          ['where2', ['environment_id', [2], 'eq'], ['data_id', [1], 'eq']], ['where2', ['environment_id', [2], 'eq'], ['index_seed', [1], 'eq']],
          ['where2', ['environment_id', [1], 'eq'], ['data_id', [0], 'eq']]]
# keywords on interaction columns: single rows survive, whole triples disappear
WHEREI = [['wherer', [[0, 0, 0], [0, 1, 0]], 'in'], ['wherer', [[0, 0, 0], [1, 0, 0]], 'in'], ['wherer', [[0, 0, 0]], 'eq'],
          ['wherer', [[0, 0, 0], [0, 0, 1]], 'in'], ['wherei', 1]]


def ops_full():
    """Every operation (a list of steps) applied to the small shapes."""
    out = []
    for n in FIN_N:
        for l in FIN_L_FULL:
            for p in FIN_P_FULL:
                out.append([['fin', n, l, p]])
    out.append([['fin', 2, 'learner_id', 'environment_id', 'filter_fin']])
    out.append([['fin', 'min', None, None, 'filter_fin']])
    # raw_learners
    for x in ('index', 'environment_id', 'data_id', ['data_id', 'index_seed'], 'family'):
        for l in ('full_name', 'learner_id', 'family', ['family', 'reindex']):
            for p in ('environment_id', None, 'data_id'):
                for span in (None, 1, 2, 5):
                    out.append([['raw', x, l, p, span]])
    # column names that contain / extend the reserved words ('index', 'learner_id', 'environment_id'), as string and as list
    for x in ('index_seed', ['index_seed'], 'environment_idx'):
        for l in ('learner_id', 'reindex'):
            for p in ('environment_id', None, 'data_id'):
                for span in (None, 1, 2, 5):
                    out.append([['raw', x, l, p, span]])
    for l in ('learner_id2', ['learner_id2', 'reindex']):
        for p in ('environment_id', None, 'environment_idx'):
            for span in (None, 2):
                out.append([['raw', 'index', l, p, span]])
                out.append([['raw', 'index_seed', l, p, span]])
    # chains
    fins = [[None, None, None], ['min', None, None], [2, None, None], [None, 'learner_id', 'environment_id'],
            ['min', 'learner_id', 'environment_id'], [2, 'family', 'data_id']]
    for w in WHERES:
        for f in fins:
            out.append([w, ['fin'] + f])
        for x in ('index', 'data_id'):
            for p in ('environment_id', None):
                for span in (None, 2):
                    out.append([w, ['raw', x, 'learner_id', p, span]])
    for f1 in fins[1:]:
        for f2 in fins[1:]:
            out.append([['fin'] + f1, ['fin'] + f2])
        for w in WHERES[:3]:
            out.append([['fin'] + f1, w, ['fin', 'min', 'learner_id', 'environment_id']])
        out.append([['fin'] + f1, ['raw', 'index', 'learner_id', 'environment_id', 2]])
    for w in WHERE2:
        for f in fins[1:5]:
            out.append([w, ['fin'] + f])
        out.append([w, ['fin', None, 'learner_id', 'environment_id'], ['fin', 2, None, None]])
        out.append([w, ['raw', 'index', 'learner_id', 'environment_id', None]])
        out.append([w, ['raw', 'data_id', 'learner_id', None, 2]])
        out.append([w, ['best', 'family', 'environment_id', None], ['fin', 'min', None, None]])
    for w in WHEREI:
        for f in ([None, None, None], [1, None, None], ['min', None, None], [None, 'learner_id', 'environment_id']):
            out.append([w, ['fin'] + f])
        out.append([w, ['raw', 'index', 'learner_id', None, None]])
    for p in ('environment_id', 'data_id'):
        for n in (None, 1):
            out.append([['best', 'family', p, n], ['fin', 'min', 'learner_id', 'environment_id']])
            out.append([['best', 'family', p, n], ['fin', 2, None, None]])
        out.append([WHERES[3], ['fin', 'min', 'learner_id', 'environment_id'], ['best', 'family', p, None]])
        out.append([['fin', 2, None, None], ['best', 'family', p, None], ['fin', None, 'learner_id', 'environment_id']])
    return out


def ops_reduced():
    """The operations applied to the large shapes."""
    out = []
    for n in (None, 'min', 2):
        for l, p in FIN_LP_RED:
            out.append([['fin', n, l, p]])
    out.append([['fin', 3, None, None]])
    for x in ('index', 'data_id'):
        for p in ('environment_id', None):
            for span in (None, 2):
                out.append([['raw', x, 'learner_id', p, span]])
    for span in (None, 2):
        out.append([['raw', 'index_seed', 'learner_id', 'environment_id', span]])
    out.append([['raw', ['index_seed'], 'reindex', 'environment_id', None]])
    out.append([WHERES[0], ['fin', 'min', 'learner_id', 'environment_id']])
    out.append([WHERES[2], ['fin', 2, None, None]])
    out.append([['fin', 2, None, None], ['fin', 'min', 'learner_id', 'environment_id']])
    out.append([['fin', None, 'learner_id', 'environment_id'], ['raw', 'index', 'learner_id', None, 2]])
    out.append([['best', 'family', 'environment_id', None], ['fin', 'min', 'learner_id', 'environment_id']])
    for w in (WHERE2[0], WHERE2[2], WHERE2[4], WHERE2[5], WHERE2[9]):
        out.append([w, ['fin', 2, None, None]])
        out.append([w, ['fin', 'min', 'learner_id', 'environment_id']])
    out.append([WHERE2[0], ['raw', 'index', 'learner_id', 'environment_id', None]])
    out.append([WHEREI[0], ['fin', 1, None, None]])
    out.append([WHEREI[1], ['fin', 'min', None, None]])
    return out


OPS = {'full': ops_full(), 'red': ops_reduced()}

# (E, L, V, lengths alphabet, flavours, ops level)
SHAPES = {
    'quick': [(1, 1, 1, (0, 1, 3), (0, 1), 'full'), (2, 1, 1, (0, 1, 3), (0, 1), 'full'), (1, 2, 1, (0, 1, 3), (0, 1), 'full'),
              (1, 1, 2, (0, 1, 3), (0, 1), 'full'), (2, 2, 1, (0, 1, 3), (0, 1), 'full'), (3, 1, 1, (0, 1, 3), (0, 1), 'full'),
              (1, 3, 1, (0, 1, 3), (0, 1), 'full'), (1, 2, 2, (0, 1, 3), (0,), 'full'), (2, 3, 1, (0, 1, 3), (0,), 'red'), (2, 2, 2, (0, 1, 3), (0,), 'red')],
    'thorough': [(1, 1, 1, (0, 1, 2, 3), (0, 1), 'full'), (2, 1, 1, (0, 1, 2, 3), (0, 1), 'full'), (1, 2, 1, (0, 1, 2, 3), (0, 1), 'full'),
                 (1, 1, 2, (0, 1, 2, 3), (0, 1), 'full'), (2, 2, 1, (0, 1, 2, 3), (0, 1), 'full'),
                 (1, 2, 2, (0, 1, 2, 3), (0, 1), 'full'), (2, 1, 2, (0, 1, 2, 3), (0, 1), 'full'),
                 (3, 1, 1, (0, 1, 2, 3), (0, 1), 'full'), (1, 3, 1, (0, 1, 2, 3), (0, 1), 'full'),
                 (3, 2, 1, (0, 1, 3), (0, 1), 'full'), (2, 3, 1, (0, 1, 3), (0, 1), 'full'),
                 (3, 2, 1, (0, 1, 2, 3), (0,), 'red'), (2, 3, 1, (0, 1, 2, 3), (0,), 'red'),
                 (2, 2, 2, (0, 1, 3), (1,), 'red'), (2, 2, 2, (0, 1, 2, 3), (0,), 'red'), (3, 3, 1, (0, 1, 3), (0,), 'red'),
                 (3, 2, 2, (0, 2), (0,), 'red')],
}

MA_SPANS = [None, 1, 2, 3, 4, 5, 9]
MA_WEIGHTS = [None, 'exp', 'half', 'inc', 'alt']


def ma_weights(w, n):
    if w in (None, 'exp'): return w
    if w == 'half': return [.5] * n
    if w == 'inc': return [i + 1 for i in range(n)]
    if w == 'alt': return [2 if i % 2 == 0 else 1 for i in range(n)]
    if w == 'dec': return [n - i for i in range(n)]
    raise ValueError(w)


class _Rec:
    def __init__(self):
        self.violations = []; self.outcomes = []; self.nontrivial = False
    def violation(self, key, what): self.violations.append((key, what))
    def outcome(self, sig): self.outcomes.append(sig)


class C18(Check):
    ID = 'C18'
    LEVEL = 'exploration'
    ENGINE = 'ENUM'
    RULE = ('cases = Results built by the public constructor for (E,L,V) up to (2,2,2)/(2,3,1) (thorough up to (3,3,1)/(3,2,2)) with EVERY presence '
            'pattern of the E*L*V evaluation triples x EVERY assignment of evaluation lengths from {1,3} (thorough {1,2,3}; the largest shapes a '
            'subset) x 2 parameter flavours (duplicate, tuple-valued, mixed-type/None values; non-contiguous ids; reversed row order); on a fresh '
            'Result per operation: where_fin/filter_fin for n in {None,min,1,2,3} x l in {None, learner_id, family, reindex, [family,reindex], '
            '[learner_id,evaluator_id]} x p in {None, environment_id, data_id, [data_id,index_seed], [environment_id,evaluator_id]}; chains '
            'where->where_fin (where: one keyword on an id/parameter column; TWO keywords on columns of one parameter table in both orders, the second keyword matching rows that precede the first keyword\'s; keywords on the interaction columns reward/index), where_fin->where_fin, where_fin->where->where_fin, where_best->where_fin, where->where_fin->where_best, where_fin->where_best->where_fin, where->raw_learners, where_fin->raw_learners; '
            'raw_learners for x in {index, environment_id, data_id, [data_id,index_seed], family, index_seed, [index_seed], environment_idx} x l in {full_name, learner_id, family, [family,reindex], reindex, learner_id2, [learner_id2,reindex]} (parameter columns are deliberately named index_seed, reindex, learner_id2, environment_idx, evaluator_idx: they contain or extend the reserved column names) '
            'x p in {environment_id, None, data_id} x span in {None,1,2,5} (large shapes: a reduced operation list); plus moving_average for '
            'every value sequence of length <=5 over a 3 (thorough 5) letter alphabet x span in {None,1,2,3,4,5,9} x weights in {None, exp, 3-4 '
            'lists}; all enumerated exhaustively, smallest first. A case is non-trivial when some operation removed or shortened something but '
            'not everything / produced a non-empty raw table / the moving average has >=2 values and a window shorter than the sequence')
    ASSUMPTIONS = [
        'interaction indexes are 1..len per evaluation (as written by coba experiments); the length of an evaluation is its number of rows',
        'pairing is applied only when l or p is given (where_fin(n) alone may leave an environment with a single learner, as the pinned tests do); a missing l / p defaults to learner_id / environment_id (class docstring, statement)',
        'the levels of l that a pairing group must cover are those that occur in the interactions; when a parameter row of l\'s table has no interaction at all an empty result is accepted as well',
        'parameter rows that were already unreferenced in the Result the chain STARTED from (the caller\'s constructor input) need not be removed by a where_fin that was given neither l nor p (coba prunes only when it drops something); with l or p they must be (pinned test); rows that a where step of the chain left unreferenced must be gone after the final where_fin',
        'row order inside the four tables, logging, full_name strings (columns of raw_learners(l=full_name) are matched by content), order of the values inside one raw_learners cell are not constrained',
        'raw_learners on a Result in which nothing survives may raise or return an empty table; cells without data must hold no finite value',
        'where / where_best are only intermediate steps: where must select exactly the interaction rows of the matching rows (several keywords on one table: union, as documented; keywords on different tables are not used) and stay forward-consistent without repeated parameter rows (unreferenced rows after where alone are not judged); the output of where_best is taken as it is (only forward consistency and unaltered cells are demanded), where_best(p=None) and exceptions of where_best are not judged',
        'moving_average: weights are positive; weights="exp" with span=None is undefined (an exception is accepted); comparison of averages with relative tolerance 1e-9 against exact rationals',
        'where(col=<tuple>) (a tuple argument means membership), x=["index"] (list form), Missing parameter values (ragged parameter tables), unhashable values, column names present in two tables, plotting and raw_contrast are outside the alphabet',
    ]
    TECHNIQUE = 'bounded-exhaustive enumeration of Results (all presence x length patterns) x an operation alphabet on the real Result/Table code vs. a naive recomputation from the interaction rows; exact rational textbook moving averages'
    LEVEL_TEXT = ('Every Result up to 2x2x2 / 2x3x1 evaluation triples (thorough up to 3x3x1 / 3x2x2) with every presence and length pattern is filtered by the real '
                  'where_fin/filter_fin for every (n,l,p) of the alphabet, chained with where/where_best, and plotted through raw_learners; each outcome is compared with a '
                  'plain recomputation from the interaction rows. Exhaustive below the bound, so the smallest counterexample of each failure class is found with certainty.')
    LEVEL_NOTE = 'small-scope hypothesis: <=3 environments/learners, <=2 evaluators, evaluation lengths <=3, two fixed parameter-value flavours, a fixed operation alphabet; plotting not executed'
    MIN_NONTRIVIAL = {'quick': 3000, 'thorough': 50000}
    CASE_TIMEOUT = 120

    # -------------------------------------------------------------- enumeration
    def cases(self, tier):
        alpha = (0, 1, 3) if tier == 'quick' else (0, 1, 3, -2, 0.5)
        for n in range(0, 6):
            for vs in itertools.product(alpha, repeat=n):
                yield {'ma': list(vs)}
        for E, L, V, lens, fls, level in SHAPES[tier]:
            for pat in itertools.product(lens, repeat=E * L * V):
                if not any(pat): continue
                for fl in fls:
                    yield {'r': {'E': E, 'L': L, 'V': V, 'lens': list(pat), 'fl': fl}, 'ops': level}

    # -------------------------------------------------------------- moving_average
    def run_ma(self, values, acc, only=None):
        n = len(values)
        for span in MA_SPANS:
            for w in MA_WEIGHTS + (['dec'] if n >= 4 else []):
                if only is not None and [span, w] != only: continue
                weights = ma_weights(w, n)
                acc.count('ops_moving_average')
                wk = 'None' if w is None else 'exp' if w == 'exp' else 'list'
                sk = 'None' if span is None else '1' if span == 1 else '>=len' if span >= n else '<len'
                wit = {'ma': list(values), 'only': [span, w]}
                try:
                    got = list(moving_average(list(values), span, list(weights) if isinstance(weights, list) else weights))
                except Exception as e:      # noqa
                    if w == 'exp' and span is None:
                        acc.outcome('ma:exp-without-span-rejected'); continue
                    acc.violation(f'moving_average|raises {type(e).__name__}|span {sk} weights {wk}', f'moving_average({values}, {span}, {weights}) raised {e!r}', wit)
                    continue
                if w == 'exp' and span is None: continue
                exp = ref_moving_average(values, span, weights)
                if len(got) != n:
                    acc.violation(f'moving_average|wrong number of values|span {sk} weights {wk}', f'moving_average({values}, {span}, {weights}) -> {got}', wit)
                    continue
                bad = [i for i in range(n) if exp[i] is not None and not close(got[i], exp[i])]
                if bad:
                    acc.violation(f'moving_average|differs from the textbook definition|span {sk} weights {wk}',
                                  f'moving_average({values}, span={span}, weights={weights}) -> {got}, expected {[float(e) for e in exp]}', wit)
                    continue
                if n >= 2 and span is not None and 1 < span < n: acc.mark_nontrivial()
                acc.outcome(('ma', sk, wk, n))

    # -------------------------------------------------------------- one step on the real object + comparison
    def do_step(self, cur, M, step, fl, rec, ctx, exempt=None):
        """Apply `step` to the real Result `cur` whose content is the model M.
        -> (real output or None, model of the output or None).  None = stop the chain (violation reported or nothing to go on)."""
        kindname = 'where' if step[0] in WHERE_KINDS else step[0]
        if exempt is None: exempt = unreferenced(M)
        if kindname == 'where':
            kwargs, exp_evals, feat, _ = model_where(M, step, fl)
            comp = 'where'
            try:
                out = cur.where(**kwargs)
            except Exception as e:      # noqa
                rec.violation(f'{comp}|raises {type(e).__name__}|{feat}{ctx}', f'where(**{kwargs!r}) raised {e!r}'); return None, None
        elif kindname == 'fin':
            n, l, p = step[1:4]
            method = step[4] if len(step) > 4 else 'where_fin'
            comp = 'where_fin'
            feat = f'n={"int" if isinstance(n, int) else n} l={kind(l)} p={kind(p)}'
            try:
                out = getattr(cur, method)(n, l, p)
            except Exception as e:      # noqa
                rec.violation(f'{comp}|raises {type(e).__name__}|{feat}{ctx}', f'{method}(n={n!r}, l={l!r}, p={p!r}) raised {e!r}'); return None, None
        elif kindname == 'best':
            _, l, p, n = step
            comp = 'where_best'
            feat = f'l={kind(l)} p={kind(p)}'
            try:
                out = cur.where_best(l, p, n=n)
            except Exception as e:      # noqa      (not judged: outside the statement)
                rec.outcome(f'where_best raised {type(e).__name__}'); return None, None
        else:
            raise ValueError(step)

        try:
            envs, lrns, vals, rows = readback(out)
        except Unreadable as e:
            rec.violation(f'{comp}|result tables unreadable|{feat}{ctx}', f'{step}: {e}'); return None, None

        # --- the interaction rows
        got_evals = group_rows(rows)
        if len(set(rows)) != len(rows):
            rec.violation(f'{comp}|duplicate interaction rows|{feat}{ctx}', f'{step}: rows {rows}'); return None, None
        if kindname == 'fin':
            exp_evals, why = model_fin(M, n, l, p)
            if not self.same_evals(got_evals, exp_evals):
                alt_ok = False
                if (l or p):     # levels taken from the parameter table (rows without any interaction): nothing can be complete
                    alt, _ = model_fin(M, n, l, p, levels_from_table=True)
                    alt_ok = alt != exp_evals and self.same_evals(got_evals, alt)
                if not alt_ok:
                    self.classify_fin(M, got_evals, exp_evals, why, comp, feat + ctx, step, rec, ctx)
                    return None, None
                exp_evals = alt
        elif kindname == 'where':
            if not self.same_evals(got_evals, exp_evals):
                extra = sorted(set(got_evals) - set(exp_evals)); missing = sorted(set(exp_evals) - set(got_evals))
                mode = 'kept evaluations of rows that do not match' if extra else 'lost evaluations of matching rows' if missing else 'interaction rows altered'
                rec.violation(f'{comp}|{mode}|{feat}{ctx}', f'where(**{kwargs!r}) on evaluations {self.lens_of(M.evals)} -> {self.lens_of(got_evals)}, expected {self.lens_of(exp_evals)}')
                return None, None
        else:
            for k, rs in got_evals.items():
                if M.evals.get(k) != sorted(rs):
                    rec.violation(f'{comp}|evaluation invented or cells altered|{feat}{ctx}', f'{step}: evaluation {k} -> {rs}, input had {M.evals.get(k)}'); return None, None
            exp_evals = {k: sorted(rs) for k, rs in got_evals.items()}

        # --- the parameter tables
        tabs = (('environment', envs, M.envs, 0, 'environment_id'), ('learner', lrns, M.lrns, 1, 'learner_id'), ('evaluator', vals, M.vals, 2, 'evaluator_id'))
        newp = []
        for name, got_rows, old, idx, idc in tabs:
            ids = [r.get(idc) for r in got_rows]
            if len(set(ids)) != len(ids):
                rec.violation(f'{comp}|duplicate {name} rows|{feat}{ctx}', f'{step}: {name} ids {ids}'); return None, None
            for r in got_rows:
                if r.get(idc) not in old or old[r[idc]] != r:
                    rec.violation(f'{comp}|{name} row altered or invented|{feat}{ctx}', f'{step}: {r}, input had {old.get(r.get(idc))}'); return None, None
            used = {k[idx] for k in exp_evals}
            lost = sorted(used - set(ids), key=repr)
            if lost:
                rec.violation(f'{comp}|interaction rows reference a missing {name} row|{feat}{ctx}',
                              f'{step} on evaluations {self.lens_of(M.evals)}: interactions use {name} ids {sorted(used, key=repr)}, table has {ids}'); return None, None
            if kindname == 'fin':
                unref = set(ids) - used
                if not (l or p):     # rows that were unreferenced in the Result the chain started from may survive a pure length filter
                    unref -= exempt[idx]
                if unref:
                    rec.violation(f'{comp}|unreferenced {name} row kept|{feat}{ctx}',
                                  f'{step} on evaluations {self.lens_of(M.evals)}: {name} ids {sorted(unref, key=repr)} are in the table but in no interaction row (kept evaluations {sorted(exp_evals)})'); return None, None
            newp.append({r[idc]: r for r in got_rows})
        newM = Model(newp[0], newp[1], newp[2], {k: sorted(rs) for k, rs in exp_evals.items()})
        nin, nout = sum(map(len, M.evals.values())), sum(map(len, exp_evals.values()))
        if 0 < nout < nin: rec.nontrivial = True
        rec.outcome((kindname, len(exp_evals), nout))
        return out, newM

    @staticmethod
    def lens_of(evals):
        return {str(k): len(v) for k, v in sorted(evals.items())}

    @staticmethod
    def same_evals(got, exp):
        return got.keys() == exp.keys() and all(sorted(got[k]) == exp[k] for k in exp)

    def classify_fin(self, M, got, exp, why, comp, feat, step, rec, ctx=''):
        inp = M.evals
        desc = f'{step} on evaluations (env,lrn,val)->length {self.lens_of(inp)}'
        for k in sorted(got):
            if k not in inp:
                rec.violation(f'{comp}|evaluation invented|{feat}', f'{desc}: result has {k}'); return
        extra = sorted(set(got) - set(exp))
        if extra:
            w = why[extra[0]]
            if w.startswith('pairing:'):       # the mode is specific; n and the kind of column are not discriminating
                rec.violation(f'{comp}|kept a pairing group with {w[8:]}|l={kind2(step[2])} p={kind2(step[3])}{ctx}', f'{desc}: kept {sorted(got)}, expected {sorted(exp)}')
            else:
                rec.violation(f'{comp}|kept an evaluation shorter than n|{feat}', f'{desc}: kept {self.lens_of(got)}, expected {self.lens_of(exp)}')
            return
        missing = sorted(set(exp) - set(got))
        if missing:
            rec.violation(f'{comp}|dropped an evaluation that is complete and long enough|{feat}', f'{desc}: kept {sorted(got)}, expected {sorted(exp)}'); return
        for k in sorted(exp):
            g = sorted(got[k])
            if g != exp[k]:
                if len(g) != len(exp[k]) and g == inp[k][:len(g)]:
                    rec.violation(f'{comp}|evaluation not cut to the requested length|{feat}', f'{desc}: evaluation {k} has {len(g)} rows, expected {len(exp[k])}')
                else:
                    rec.violation(f'{comp}|interaction cells altered|{feat}', f'{desc}: evaluation {k} -> {g}, expected {exp[k]}')
                return

    def do_raw(self, cur, M, step, rec, ctx):
        _, x, l, p, span = step
        comp = 'raw_learners'
        feat = f'x={"index" if x == "index" else kind(x)} l={"full_name" if l == "full_name" else kind(l)} p={kind(p)} span={"None" if span is None else "1" if span == 1 else "k"}'
        cells = model_raw(M, x, l, p, span)
        desc = f'raw_learners(x={x!r}, l={l!r}, p={p!r}, span={span!r}) on evaluations {self.lens_of(M.evals)}'
        try:
            t = cur.raw_learners(x=x, y='reward', l=l, p=p, span=span)
            cols = list(t.columns)
            X = list(t['x'])
            data = {c: [list(cell) for cell in t[c]] for c in cols[1:]}
        except Exception as e:      # noqa
            if cells is None:
                rec.outcome(f'raw rejected empty: {type(e).__name__}'); return
            rec.violation(f'{comp}|raises {type(e).__name__}|{feat}{ctx}', f'{desc} raised {e!r}'); return
        if cells is None:
            if any(not is_nan(v) for col in data.values() for cell in col for v in cell):
                rec.violation(f'{comp}|reports averages although no pairing group is complete|{feat}{ctx}', f'{desc} -> {data}')
            else:
                rec.outcome('raw empty table')
            return
        exp_x = {k[1] for k in cells}
        if len(set(X)) != len(X) or set(X) != exp_x or cols[0] != 'x':
            rec.violation(f'{comp}|wrong x values|{feat}{ctx}', f'{desc}: x={X}, expected {sorted(exp_x, key=repr)}'); return
        if any(len(col) != len(X) for col in data.values()):
            rec.violation(f'{comp}|column length differs from x|{feat}{ctx}', f'{desc} -> {data}'); return
        exp_l = {k[0] for k in cells}

        def canon_exp(lv):
            return [sorted(cells.get((lv, xv), [])) for xv in X]

        def canon_got(c):
            return [sorted(v for v in cell if not is_nan(v)) for cell in data[c]]

        def cell_eq(g, e):
            return len(g) == len(e) and all(close(a, b) for a, b in zip(g, e))

        def col_eq(g, e):
            return all(cell_eq(a, b) for a, b in zip(g, e))

        if l == 'full_name':      # labels are not constrained: match columns to learners by content
            rest = [canon_exp(lv) for lv in sorted(exp_l)]
            ok = len(rest) == len(data)
            for c in data:
                g = canon_got(c)
                hit = next((i for i, e in enumerate(rest) if col_eq(g, e)), None)
                if hit is None: ok = False; break
                rest.pop(hit)
            if not ok:
                rec.violation(f'{comp}|averages differ from the direct computation|{feat}{ctx}',
                              f'{desc}: x={X} -> {data}, expected columns {[[list(map(float, c)) for c in canon_exp(lv)] for lv in sorted(exp_l)]}')
                return
        else:
            if len(set(data)) != len(cols) - 1 or set(data) != exp_l:
                rec.violation(f'{comp}|wrong label columns|{feat}{ctx}', f'{desc}: columns {cols[1:]}, expected {sorted(exp_l, key=repr)}'); return
            for c in data:
                g, e = canon_got(c), canon_exp(c)
                if not col_eq(g, e):
                    bad = next(i for i in range(len(X)) if not cell_eq(g[i], e[i]))
                    mode = 'wrong number of values in a cell' if len(g[bad]) != len(e[bad]) else 'averages differ from the direct computation'
                    rec.violation(f'{comp}|{mode}|{feat}{ctx}', f'{desc}: label {c!r} x={X[bad]!r} -> {data[c][bad]}, expected {[float(v) for v in e[bad]]}')
                    return
        rec.nontrivial = True
        rec.outcome(('raw', len(X), len(data), sum(len(v) for v in cells.values())))

    @staticmethod
    def fin_sig(M, fl, step):
        """Outcome of one where_fin call on a fresh Result with content M: the exception type or the four tables."""
        try:
            out = getattr(build(M, reverse=bool(fl)), step[4] if len(step) > 4 else 'where_fin')(step[1], step[2], step[3])
            e, l, v, rows = readback(out)
            return (sorted(map(repr, e)), sorted(map(repr, l)), sorted(map(repr, v)), sorted(rows))
        except Unreadable:
            return ('unreadable',)
        except Exception as ex:     # noqa
            return ('exc', type(ex).__name__)

    def simplify_key(self, M, fl, step, rec, before, ctx, exempt=None):
        """Greedy: the simplest arguments of the failing step that still fail in the same mode name the key (a stable,
        minimal discriminating feature, so that one root cause does not fan out over unrelated argument kinds)."""
        k0, w0 = rec.violations[before]
        mode = k0.split('|')[1]
        fresh = lambda: build(M, reverse=bool(fl))
        raw = step[0] == 'raw'
        simple = list(step[:5] if raw else step[:4])

        def run(trial):
            r = _Rec()
            if raw: self.do_raw(fresh(), M, trial, r, ctx)
            else: self.do_step(fresh(), M, trial, fl, r, ctx, exempt)
            return r.violations[0][0] if r.violations and r.violations[0][0].split('|')[1] == mode else None

        if raw:
            cands = [{3: None}, {3: 'environment_id'} if step[3] else {3: None}, {2: 'learner_id'}, {1: 'index' if step[1] == 'index' else 'environment_id'}, {4: None}]
        else:
            cands = [{2: None, 3: None}, {1: None}, {2: 'learner_id'}, {3: 'environment_id'}]
        key = None
        for c in cands:
            trial = list(simple)
            for pos, v in c.items(): trial[pos] = v
            if trial == simple: continue
            if not raw and len(c) == 1 and any(pos in (2, 3) and simple[pos] is None for pos in c): continue      # never turns an omitted l / p into a given one
            k = run(trial)
            if k: simple, key = trial, k
        if key: rec.violations[before:] = [(key, w0)]

    def step_checked(self, cur, M, step, fl, rec, ctx, exempt=None):
        """do_step / do_raw plus root-cause classification of a failure (re-runs variants of the step on fresh Results
        with the same content; only ever executed for failing steps, and a deterministic function of (content, step))."""
        before = len(rec.violations)
        fresh = lambda: build(M, reverse=bool(fl))
        if step[0] == 'raw':
            self.do_raw(cur, M, step, rec, ctx)
            if len(rec.violations) > before and step[3]:
                # raw_learners(p=...) first reduces the Result with where_fin: if that reduction alone is wrong, report it
                r4 = _Rec()
                self.step_checked(fresh(), M, ['fin', 'min' if step[1] == 'index' else None, step[2], step[3]], fl, r4, '')
                if r4.violations:
                    k0, w0 = rec.violations[before]
                    rec.violations[before:] = [(r4.violations[0][0], r4.violations[0][1] + f'  [seen through {w0[:160]}]')]
                    return None, None
            if len(rec.violations) > before: self.simplify_key(M, fl, step, rec, before, ctx)
            return None, None
        out, newM = self.do_step(cur, M, step, fl, rec, ctx, exempt)
        if len(rec.violations) == before or step[0] != 'fin': return out, newM
        k0, w0 = rec.violations[before]
        mode = k0.split('|')[1]
        if bool(step[2]) != bool(step[3]):
            # only one of l / p given: compare with the same call with the documented default spelled out.  A different
            # outcome (whatever the failure mode) is "the omitted argument does not default": one key per omitted argument;
            # the same outcome means the spelled-out call is wrong in the same way and names the key.
            expl = [step[0], step[1], step[2] or 'learner_id', step[3] or 'environment_id'] + list(step[4:])
            if self.fin_sig(M, fl, step) != self.fin_sig(M, fl, expl):
                rec.violations[before:] = [(f'where_fin|omitted argument does not default to learner_id / environment_id|only {"l" if step[2] else "p"} given{ctx}',
                                            f'{w0}  [{mode}; differs from the same call with l={expl[2]!r}, p={expl[3]!r} spelled out]')]
                return out, newM
            r3 = _Rec()
            self.step_checked(fresh(), M, expl, fl, r3, ctx)
            if r3.violations:
                rec.violations[before:] = [(r3.violations[0][0], w0)]
                return out, newM
        self.simplify_key(M, fl, step, rec, before, ctx, exempt)
        return out, newM

    # -------------------------------------------------------------- one operation (list of steps) on a fresh Result
    def run_op(self, rd, op, rec):
        fl = rd.get('fl', 0)
        M0 = describe(rd)
        res = build(M0, reverse=bool(fl))
        try:
            snap0 = readback(res)
        except Unreadable as e:
            rec.violation('Result|constructed Result unreadable|constructor', str(e)); return
        if sorted(snap0[3]) != M0.rows():
            rec.violation('Result|constructor altered the interaction rows|constructor', f'{sorted(snap0[3])} vs {M0.rows()}'); return
        cur, M = res, M0
        done = []
        exempt = unreferenced(M0)      # parameter rows the caller's Result never used; everything else must stay referenced along the chain
        for step in op:
            ctx = '' if not done else ' after ' + '+'.join(done)
            before = len(rec.violations)
            out, newM = self.step_checked(cur, M, step, fl, rec, ctx, exempt)
            if len(rec.violations) > before and done:
                # does the same step fail on a freshly constructed Result with the same content?  then it is not a chain effect
                r2 = _Rec()
                self.step_checked(build(M, reverse=bool(fl)), M, step, fl, r2, '')
                if r2.violations: rec.violations[before:] = r2.violations
            if out is None: break
            cur, M = out, newM
            if step[0] == 'best': exempt = unreferenced(M)      # the output of where_best is taken as it is
            done.append({'fin': 'where_fin', 'best': 'where_best', 'where2': 'where[2 keywords]', 'wherer': 'where[interaction column]', 'wherei': 'where[interaction column]'}.get(step[0], step[0]))
        try:
            snap1 = readback(res)
        except Unreadable as e:
            snap1 = str(e)
        if snap1 != snap0:
            rec.violation(f'{ {"fin": "where_fin", "best": "where_best", "raw": "raw_learners", "where2": "where", "wherer": "where", "wherei": "where"}.get(op[0][0], op[0][0]) }|the original Result was modified|{len(op)} step(s)',
                          f'{op}: tables before {snap0}, after {snap1}')

    def run_case(self, case, acc):
        if 'ma' in case:
            self.run_ma(case['ma'], acc, case.get('only'))
            return
        rd = case['r']
        ops = [case['op']] if 'op' in case else OPS[case['ops']]
        nontrivial = False
        for op in ops:
            rec = _Rec()
            self.run_op(rd, op, rec)
            acc.count('ops_' + '+'.join(s[0] for s in op))
            for key, what in rec.violations:
                acc.violation(key, what, {'r': rd, 'op': op})
            for o in rec.outcomes: acc.outcome(o)
            if rec.nontrivial:
                nontrivial = True; acc.count('ops_nontrivial')
        if nontrivial: acc.mark_nontrivial()

    # -------------------------------------------------------------- witness minimisation
    def minimise(self, key, witness):
        if 'r' not in witness or 'op' not in witness: return witness
        from vf.core import Acc

        def fails(w):
            a = Acc(0); a._cur = (0, w)
            try:
                self.run_case(w, a)
            except Exception:   # noqa
                return False
            return key in a.violations

        cur = witness
        if not fails(cur): return witness
        changed = True
        while changed:
            changed = False
            lens = cur['r']['lens']
            for i in range(len(lens)):
                for smaller in (0, 1):
                    if lens[i] > smaller:
                        t = dict(cur, r=dict(cur['r'], lens=lens[:i] + [smaller] + lens[i + 1:]))
                        if any(t['r']['lens']) and fails(t):
                            cur = t; lens = cur['r']['lens']; changed = True; break
        return cur


CHECK = C18()
