from vf.engines import sched; sched.install()
"""C03 - each evaluation is isolated from every other evaluation (ENUM engine; in-process configuration).

Every case is an experiment description plus a set of injected faults.  The REAL `Experiment.run(processes=1)` is
executed on fresh components (vf/lib/c03_parts.py: 2 environments with different data, 2 history-revealing
learners, SequentialCB and a scripted generator evaluator) and compared with the reference the statement names:
the rows of the same triple evaluated ALONE with a pristine learner (one real single-triple run per triple).

Oracle per case
  * a triple inside whose evaluation a fault position is reached has no rows, and the log has an entry with the
    exception's text;
  * every other triple has exactly the rows of its alone-run (matched by what the rows say about their
    environment / learner / evaluator; ids ignored; row order between triples ignored);
  * a learner object listed in more than one triple is untouched (never asked to predict / learn) after run();
  * no rows exist for a triple that was not given; run() does not raise.
Nothing is sampled.
"""
import os, json, pickle, struct, itertools, traceback

from vf.core import Check, REPO, HarnessError

from coba.context import CobaContext, BasicLogger, NullLogger, MemoryCacher
from coba.pipes import ListSink
from coba.experiments import Experiment

from vf.lib import c03_parts as P

CobaContext.search_paths = []
CobaContext.cacher = MemoryCacher()
CobaContext.logger = NullLogger()

ALL8 = [(e, l, v) for e in (0, 1) for l in (0, 1) for v in (0, 1)]
ID_COLS = ('environment_id', 'learner_id', 'evaluator_id')
EVAL_FAULTS = ('env.read', 'predict', 'learn', 'evaluate')
PARAM_FAULTS = ('env.params', 'lrn.params', 'val.params')


# ------------------------------------------------------------------ descriptors

def triples_of(case):
    if case['form'] == 'cross':
        as_list = lambda s: [s] if isinstance(s, int) else list(s)
        return [tuple(t) for t in itertools.product(as_list(case['envs']), as_list(case['lrns']), as_list(case['vals']))]
    return [tuple(t) for t in case['triples']]


def faults_for(triples, ks, with_eval=True, fin=False):
    """Every distinct single fault that can be designated on one of the triples (simplest first)."""
    out = {}
    for t in triples:
        for at in P.FAULT_KINDS:
            if at in ('val.params', 'evaluate') and not with_eval: continue
            if at == 'lrn.finish' and not fin: continue
            for k in (ks if at in ('env.read', 'predict', 'learn') else (0,)):
                f = {'at': at, 'k': k, 'on': list(t)}
                out.setdefault(P.fault_text(f), f)
    return list(out.values())


def reachable(f, t, case=None):
    """Reference: is the position of fault f reached inside the evaluation of triple t (run on pristine components)?"""
    e, l, v = t
    fe, fl, fv = f['on']
    at, k = f['at'], f.get('k', 0)
    long = bool(case and case.get('long'))
    if at == 'env.read': return fe == e and k < P.n_items(e, long)
    if at in ('predict', 'learn'): return fe == e and fl == l and k < P.n_calls(at, e, v, long)
    if at == 'evaluate': return (fe, fl, fv) == (e, l, v)
    return False


def touches(f, t):
    """A params fault sits on a component of t."""
    at = f['at']
    return (at == 'env.params' and f['on'][0] == t[0]) or (at == 'lrn.params' and f['on'][1] == t[1]) or \
           (at == 'val.params' and f['on'][2] == t[2])


def cleanup(f, t):
    """A finish() fault sits on the learner of t for the environment of t (it fires only if coba calls finish on that copy)."""
    return f['at'] == 'lrn.finish' and f['on'][0] == t[0] and f['on'][1] == t[1]


def build(case):
    E, L, V = P.build_components(case.get('faults') or (), case.get('chunk'), bool(case.get('fin')), bool(case.get('long')), tuple(case.get('batch') or ()))
    form = case['form']
    if form == 'triples':
        exp = Experiment([(E[e], L[l], V[v]) for e, l, v in case['triples']])
    elif form == 'pairs':                 # (environment, learner) tuples: coba supplies a default SequentialCB() per tuple
        exp = Experiment([(E[e], L[l]) for e, l, _ in case['triples']])
    elif form == 'cross':
        pick = lambda pool, sel: pool[sel] if isinstance(sel, int) else [pool[i] for i in sel]
        exp = Experiment(pick(E, case['envs']), pick(L, case['lrns']), pick(V, case['vals']))
    else:
        raise ValueError(form)
    return exp, (E, L, V)


# ------------------------------------------------------------------ one real run

_COBA_DIR = os.path.join(REPO, 'coba') + os.sep


def where_raised(e):
    name = '?'
    for fs in traceback.extract_tb(e.__traceback__):
        if os.path.realpath(fs.filename).startswith(_COBA_DIR): name = fs.name
    return name


def is_none(x): return x is None or type(x).__name__ == 'MissingType'


def execute(case):
    """Run the case's experiment on fresh components.
    -> {'exc': (name, where, repr)} | {'rows': {identity: [row,...]}, 'log': [str], 'trained': [learner index,...]}"""
    log = []
    CobaContext.logger = BasicLogger(ListSink(log))
    CobaContext.cacher = MemoryCacher()
    CobaContext.learning_info.clear()
    try:
        exp, (E, L, V) = build(case)
        res = exp.run(processes=1, maxchunksperchild=0, maxtasksperchunk=case.get('mt', 0), quiet=bool(case.get('quiet')))
        t = res.interactions
        cols = tuple(t.columns)
        data = [list(t[c]) for c in cols]
    except Exception as ex:      # noqa - classified by the caller
        return {'exc': (type(ex).__name__, where_raised(ex), repr(ex)[:300]), 'log': [str(m) for m in log]}
    finally:
        CobaContext.logger = NullLogger()
        CobaContext.learning_info.clear()
    rows = {}
    for vals in zip(*data):
        r = {c: x for c, x in zip(cols, vals) if c not in ID_COLS and not is_none(x)}
        ident = (r.get('env'), r.get('lrn'), r.get('val', 'V0'))
        rows.setdefault(ident, []).append(r)
    return {'rows': rows, 'log': [str(m) for m in log], 'trained': [i for i, l in enumerate(L) if l.hist or l.calls],
            'finished': [i for i, l in enumerate(L) if l.finished]}


def ident_of(t): return (f'E{t[0]}', t[1], f'V{t[2]}')


def same_rows(a, b):
    if len(a) != len(b): return False
    for x, y in zip(a, b):
        if x.keys() != y.keys(): return False
        for k in x:
            if type(x[k]) is not type(y[k]) or x[k] != y[k]: return False
    return True


def kind_name(f): return f['at']


# ------------------------------------------------------------------ the oracle for one case

def findings(case, alone):
    """All deviations of one real run of `case` from the statement: list of (mode, base_feature, what).
    `alone(case, t)` gives the rows of triple t run alone, unfaulted, with a pristine learner."""
    trip = triples_of(case)
    faults = case.get('faults') or []
    form = case['form']
    out = []
    ex = execute(case)
    info = {'statuses': [], 'nfault_entries': 0, 'reached': 0, 'finish': (0, 0)}
    if 'exc' in ex:
        name, where, text = ex['exc']
        out.append((f'raises {name}@{where}', '', f'Experiment(...).run() raised {text}'))
        return out, info
    rows, log = ex['rows'], ex['log']
    lcount = {}
    for t in trip: lcount[t[1]] = lcount.get(t[1], 0) + 1
    share = lambda t: 'learner listed in several triples' if lcount[t[1]] > 1 else 'learner listed once'

    given = {ident_of(t) for t in trip}
    for ident in rows:
        if ident not in given:
            out.append(('rows for a triple that was not given', '', f'{len(rows[ident])} rows identify themselves as {ident}; given triples {sorted(given)}'))

    failing = []
    for t in trip:
        hit = [f for f in faults if reachable(f, t, case)]
        got = rows.get(ident_of(t), [])
        if hit:
            failing.append((t, hit))
            info['statuses'].append(('F', len(got)))
            if got:
                out.append(('failing triple has rows', 'fault at ' + '+'.join(sorted({kind_name(f) for f in hit})),
                            f'triple {t}: {P.fault_text(hit[0])} is raised inside its evaluation, yet {len(got)} rows were recorded: {got[:2]}'))
            continue
        ref = alone(case, t)
        par = [f for f in faults if touches(f, t) or cleanup(f, t)]
        info['statuses'].append(('C' if any(cleanup(f, t) for f in par) else 'P' if par else 'H', len(got)))
        if ref is None: continue                          # the alone-run itself is broken: reported by the single-triple case
        if not got:
            if par: continue                              # not demanded: rows of a triple one of whose params tasks / whose clean-up failed
            out.append(('non-failing triple has no rows', '', f'triple {t} has no rows; alone it yields {len(ref)} rows'))
        elif not same_rows(got, ref):
            i = next((i for i, (x, y) in enumerate(zip(got, ref)) if not same_rows([x], [y])), min(len(got), len(ref)))
            out.append(('rows differ from the triple run alone', share(t),
                        f'triple {t}: {len(got)} rows vs {len(ref)} alone; first difference at row {i}: '
                        f'{got[i] if i < len(got) else None} vs alone {ref[i] if i < len(ref) else None}'))

    # the log reports every exception raised inside an evaluation
    eval_texts = {P.fault_text(f) for f in faults if f['at'] in EVAL_FAULTS}
    entries = [m for m in log if any(x in m for x in eval_texts)]
    info['nfault_entries'] = len(entries)
    info['reached'] = len(failing)
    for t, hit in failing:
        if not any(P.fault_text(f) in m for f in hit for m in log):
            out.append(('exception not reported in the log', 'fault at ' + '+'.join(sorted({kind_name(f) for f in hit})),
                        f'triple {t}: no log entry contains {[P.fault_text(f) for f in hit]}'))
    if len(entries) < len(failing) and not any(m[0] == 'exception not reported in the log' for m in out):
        out.append(('exception not reported in the log', 'fewer log entries than failing evaluations',
                    f'{len(failing)} evaluations fail but only {len(entries)} log entries carry a fault text'))

    # every exception raised by a clean-up call (finish) that coba made is reported too
    marks = [m for m in log if P.FINISH_MARK in m]
    raising = [m for m in marks if 'raises>' in m]
    fin_texts = {P.fault_text(f) for f in faults if f['at'] == 'lrn.finish'} | {P.FINISH_BROKEN}
    fin_entries = [m for m in log if P.FINISH_MARK not in m and any(x in m for x in fin_texts)]
    info['finish'] = (len(marks) - len(raising), len(raising))
    if len(fin_entries) < len(raising):
        out.append(('exception not reported in the log', 'raised by finish()',
                    f'{len(raising)} finish() calls raised but only {len(fin_entries)} log entries carry their text; calls: {raising}'))

    for l in ex['trained']:
        if lcount.get(l, 0) > 1:
            out.append(('learner listed in several triples was trained by run()', '', f'learner L{l} is listed in {lcount[l]} triples and was asked to predict/learn on the caller\'s object'))
    for l in ex['finished']:
        if lcount.get(l, 0) > 1:
            out.append(('learner listed in several triples was finished by run()', '', f'learner L{l} is listed in {lcount[l]} triples and finish() was called on the caller\'s object'))
    return out, info


# ------------------------------------------------------------------ pristine interpreter state

def alone_case(case, t):
    """The descriptor of triple t run alone: same tuple style, same kind of environment / learner objects, no fault."""
    chunk = case.get('chunk')
    return {'form': 'pairs' if case['form'] == 'pairs' else 'triples',
            'chunk': 'per-env' if chunk in ('per-env', 'shared') else chunk, 'fin': bool(case.get('fin')), 'long': bool(case.get('long')),
            'batch': [t[0]] if t[0] in (case.get('batch') or ()) else [], 'triples': [list(t)], 'faults': []}


def alone_rows(ex, t):
    rows = None if 'exc' in ex else ex['rows'].get(ident_of(t)) if set(ex['rows']) <= {ident_of(t)} else None
    return rows or None


def _job_findings(case, refs, after=()):
    """Runs in a process that has evaluated nothing yet: (optionally some earlier experiments, then) the case."""
    for h in after: execute(h)
    return findings(case, lambda c, t: refs.get(json.dumps(alone_case(c, t), sort_keys=True)))


JOBS = {'execute': execute, 'findings': _job_findings}


class Zygote:
    """A child process forked before this process has run any experiment.  It never runs one itself: for every request it
    forks a grandchild that does the work in that pristine interpreter state (no class-level / module-level state left
    behind by earlier experiments) and sends the result back."""

    def __init__(self):
        req_r, req_w = os.pipe(); res_r, res_w = os.pipe()
        pid = os.fork()
        if pid == 0:
            code = 0
            try:
                os.close(req_w); os.close(res_r)
                self._serve(os.fdopen(req_r, 'rb'), res_w)
            except BaseException:      # noqa
                code = 3
            finally:
                os._exit(code)         # no atexit handlers of the harness in this copy
        os.close(req_r); os.close(res_w)
        self.pid, self._w, self._r = pid, os.fdopen(req_w, 'wb'), os.fdopen(res_r, 'rb')

    @staticmethod
    def _send(fd, obj):
        data = pickle.dumps(obj)
        data = struct.pack('<Q', len(data)) + data
        while data: data = data[os.write(fd, data):]

    def _serve(self, rf, res_w):
        import signal
        signal.signal(signal.SIGALRM, signal.SIG_DFL)
        while True:
            try: name, args = pickle.load(rf)
            except EOFError: return
            pid = os.fork()
            if pid == 0:
                code = 0
                try:
                    try: out = ('ok', JOBS[name](*args))
                    except BaseException as e:      # noqa
                        out = ('err', ''.join(traceback.format_exception(type(e), e, e.__traceback__))[-3000:])
                    self._send(res_w, out)
                except BaseException:      # noqa
                    code = 4
                finally:
                    os._exit(code)
            _, status = os.waitpid(pid, 0)
            if status != 0: self._send(res_w, ('err', f'worker process of the zygote ended with status {status}'))

    def call(self, name, *args):
        pickle.dump((name, args), self._w); self._w.flush()
        head = self._r.read(8)
        if len(head) < 8: raise HarnessError('the zygote process died')
        kind, val = pickle.loads(self._r.read(struct.unpack('<Q', head)[0]))
        if kind != 'ok': raise HarnessError('job in the pristine process failed:\n' + val)
        return val

    def close(self):
        try: self._w.close(); self._r.close()
        except Exception: pass      # noqa
        try: os.waitpid(self.pid, 0)
        except Exception: pass      # noqa


# ------------------------------------------------------------------ the check

class C03(Check):
    ID = 'C03'
    LEVEL = 'exploration'
    ENGINE = 'ENUM'
    RULE = ('cases = (experiment, environment wrapping, fault set), exhaustively, simplest first: every ordered list of distinct (environment, '
            'learner, evaluator) triples of length <=3 (thorough <=4) over 2 environments x 2 history-revealing learners x 2 evaluators as an '
            'explicit tuple list (lists <=2 also with quiet=True); every cross-product constructor call over ordered non-empty selections (lists or '
            'single objects) of the same components; (environment, learner) 2-tuple lists; each with bare environments and with both environments '
            'piped into one Chunk object so that all their tasks are processed in one chunk (thorough also: one Chunk per environment, and the shared '
            'chunk split by maxtasksperchunk=2); each with plain learners and with learners that have a finish() clean-up hook (succeeds after a '
            'complete evaluation, raises on a learner whose evaluation was cut short); each x {no fault} + every distinct single fault designated '
            'on one of its triples (raise at env.params, item k of env.read, learner.params, k-th predict, k-th learn, evaluator.params, '
            'evaluator.evaluate, learner.finish; k in 0..1, thorough 0..2); thorough adds every unordered pair of distinct faults for lists of '
            'length <=3 (bare + plain learners, shared chunk + finish hook). Family B: lists <=2 (thorough <=3) with E1 / E0 (thorough: / both) piped into '
            'Batch(2) (one learner class, which takes single interactions only, on batched and unbatched environments) x every single fault. Family C: '
            'lists <=2 (thorough <=3) with the environments piped into Cache(25) / Chunk+Cache(25) x every single fault, and with a 32-interaction E0 '
            '(bare / Cache / Chunk+Cache) x read faults at items 0,1,24,25,26,30 (before / inside / after the first cache slice), predict faults at '
            'calls 0,26, learn fault at call 26. '
            'A case is non-trivial when it has >=2 triples and (a learner object is listed in several triples or a fault position is '
            'reached inside an evaluation)')
    ASSUMPTIONS = [
        'in-process configuration only (processes=1, maxchunksperchild=0, maxtasksperchunk in {0,2}); no result file',
        'reference = the real single-triple experiment run alone on fresh components with the same kind of environment object, IN A PROCESS THAT HAS '
        'EVALUATED NOTHING ELSE (forked from a zygote that was forked before the worker ran its first experiment), so state kept on classes / modules '
        'cannot leak into the reference (a differential oracle, as the statement words it); which triples must fail is decided by a plain model of the components (fault position < number of '
        'reads / predict / learn calls the evaluator makes)',
        'rows are attributed to triples by their content (the environment tags its interactions, the learner writes its tag to learning_info, '
        'the scripted evaluator tags its rows); environment_id / learner_id / evaluator_id are ignored; the order of rows of different triples is ignored',
        'absent cells (None / Missing) are ignored when rows are compared (a multi-triple table has the union of the columns)',
        'a triple one of whose components raises in *params* (not inside an evaluation) may have its rows or not; if it has rows they must be the alone-run rows; '
        'the log is not required to mention params exceptions (SafeEvaluator.params swallows them by design)',
        'an exception at the first item of env.read is swallowed by the environment-parameter task (documented peek); only the evaluation tasks must report it',
        'one log entry carrying the exception text is demanded per failing evaluation; with two faults on one triple either text is accepted (the first exception pre-empts the second)',
        'a learner listed in exactly ONE triple may be trained in place (the statement only speaks of learners listed several times)',
        'clean-up hook: whether, when and how often coba calls finish() on its copies is NOT constrained (calls are counted in the outcome signature only); '
        'demanded: finish() is never called on the caller\'s object of a learner listed in several triples; an exception raised by a finish() call that coba made '
        'has a log entry; it may remove the rows of the triple that copy belonged to (if rows are there they must be the alone-run rows) and of no other triple',
        'the learners publish what they were taught through CobaContext.learning_info (coba\'s documented channel for per-interaction learner output); '
        'the scripted evaluator neither reads nor clears it',
        'lists with the same triple twice, learners with custom __eq__/__hash__, stateful evaluators / environments other than coba\'s own Cache filter are outside the alphabet',
        'every case runs in its worker process after all the cases that worker ran before (so state left behind by earlier experiments is exercised too); a case that '
        'violates there is re-examined and minimised in pristine processes; if it does not violate in a pristine process it is reported under the key feature '
        '"only after other experiments have run in the same process" with a witness {after: [one earlier experiment], case} found among canonical single-triple experiments '
        'and the worker\'s recent history (the statement speaks of one experiment; this is the same isolation defect class, state surviving on classes / modules)',
        'a violating case is attributed to its simplest still-violating variant (faults dropped, wrapping / batching / length / form / quiet simplified, undesignated triples dropped) '
        'and keyed by what that variant still needs',
    ]
    TECHNIQUE = ('bounded-exhaustive enumeration of triple lists / constructor forms x environment wrappings x fault positions on the real '
                 'Experiment.run, compared per triple with the real single-triple run on pristine components')
    LEVEL_TEXT = ('Every ordered list of <=3 (thorough <=4) distinct triples over 2 environments x 2 history-revealing learners x 2 evaluators '
                  '(every sharing pattern of learner / environment / evaluator objects and every order), every cross-product constructor form and '
                  '2-tuple lists, with bare and chunked environments (single-task and multi-task chunks of ProcessTasks), each without fault and with '
                  'every single fault position on every designated triple (thorough: every fault pair for lists <=3), plus mixed batched / unbatched '
                  'environments and environments behind coba\'s Cache with read faults before / inside / after a cache slice, is run through the real '
                  'Experiment.run in-process and compared triple by triple with the triple run alone in a pristine process.')
    LEVEL_NOTE = ('small-scope: <=4 triples (8 in cross-product form), environments of 2-3 (one family: 32) interactions, faults at call positions 0..2 (32-interaction family: 0,1,24,25,26,30), at most two faults; '
                  'in-process configuration only (multi-process configurations are added through the SCHED engine by the orchestrator)')
    MIN_NONTRIVIAL = {'quick': 45000, 'thorough': 850000}
    CASE_TIMEOUT = 60

    # ---------------------------------------------------------------- enumeration

    def cases(self, tier):
        quick = tier == 'quick'
        ks = (0, 1) if quick else (0, 1, 2)
        maxlen = 3 if quick else 4
        # (chunk mode, maxtasksperchunk): bare environments; each environment piped into its own Chunk; both into one Chunk
        # object (every environment task in one ProcessTasks.filter call); the latter split into chunks of <=2 tasks
        modes = [(None, 0), ('shared', 0)] if quick else [(None, 0), ('per-env', 0), ('shared', 0), ('shared', 2)]

        def expand(base, trip, with_eval=True, modes=modes, ks=ks):
            for fin in (False, True):                 # plain learners / learners with a finish() clean-up hook
                fs = faults_for(trip, ks, with_eval, fin)
                for chunk, mt in modes:
                    b = dict(base)
                    if fin: b['fin'] = True
                    if chunk: b['chunk'] = chunk
                    if mt: b['mt'] = mt
                    yield {**b, 'faults': []}
                    for f in fs:
                        yield {**b, 'faults': [f]}

        def lists(n):
            for trip in itertools.permutations(ALL8, n):
                yield [list(t) for t in trip]

        for n in (1, 2):
            for trip in lists(n):
                yield from expand({'form': 'triples', 'triples': trip}, trip)
        # the same with quiet=True (only exceptions are logged)
        for n in (1, 2):
            for trip in lists(n):
                yield from expand({'form': 'triples', 'triples': trip, 'quiet': True}, trip, modes=modes[:1] + modes[-1:])
        # family B: one learner CLASS on batched and on unbatched environments (E0 / E1 / both piped into Batch(2))
        small = (1, 2) if quick else (1, 2, 3)
        for n in small:
            for trip in lists(n):
                for batch in ([1], [0]) if quick else ([1], [0], [0, 1]):
                    if not any(t[0] in batch for t in trip): continue
                    base = {'form': 'triples', 'triples': trip, 'batch': batch}
                    yield {**base, 'faults': []}
                    for f in faults_for(trip, ks):
                        yield {**base, 'faults': [f]}
        # family C: environments behind coba's Cache filter (Environments.cache() / .chunk()): short environments x every fault,
        # and a 32-interaction E0 (more than one 25-interaction cache slice) x read faults before / inside / after the first slice
        for n in small:
            for trip in lists(n):
                for wrap in ('cache', 'chunk+cache'):
                    base = {'form': 'triples', 'triples': trip, 'chunk': wrap}
                    yield {**base, 'faults': []}
                    for f in faults_for(trip, ks):
                        yield {**base, 'faults': [f]}
        for n in small:
            for trip in lists(n):
                if not any(t[0] == 0 for t in trip): continue
                fs = {}
                for t in trip:
                    for at, kk in (('env.read', (0, 1, 24, 25, 26, 30) if t[0] == 0 else (0, 1)), ('predict', (0, 26) if t[0] == 0 else (0,)),
                                   ('learn', (26,) if t[0] == 0 else ())):
                        for k in kk:
                            f = {'at': at, 'k': k, 'on': list(t)}
                            fs.setdefault(P.fault_text(f), f)
                for wrap in (None, 'cache', 'chunk+cache'):
                    base = {'form': 'triples', 'triples': trip, 'long': True}
                    if wrap: base['chunk'] = wrap
                    yield {**base, 'faults': []}
                    for f in fs.values():
                        yield {**base, 'faults': [f]}
        # 2-tuple lists (default evaluator supplied by coba): lists over the 4 (environment, learner) pairs
        pairs4 = [(e, l, 0) for e in (0, 1) for l in (0, 1)]
        for n in (1, 2, 3) if quick else (1, 2, 3, 4):
            for trip in itertools.permutations(pairs4, n):
                trip = [list(t) for t in trip]
                yield from expand({'form': 'pairs', 'triples': trip}, trip, with_eval=False)
        # cross-product constructor forms (lists, and single objects passed bare)
        opts = [[0], [1], [0, 1], [1, 0], 0, 1]
        for envs in opts:
            for lrns in opts:
                for vals in opts:
                    base = {'form': 'cross', 'envs': envs, 'lrns': lrns, 'vals': vals}
                    yield from expand(base, triples_of(base))
        for n in range(3, maxlen + 1):
            for trip in lists(n):
                yield from expand({'form': 'triples', 'triples': trip}, trip)
        if quick: return
        # two faults
        for n in (1, 2, 3):
            for trip in lists(n):
                for chunk, fin in ((None, False), ('shared', True)):
                    fs = faults_for(trip, (0, 1), True, fin)
                    for f, g in itertools.combinations(fs, 2):
                        c = {'form': 'triples', 'triples': trip, 'faults': [f, g]}
                        if fin: c['fin'] = True
                        if chunk: c['chunk'] = chunk
                        yield c

    # ---------------------------------------------------------------- execution

    def setup(self, tier):
        self.teardown()
        self._zy = Zygote()             # forked BEFORE this process runs its first experiment
        self._alone = {}                # descriptor of an alone-run -> its rows (computed in pristine processes)
        self._memo = {}
        self._explained = set()
        self._history = []

    def teardown(self):
        zy = getattr(self, '_zy', None)
        if zy is not None: zy.close()
        self._zy = None

    def _ensure(self):
        if getattr(self, '_zy', None) is None: self.setup('quick')

    def alone(self, case, t):
        """Rows of triple t run alone in a process that has evaluated nothing else (same tuple style, same kind of environment
        and learner objects, no fault, fresh components); None when that run is unusable."""
        self._ensure()
        ac = alone_case(case, t)
        key = json.dumps(ac, sort_keys=True)
        if key not in self._alone:
            self._alone[key] = alone_rows(self._zy.call('execute', ac), tuple(t))
        return self._alone[key]

    def pristine(self, case, after=()):
        """findings(case) computed in a process that has run nothing before (but `after`)."""
        self._ensure()
        for t in triples_of(case): self.alone(case, t)
        return self._zy.call('findings', case, self._alone, list(after))

    def simpler(self, case):
        """Variants of a case with one dimension set to something simpler (used to attribute a violation to its
        simplest form, so that one root cause gets one key whatever other ingredients the violating case had)."""
        faults = case.get('faults') or []
        drop = lambda *ks: {k: v for k, v in case.items() if k not in ks}
        if len(faults) == 2:
            yield {**case, 'faults': [faults[0]]}
            yield {**case, 'faults': [faults[1]]}
        if len(faults) == 1: yield {**case, 'faults': []}
        if case.get('fin') and not any(f['at'] == 'lrn.finish' for f in faults): yield drop('fin')
        if case.get('mt'): yield drop('mt')
        if case.get('batch'):
            yield drop('batch')
            if len(case['batch']) > 1:
                for e in case['batch']: yield {**case, 'batch': [e]}
        if case.get('chunk'):
            yield drop('chunk', 'mt')
            if case['chunk'] == 'shared' and not case.get('mt'): yield {**case, 'chunk': 'per-env'}
            if case['chunk'] == 'chunk+cache':
                yield {**case, 'chunk': 'cache'}
                yield {**case, 'chunk': 'per-env'}
        if case.get('long'):                          # the short environment, fault positions clamped into it
            yield {**drop('long'), 'faults': [{**f, 'k': min(f.get('k', 0), 1)} for f in faults]}
        if case.get('quiet'): yield drop('quiet')
        if case['form'] != 'triples':
            c = drop('envs', 'lrns', 'vals')
            yield {**c, 'form': 'triples', 'triples': [list(t) for t in triples_of(case)]}
        trip = triples_of(case)
        if case['form'] != 'cross' and len(trip) > 1:
            on = [tuple(f['on']) for f in faults]
            for i in reversed(range(len(trip))):
                if trip[i] in on: continue
                c = {**case, 'triples': [list(t) for j, t in enumerate(trip) if j != i]}
                if c.get('batch'):
                    c['batch'] = [e for e in c['batch'] if any(t[0] == e for t in c['triples'])]
                    if not c['batch']: del c['batch']
                yield c

    @staticmethod
    def needs(case):
        trip = triples_of(case)
        faults = case.get('faults') or []
        needs = []
        if faults:
            failing = any(reachable(f, t, case) for f in faults for t in trip)
            needs.append('an evaluation fails' if failing else 'a params property raises' if any(f['at'] in PARAM_FAULTS for f in faults)
                         else 'finish() raises' if any(f['at'] == 'lrn.finish' for f in faults) else 'an unreached fault is armed')
        if case.get('fin'): needs.append('learner with a finish() hook')
        if case.get('chunk'): needs.append({'per-env': 'environments piped into a Chunk', 'shared': 'environments piped into a Chunk',
                                            'cache': 'environments piped into a Cache', 'chunk+cache': 'environments piped into Chunk and Cache'}[case['chunk']])
        if case.get('batch'): needs.append('a batched environment')
        if case.get('long'): needs.append('a 32-interaction environment')
        if case.get('mt'): needs.append('maxtasksperchunk>0')
        if case.get('quiet'): needs.append('quiet=True')
        if case['form'] != 'triples': needs.append(f"{case['form']} constructor form")
        return needs

    def single_alone(self, case, found):
        trip = triples_of(case)
        if len(trip) == 1 and not (case.get('faults') or []) and self.alone(case, trip[0]) is None:
            found.append(('single triple run alone yields no usable rows', '', f'triple {trip[0]} run alone without faults gives no rows (or raises)'))

    def examine(self, case, acc, depth=0):
        """Findings of a case IN A PRISTINE PROCESS, attributed to the simplest variant that still violates.  -> violates?"""
        key = json.dumps(case, sort_keys=True)
        if key in self._memo: return self._memo[key]
        found, _ = self.pristine(case)
        self.single_alone(case, found)
        self._memo[key] = bool(found)
        if not found: return False
        if depth < 14:
            for v in self.simpler(case):
                if self.examine(v, acc, depth + 1): return True
        needs = self.needs(case)
        for mode, feat, what in found:
            parts = ([feat] if feat else []) + [n for n in needs if not (feat.startswith('fault at') and n == 'an evaluation fails')]
            acc.violation(f"Experiment.run|{mode}|{'; '.join(parts) or 'any experiment'}", what, witness=case)
        return True

    def contaminated(self, case, found, acc):
        """The case violates in this process but not in a pristine one: something left behind by the experiments this process ran
        earlier (state on classes / modules survives fresh objects and deepcopy).  Look for ONE earlier experiment that suffices."""
        modes = sorted({m for m, _, _ in found})
        keys = [f"Experiment.run|{m}|only after other experiments have run in the same process" for m in modes]
        if all(k in self._explained for k in keys): return
        self._explained.update(keys)
        cands = []                                  # canonical single-triple experiments first (a deterministic witness), then recent history
        for fin in (False, True):
            for batch in ([], [0, 1]):
                for t in ALL8:
                    cands.append({'form': 'triples', 'triples': [list(t)], 'faults': [], 'fin': fin, 'batch': batch})
        cands += list(reversed(self._history[-12:]))
        after = None
        for h in cands:
            if self.pristine(case, [h])[0]:
                after = [h]; break
        what = found[0][2] + (f' [in a process that ran {after[0]} before]' if after else ' [after the experiments this worker had run before; no single one of the candidates suffices]')
        for k in keys:
            acc.violation(k, what, witness={'after': after, 'case': case} if after else {'after': None, 'case': case})

    def run_case(self, case, acc):
        self._ensure()
        if not hasattr(self, '_history'): self._history = []
        trip = triples_of(case)
        found, info = findings(case, self.alone)          # in THIS process, after everything it has run so far
        self.single_alone(case, found)
        violated = bool(found)
        if found:
            if not self.examine(case, acc):
                self.contaminated(case, found, acc)
        self._history.append(case)
        if len(self._history) > 64: del self._history[:32]
        sig = (tuple(info['statuses']), info['nfault_entries'], info['finish'])
        acc.count('experiment_runs')
        acc.count('triples_checked', len(trip))
        lcount = {}
        for t in trip: lcount[t[1]] = lcount.get(t[1], 0) + 1
        reached = sum(1 for t in trip if any(reachable(f, t, case) for f in case.get('faults') or []))
        acc.count('failing_evaluations', reached)
        if len(trip) >= 2 and (max(lcount.values()) > 1 or reached > 0): acc.mark_nontrivial()
        if violated: acc.count('violating_cases')
        acc.outcome((sig, violated))

    def replay(self, witness, acc):
        if isinstance(witness, dict) and 'after' in witness:
            self._ensure()
            case, after = witness['case'], witness['after'] or []
            found, _ = self.pristine(case, after)
            if found and not self.pristine(case)[0]:
                for m in sorted({m for m, _, _ in found}):
                    acc.violation(f"Experiment.run|{m}|only after other experiments have run in the same process", found[0][2], witness=witness)
            return
        return self.run_case(witness, acc)


CHECK = C03()
