"""C08 - Multiprocessor.filter / CobaMultiprocessor.filter: exactly-once delivery, termination, maxtasksperchild.

SCHED engine: the REAL coba code (loader thread, worker ProcessLines, completion callbacks, consumer) runs on the
simulated spawn context under the controlled scheduler; for every configuration all schedules within the deviation
bound are executed and each complete execution is checked.  Selected configurations are replayed on the real OS
primitives (real spawn) and their observation must be one the exploration produced (conformance of the model layer).
"""
import os, sys, json, itertools, subprocess, collections

from vf.engines import sched
sched.install()

from vf.core import Check, HarnessError, jsonable, VERIF, REPO   # noqa: E402
from vf.lib import cobaenv                                        # noqa: E402
import coba                                                       # noqa: E402
cobaenv.register()
from coba.pipes import Multiprocessor, ListSink                   # noqa: E402
from coba.multiprocessing import CobaMultiprocessor               # noqa: E402
from coba.context import CobaContext, BasicLogger, NullCacher, MemoryCacher   # noqa: E402
from vf.lib.mpharness import TenTimes, TenTimesGen, InjectedError, EXC_KINDS, FALSY, aliased              # noqa: E402


# the two completion callbacks run on callback threads of the parent and update shared counters (_n_procs, _exceptions):
# every source line inside them is a scheduling point
sched.trace_lines(sched.nested_code(Multiprocessor.filter, 'loader_finished_or_failed', 'filter_finished_or_failed'), 'parent-callbacks')


def items_of(case):
    if case.get('itemkind') == 'falsy':
        rot = case.get('rot', 0)
        return (FALSY[rot:] + FALSY[:rot])[:case['items']]
    off = case.get('offset', 0)
    return list(range(off + 1, off + case['items'] + 1))


def make_body(case):
    wrapper, n, m, nitems, faults, consumer = case['wrapper'], case['n'], case['m'], case['items'], case['faults'], case['consumer']
    items = items_of(case)
    first = case.get('first')
    if first: faults = list(faults) + list(first['faults'])
    def body():
        if wrapper == 'coba':
            mp = CobaMultiprocessor(TenTimesGen(faults, case.get('exc', 'custom'), case.get('fan', 'one')), n, m)
        else:
            mp = Multiprocessor(TenTimes(faults, case.get('exc', 'custom'), case.get('fan', 'one')), n, m)
        outs = []
        if first:      # the SAME multiprocessor object was used before, on another stream (which may have failed)
            try: list(mp.filter(list(range(1, first['items'] + 1))))
            except BaseException as e:      # noqa
                if isinstance(e, sched.Abort): raise
        g = mp.filter(aliased(nitems, case.get('offset', 0)) if case.get('itemkind') == 'aliased' else items)
        try:
            if consumer == 'all':
                for o in g: outs.append(o)
            else:
                it = iter(g)
                for _ in range(consumer):
                    try: outs.append(next(it))
                    except StopIteration: break
                if hasattr(g, 'close'): g.close()
        except BaseException as e:      # noqa
            if isinstance(e, sched.Abort): raise
            return (outs, e)
        return (outs, None)
    return body


def before():
    CobaContext.logger = BasicLogger(ListSink())
    CobaContext.cacher = NullCacher()
    CobaContext.store = {}


def feature(case):
    return (f"{case['wrapper']} n{'=1' if case['n']==1 else '>1'} m{'=0' if case['m']==0 else '>0'} "
            f"{'second-use-of-the-object ' if case.get('first') else ''}{'stream-reusing-one-buffer ' if case.get('itemkind') == 'aliased' else ''}{'falsy-items ' if case.get('itemkind') == 'falsy' else ''}{'stream-longer-than-input-queue ' if case['items'] > 2 * case['n'] and case['items'] > 4 else ''}{'faults' if case['faults'] else 'nofault'}{'' if case.get('exc', 'custom') == 'custom' else ' raising ' + case['exc']}{'' if case.get('fan', 'one') == 'one' else ' outputs-per-item=' + case['fan']} consumer={'all' if case['consumer']=='all' else 'early'}")


def judge(case, ex):
    """Oracle for one complete execution: list of (mode, what)."""
    bad = []
    items = items_of(case)
    faults = set(case['faults'])
    fan = case.get('fan', 'one')
    expected = collections.Counter()
    for x in items:
        if fan == 'echo': expected.update(['echo:' + repr(x)]); continue
        if x in faults and fan == 'raise-mid': expected.update([10 * x]); continue      # the output before the failure may or may not arrive
        if x in faults: continue
        if fan == 'two': expected.update([10 * x, 10 * x + 1])
        elif fan == 'skip1' and x == 1: pass
        elif fan == 'none1' and x == 1: expected.update(['None'])
        else: expected.update([10 * x])
    mine = set(items)
    if ex.deadlock: return [('deadlock', 'no task enabled while the caller is still waiting')]
    if ex.livelock: return [('non-termination', 'scheduling-point budget exhausted')]
    kind, val = ex.result
    if kind == 'exc':
        return [('harness-body-raised', repr(val))]
    if getattr(ex, 'leftover_nondaemon', 0):
        bad.append(('non-daemon worker left blocked after the call ended (the interpreter cannot exit)', f'{ex.leftover_nondaemon} task(s)'))
    outs, exc = val
    vals = collections.Counter(('None' if o is None else o[1]) for o in outs)
    if any(c > 1 for c in vals.values()) or any(expected[v] < c for v, c in vals.items()):
        bad.append(('duplicate-or-foreign-output', f'outputs {sorted(vals.elements(), key=str)} expected sub-multiset of {sorted(expected.elements(), key=str)}'))
    if case['consumer'] == 'all':
        if not faults:
            if exc is not None: bad.append(('unexpected-exception', repr(exc)))
            elif vals != expected: bad.append(('lost-output', f'outputs {sorted(vals.elements(), key=str)} expected {sorted(expected.elements(), key=str)}'))
        else:
            reached = any(x in faults for x in items)
            if reached:
                if exc is None: bad.append(('error-swallowed', f'filter raised for {sorted(faults)} but the call returned normally with {sorted(vals.elements(), key=str)}'))
                elif case.get('exc', 'custom') == 'custom' and not (isinstance(exc, InjectedError) and exc.item in faults): bad.append(('wrong-exception', repr(exc)))
                elif case.get('exc') in ('cannot-unpickle', 'cannot-pickle', 'huge'): pass      # any error is accepted, the call only has to terminate with one
                elif case.get('exc', 'custom') != 'custom' and type(exc) is not EXC_KINDS[case['exc']]: bad.append(('wrong-exception', repr(exc)))
    else:
        if exc is not None and not isinstance(exc, (InjectedError,) + tuple(k for k in EXC_KINDS.values() if isinstance(k, type))) and case.get('exc') not in ('cannot-unpickle', 'cannot-pickle', 'huge'):
            bad.append(('early-close-raised', repr(exc)))
        want = min(case['consumer'], sum(expected.values()))
        if exc is None and not faults and sum(vals.values()) != want:
            bad.append(('lost-output', f'asked for {want} outputs before closing, got {sorted(vals.elements(), key=str)}'))
    if case['m'] > 0:
        per = collections.Counter(pid for ev, pid, x in (e for e in ex.log if e[0] == 'handled') if x in mine)
        if per and max(per.values()) > case['m'] and not (case['n'] == 1 and case['m'] == 0):
            bad.append(('maxtasksperchild-exceeded', f'a worker handled {max(per.values())} items, limit {case["m"]}'))
    # items handled twice by workers (duplicated work) even if outputs were de-duplicated
    handled = collections.Counter(x for ev, _, x in (e for e in ex.log if e[0] == 'handled') if x in mine)
    if any(c > 1 for c in handled.values()):
        bad.append(('item-processed-twice', f'handled counts {dict(handled)}'))
    return bad


def observation(case, ex):
    kind, val = ex.result if ex.result else ('none', None)
    if ex.deadlock: return 'deadlock'
    if ex.livelock: return 'livelock'
    if kind == 'exc': return 'bodyexc:' + type(val).__name__
    outs, exc = val
    return json.dumps([sorted(str(None if o is None else o[1]) for o in outs), type(exc).__name__ if exc is not None else None])


class C08(Check):
    ID = 'C08'
    LEVEL = 'model_checking'
    ENGINE = 'SCHED'
    RULE = ('configurations = wrapper{Multiprocessor,CobaMultiprocessor} x n_processes x maxtasksperchild x item count x fault set x '
            'consumer{read all, close after k}; for each configuration every schedule of the loader thread, worker processes, '
            'callback threads and consumer with <= b deviations from each default policy is executed on the real coba code; a '
            'configuration is non-trivial when worker processes were spawned and some point had >= 2 enabled tasks')
    ASSUMPTIONS = ['process layer simulated: FIFO queues with immediate visibility, pickled copies per hop, per-pid coba globals; real OS layer only replayed',
                   'scheduling points at every queue/event/pipe/lock/process operation; code between two points of one task is atomic',
                   'after an early close leftover blocked daemon tasks are counted, not judged',
                   'uncaught exceptions inside callback threads are counted, judged only through their consequences (hang, loss)']
    TECHNIQUE = 'stateless model checking of the real implementation: controlled scheduler + simulated spawn context, deviation-bounded exhaustive DFS over schedules; real-OS conformance replay'
    LEVEL_TEXT = ('For each small configuration all schedules within the deviation bound are executed on the real Multiprocessor code and every '
                  'complete execution is checked for exactly-once delivery, error propagation, termination (deadlock = no enabled task, livelock = budget) '
                  'and the maxtasksperchild limit. Concurrency bugs of this code need a specific interleaving of callbacks/workers, which only schedule enumeration reaches.')
    LEVEL_NOTE = 'bounded: <=3 processes, <=4 items, deviation bound 1 (quick) / 2 (thorough); simulated process layer validated against real spawn runs'
    MIN_NONTRIVIAL = {'quick': 20, 'thorough': 40}
    CASE_TIMEOUT = 3000

    def cases(self, tier):
        out = []
        maxitems = 3 if tier == 'quick' else 4
        for wrapper in ('mp', 'coba'):
            for n in (1, 2, 3):
                for m in (0, 1, 2):
                    for k in range(0, maxitems + 1):
                        fault_sets = [()] + [(x,) for x in range(1, k + 1)]
                        if tier == 'thorough' and k >= 2:
                            fault_sets += [c for c in itertools.combinations(range(1, k + 1), 2)]
                        for faults in fault_sets:
                            for consumer in ('all', 1, 2):
                                if consumer != 'all' and (k < 2 or len(faults) > 1 or (faults and faults[0] != 1)): continue
                                if consumer == 2 and k < 3: continue
                                if wrapper == 'coba' and (n == 3 or k > 2 or (tier == 'quick' and (m == 2 or consumer != 'all'))): continue
                                if tier == 'quick' and n == 3 and (m == 2 or k == 3 and faults): continue
                                out.append({'wrapper': wrapper, 'n': n, 'm': m, 'items': k, 'faults': list(faults), 'consumer': consumer})
        # the filter raises ordinary builtin exceptions (incl. the ones coba's own queue plumbing catches internally)
        for kind in [k for k in EXC_KINDS if k != 'custom']:
            for wrapper, n, m in (('mp', 2, 0), ('mp', 1, 1), ('coba', 2, 0)):
                if tier == 'quick' and wrapper == 'coba' and kind not in ('ValueError', 'EOFError', 'cannot-unpickle', 'cannot-pickle'): continue
                for x in (1, 2):
                    out.append({'wrapper': wrapper, 'n': n, 'm': m, 'items': 2, 'faults': [x], 'consumer': 'all', 'exc': kind})
        # filters that give more / fewer than one output per item, or the output None
        for fan in ('two', 'skip1', 'none1'):
            for wrapper, n, m in (('mp', 2, 0), ('mp', 1, 1), ('mp', 2, 1), ('coba', 2, 1)):
                if tier == 'quick' and wrapper == 'coba' and fan != 'two': continue
                for k in (2, 3):
                    if tier == 'quick' and k == 3 and (n, m) != (1, 1): continue
                    out.append({'wrapper': wrapper, 'n': n, 'm': m, 'items': k, 'faults': [], 'consumer': 'all', 'fan': fan})
        # a generator-valued filter output that raises AFTER its first output
        for wrapper, n, m in (('mp', 2, 0), ('mp', 1, 1), ('mp', 2, 1), ('coba', 2, 0), ('coba', 1, 1)):
            for k, x in ((2, 1), (2, 2), (3, 2)):
                if tier == 'quick' and (k == 3 or (wrapper == 'coba' and x == 2)): continue
                out.append({'wrapper': wrapper, 'n': n, 'm': m, 'items': k, 'faults': [x], 'consumer': 'all', 'fan': 'raise-mid'})
        # the SAME Multiprocessor object applied to a second stream (after a clean / a failed first call)
        for wrapper, n, m in (('mp', 2, 0), ('mp', 2, 1), ('mp', 1, 1), ('coba', 2, 1)):
            if tier == 'quick' and wrapper == 'coba': continue
            for ffaults in ([], [1], [2]):
                for k2, f2 in ((2, []), (3, []), (2, [11])):
                    if tier == 'quick' and (k2 == 3 and (n, m) != (2, 1) or f2 and ffaults != [1]): continue
                    out.append({'wrapper': wrapper, 'n': n, 'm': m, 'items': k2, 'faults': f2, 'consumer': 'all', 'offset': 10, 'first': {'items': 2, 'faults': ffaults}})
        # a stream that re-uses one buffer object for all its items
        for wrapper, n, m in (('mp', 2, 0), ('mp', 3, 1), ('mp', 1, 1), ('mp', 1, 0), ('coba', 2, 0)):
            for k in (2, 3, 4):
                if tier == 'quick' and (k == 4 or (wrapper == 'coba' and k == 3)): continue
                out.append({'wrapper': wrapper, 'n': n, 'm': m, 'items': k, 'faults': [], 'consumer': 'all', 'itemkind': 'aliased'})
        # item VALUES that are falsy / None (a stream may carry them): every rotation of [None, 0, '', ()] as the first 1..4 items
        for wrapper, n, m in (('mp', 2, 0), ('mp', 1, 1), ('coba', 2, 0), ('coba', 1, 1), ('coba', 1, 0), ('mp', 1, 0)):
            for rot in range(4):
                for k in ((1, 2) if tier == 'quick' else (1, 2, 4)):
                    if tier == 'quick' and k == 2 and (n, m) != (2, 0): continue
                    out.append({'wrapper': wrapper, 'n': n, 'm': m, 'items': k, 'faults': [], 'consumer': 'all', 'fan': 'echo', 'itemkind': 'falsy', 'rot': rot})
        # streams LONGER than the bounded input queue (2*n_processes): the loader thread is blocked in put() when workers die / the consumer leaves
        for wrapper, n, m in (('mp', 1, 1), ('mp', 2, 1), ('mp', 2, 0), ('coba', 1, 1)):
            if tier == 'quick' and wrapper == 'coba': continue
            k = 2 * n + 3
            fsets = [[], [1], [k]] + ([[1, 2]] if n == 2 else []) + ([[2], [1, 3]] if tier == 'thorough' else [])
            for faults in fsets:
                out.append({'wrapper': wrapper, 'n': n, 'm': m, 'items': k, 'faults': faults, 'consumer': 'all'})
            out.append({'wrapper': wrapper, 'n': n, 'm': m, 'items': k, 'faults': [], 'consumer': 1})
        out.sort(key=lambda c: (c['items'], c['n'], c['m'], len(c['faults']), c['consumer'] != 'all', c['wrapper'], c.get('exc', ''), c.get('fan', '')))
        return out

    def bound(self, tier, case):
        if tier == 'quick': return 1
        if case.get('first') or case.get('itemkind') or case.get('fan') == 'raise-mid': return 1      # two calls / long executions: the schedule tree at bound 2 does not fit the budget
        heavy = case['n'] * max(case['items'], 1)
        return 2 if heavy <= 4 else 1

    def run_case(self, case, acc, tier='quick', schedule=None):
        tier = os.environ.get('VERIF_TIER_INNER', tier)
        body_factory = lambda: make_body(case)
        # determinism self-test: the default schedule twice
        a = sched.execute(body_factory(), (), 'low', before=before)
        b = sched.execute(body_factory(), (), 'low', before=before)
        sig = lambda ex: (tuple(ex.choices), tuple(p.n for p in ex.points), observation(case, ex), tuple(map(tuple, ex.log)))
        if sig(a) != sig(b):
            raise HarnessError(f'nondeterministic execution for {case}: {sig(a)} vs {sig(b)}')
        outcomes = set()
        nontrivial = [False]

        def on_exec(ex, prefix, policy):
            if ex.npids > 1 and ex.max_enabled >= 2: nontrivial[0] = True
            o = observation(case, ex)
            outcomes.add(o)
            acc.outcome(o)
            if ex.task_errors: acc.count('executions_with_uncaught_thread_exception')
            if ex.leftover: acc.count('executions_with_leftover_blocked_tasks')
            for mode, what in judge(case, ex):
                acc.violation(f'Multiprocessor|{mode}|{feature(case)}', what,
                              {'case': case, 'policy': policy, 'schedule': list(prefix)},
                              order=(self._index(case), sum(1 for c in prefix if c), len(prefix)))

        if schedule is not None:
            ex = sched.execute(body_factory(), schedule['schedule'], schedule['policy'], before=before)
            on_exec(ex, tuple(schedule['schedule']), schedule['policy'])
            return
        policies = ('low', 'high') if self._tier == 'quick' else ('low', 'high', 'rr')
        cap = 4000 if self._tier == 'quick' else 60000
        st = sched.explore(body_factory, self.bound(self._tier, case), policies, cap=cap, on_exec=on_exec, before=before)
        acc.states += st['points']
        acc.transitions += st['transitions']
        acc.traces += st['executions']
        acc.count('executions', st['executions'])
        acc.count('max_depth_points', 0)
        acc.counters['max_depth_points'] = max(acc.counters.get('max_depth_points', 0), st['max_depth'])
        if st['capped']: acc.cap(f'execution cap {cap} hit for {json.dumps(case)}')
        if nontrivial[0]: acc.mark_nontrivial()
        acc.note(json.dumps(case, sort_keys=True), outcomes)

    def _index(self, case):
        return (case['items'], case['n'], case['m'], len(case['faults']))

    def setup(self, tier):
        self._tier = tier

    def replay(self, witness, acc):
        self._tier = 'quick'
        if witness.get('real'):
            self.real_runs([witness['case']], acc); return
        if 'schedule' in witness:
            self.run_case(witness['case'], acc, schedule=witness)
        else:
            self.run_case(witness.get('case', witness), acc)

    # ---- conformance: the same configurations on the real OS primitives
    def real_runs(self, pick, acc):
        import signal as _sig
        env = dict(os.environ, PYTHONPATH=f'{VERIF}:{REPO}')
        def launch(c):
            return subprocess.Popen([sys.executable, '-B', '-W', 'ignore', '-m', 'vf.lib.realmp', json.dumps(c)], env=env,
                                    stdout=subprocess.PIPE, stderr=subprocess.PIPE, text=True, start_new_session=True)
        pending, running, n_ok = list(pick), [], 0
        while pending or running:
            while pending and len(running) < 12:
                c = pending.pop(0); running.append((c, launch(c)))
            c, p = running.pop(0)
            try:
                out, err = p.communicate(timeout=60)
            except subprocess.TimeoutExpired:
                try: os.killpg(p.pid, _sig.SIGKILL)      # the whole session: spawned workers too
                except ProcessLookupError: pass
                p.communicate()
                acc.violation(f'Multiprocessor|real-run-hang|{feature(c)}', 'real spawn run did not finish in 60s', {'case': c, 'real': True})
                continue
            line = [l for l in out.splitlines() if l.startswith('OBS ')]
            if not line:
                raise HarnessError(f'real run of {c} produced no observation: {err[-500:]}')
            o = json.loads(line[-1][4:])
            # judged by the same oracle as the explored executions
            ex = sched.Execution()
            exc = InjectedError(int(o['exc_item']) if str(o['exc_item']).isdigit() else o['exc_item']) if o['exc'] == 'InjectedError' else (None if o['exc'] is None else next((t(o['exc_item']) for t in EXC_KINDS.values() if t.__name__ == o['exc']), RuntimeError(o['exc'])))
            ex.result = ('ok', ([None if x is None else (x[0], x[1]) for x in o['outs']], exc))
            ex.log = [('handled', p_, x) for p_, x in sorted(set(map(tuple, o['handled'])))]
            for mode, what in judge(c, ex):
                acc.violation(f'Multiprocessor|{mode}|{feature(c)} real-os', what, {'case': c, 'real': True})
            absobs = json.dumps([sorted(str(None if x is None else x[1]) for x in o['outs']), o['exc']])
            acc.count('real_obs_in_explored_set' if absobs in acc.notes.get(json.dumps(c, sort_keys=True), ()) else 'real_obs_outside_explored_set')
            n_ok += 1
        return n_ok

    def post(self, acc, tier):
        # 'huge' exceptions are not replayed on the real OS in the registered runs: the real run hangs (listed finding), which would cost a
        # 60 s timeout per run; the pipe-capacity model of the simulated layer was confirmed against real spawn once (vf/lib/realmp.py)
        confs = [c for c in self.cases(tier) if c['wrapper'] == 'mp' and not (c['n'] == 1 and c['m'] == 0) and c['consumer'] == 'all' and c.get('exc') != 'huge' and 'itemkind' not in c and 'first' not in c]
        pick = confs if tier == 'thorough' else [c for c in confs if c['items'] == 2 and c['n'] == 2 and len(c['faults']) <= 1 and 'exc' not in c][:6] + [c for c in confs if c.get('exc') in ('EOFError', 'ValueError', 'cannot-unpickle', 'cannot-pickle') and c['n'] == 2 and c['faults'] == [1]] + [c for c in confs if c.get('fan') in ('two', 'none1') and (c['n'], c['m'], c['items']) == (2, 0, 2)] + [c for c in confs if c['items'] > 4 and c['faults'] == [1]]
        n_ok = self.real_runs(pick, acc)
        acc.traces += n_ok
        return {'real_os_conformance_runs': n_ok}


CHECK = C08()
