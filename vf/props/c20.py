"""C20 - InteractionsEncoder.encode equals the polynomial expansion (ENUM engine).

Every (term list, x value, a value) below the bound is encoded by the REAL encoder and compared with a
reference built on itertools.combinations_with_replacement.
"""
import itertools, math
from collections import Counter
from fractions import Fraction

from vf.core import Check

from coba.encodings import InteractionsEncoder
from coba.primitives import Categorical


class UserStr(str):
    """A user's own str subclass (str-valued Enum members, numpy.str_, ... are strings too)."""
    __slots__ = ()

PRIMES_X = [2, 3, 5, 7, 11, 13]
PRIMES_A = [17, 19, 23, 29, 31, 37]
PRIMES_X2 = [41, 43, 47, 53, 59, 61]      # second assignment (key <-> monomial consistency)
PRIMES_A2 = [67, 71, 73, 79, 83, 89]


def all_terms(maxlen):
    out = []
    for n in range(1, maxlen + 1):
        out += [''.join(t) for t in itertools.product('xa', repeat=n)]
    return out


def value_shapes(maxlen):
    """Shape descriptors for one namespace (simplest first).  A shape is rendered with a prime list."""
    shapes = [('dense', n) for n in range(1, maxlen + 1)]
    shapes += [('none',), ('empty',), ('scalar',), ('absent',), ('tuple', 2)]
    shapes += [('sparse_str', n) for n in (1, 2, 3)] + [('sparse_int', 2), ('sparse_empty',)]
    shapes += [('str',), ('dense_str', 2), ('sparse_strval', 2)]
    shapes += [('dense_str_last', 2), ('dense_str_mid', 3), ('tuple_str_last', 3)]      # strings not in first position
    shapes += [('sparse_unsorted', 2), ('sparse_unsorted', 3), ('sparse_int_digits', 2)]      # mapping keys that are NOT in sorted iteration order
    shapes += [('cat',), ('dense_cat_last', 2), ('sparse_catval', 2), ('userstr_first', 2)]      # string values of a str SUBCLASS (coba's Categorical)
    return shapes


def render(shape, primes):
    k = shape[0]
    if k == 'dense': return list(primes[:shape[1]])
    if k == 'tuple': return tuple(primes[:shape[1]])
    if k == 'none': return None
    if k == 'empty': return []
    if k == 'scalar': return primes[0]
    if k == 'sparse_str': return {'k%d' % i: primes[i] for i in range(shape[1])}
    if k == 'sparse_int': return {i + 3: primes[i] for i in range(shape[1])}
    if k == 'sparse_empty': return {}
    if k == 'sparse_unsorted': return {name: primes[i] for i, name in enumerate(['m', 'b', 'g'][:shape[1]])}
    if k == 'sparse_int_digits': return {10: primes[0], 9: primes[1]}
    if k == 'str': return 's'
    if k == 'dense_str': return ['u', primes[0]]
    if k == 'sparse_strval': return {'k0': 'v', 'k1': primes[0]}
    if k == 'dense_str_last': return [primes[0], 'u']
    if k == 'dense_str_mid': return [primes[0], 'u', primes[1]]
    if k == 'tuple_str_last': return (primes[0], primes[1], 'u')
    if k == 'cat': return Categorical('s', ['r', 's'])
    if k == 'dense_cat_last': return [primes[0], Categorical('u', ['u', 'w'])]
    if k == 'sparse_catval': return {'k0': Categorical('v', ['t', 'v']), 'k1': primes[0]}
    if k == 'userstr_first': return [UserStr('u'), primes[0]]
    raise ValueError(shape)


def is_sparse_shape(shape):
    return shape[0] in ('sparse_unsorted', 'sparse_int_digits', 'sparse_str', 'sparse_int', 'sparse_empty', 'str', 'dense_str', 'sparse_strval', 'dense_str_last', 'dense_str_mid', 'tuple_str_last',
                        'cat', 'dense_cat_last', 'sparse_catval', 'userstr_first')


def features(value):
    """Reference: the list of (feature identity, numeric value) of one namespace value."""
    if value is None: return []
    if isinstance(value, dict):
        return [((k, v) if isinstance(v, str) else (k, None), 1 if isinstance(v, str) else v) for k, v in value.items()]
    if isinstance(value, (list, tuple)):
        return [((i, v) if isinstance(v, str) else (i, None), 1 if isinstance(v, str) else v) for i, v in enumerate(value)]
    if isinstance(value, str): return [((0, value), 1)]
    return [((0, None), value)]


def expected_block(term, ns_feats):
    """Multiset (list) of (monomial identity, product) for one term."""
    cnt = Counter(term)
    per_ns = []
    for ns, p in cnt.items():
        f = ns_feats[ns]
        per_ns.append([(tuple((ns,) + i for i, _ in combo), math.prod(v for _, v in combo))
                       for combo in itertools.combinations_with_replacement(f, p)])
    out = []
    for combo in itertools.product(*per_ns):
        ident = tuple(sorted((i for part, _ in combo for i in part), key=repr))
        out.append((ident, math.prod(v for _, v in combo)))
    return out


class C20(Check):
    ID = 'C20'
    LEVEL = 'exploration'
    RULE = ('cases = ordered lists of distinct terms over {x,a} (length<=4 each) with an optional numeric constant at every '
            'position x every pair of namespace shapes (dense primes len 0..N, tuple, scalar, None, absent, sparse str/int keys, '
            'string, dense-with-string, sparse-with-string-value, the same with values of a str subclass: Categorical / user class), enumerated exhaustively simplest first; a case is non-trivial '
            'when the expected expansion has >=2 monomials and some term has degree >=2 or crosses both namespaces')
    ASSUMPTIONS = ['feature values are distinct primes so every monomial has a unique value',
                   'order of monomials inside one term block and spelling of sparse keys are not constrained',
                   'an absent namespace named by a term may be rejected with an exception (statement defines only None/empty/scalar)',
                   'sparse mappings whose keys collide after str() and duplicate terms are outside the alphabet']
    MIN_NONTRIVIAL = {'quick': 1000, 'thorough': 10000}
    ENGINE = 'ENUM'
    TECHNIQUE = 'bounded-exhaustive enumeration of term lists x namespace shapes on the real encoder vs. a combinations_with_replacement reference model'
    LEVEL_TEXT = ('Every term list (<=2, thorough <=3 terms of degree <=4 over {x,a}, constant at every position) x every pair of namespace '
                  'shapes (dense len 0..4/6, scalar, None, absent, sparse, string, mixtures) is encoded by the real InteractionsEncoder and '
                  'compared with the mathematical expansion; exhaustive below the bound, so the smallest failing degree/feature count is found with certainty.')
    LEVEL_NOTE = 'small-scope hypothesis (degree<=4, <=6 features per namespace); feature values are distinct primes; monomial order inside a term block and key spelling unconstrained'

    def cases(self, tier):
        maxlen = 4 if tier == 'quick' else 6
        nterms = 2 if tier == 'quick' else 3
        terms = all_terms(4)
        shapes = value_shapes(maxlen)
        consts = [None, 1, 2.5]
        for n in range(1, nterms + 1):
            canon = sorted({''.join(sorted(t)) for t in terms}, key=lambda t: (len(t), t)) + ['xa', 'xxa', 'xax', 'xaxa']
            if n == 1 or (n == 2 and tier != 'quick'):
                term_lists = itertools.permutations(terms, n)
            else:   # canonical multisets plus some permuted spellings
                term_lists = itertools.permutations(canon, n)
            for tl in term_lists:
                for c in consts:
                    positions = [None] if c is None else range(len(tl) + 1)
                    for pos in positions:
                        if c is not None and tier == 'quick' and n == 2 and pos == 1 and c == 2.5: continue
                        full = list(tl) if c is None else list(tl[:pos]) + [c] + list(tl[pos:])
                        if n == 3 and c is not None and pos not in (0, 3): continue
                        for sx in shapes:
                            for sa in shapes:
                                heavy = ('sparse_int_digits', 'tuple', 'sparse_int', 'sparse_empty', 'dense_str', 'dense_str_mid', 'tuple_str_last', 'dense_cat_last', 'sparse_catval', 'userstr_first')
                                if n == 3 and (sx[0] in heavy or sa[0] in heavy): continue
                                yield {'terms': full, 'x': list(sx), 'a': list(sa)}
        yield from self.const_cases(tier)
        yield from self.reuse_cases(tier)
        yield from self.large_cases(tier)

    def const_cases(self, tier):
        """Several numeric constants in one list (the constant of the encoding is their SUM), incl. equal and hash-equal ones."""
        pairs = [(1, 1), (2, 2.0), (0.5, 0.5), (1, 2.5), (0, 3), (1, 1, 1)]
        shapes = [('dense', 2), ('scalar',), ('sparse_str', 2), ('str',), ('none',)]
        for tl in (['x'], ['x', 'a'], ['xa'], ['xx', 'a']):
            for cs in pairs:
                for layout in ('front', 'back', 'split'):
                    if layout == 'front': full = list(cs) + tl
                    elif layout == 'back': full = tl + list(cs)
                    else: full = [cs[0]] + tl + list(cs[1:])
                    for sx in shapes:
                        for sa in shapes[:3]:
                            yield {'terms': full, 'x': list(sx), 'a': list(sa)}

    def reuse_cases(self, tier):
        """One encoder object used for several consecutive calls with different inputs (learners keep one encoder for
        all their calls): every call must give what a fresh encoder gives for the same input."""
        terms = all_terms(3 if tier == 'quick' else 4)
        canon = sorted({''.join(sorted(t)) for t in terms}, key=lambda t: (len(t), t)) + ['xa', 'xxa']
        shapes = [('dense', 1), ('dense', 2), ('dense', 3), ('scalar',), ('sparse_str', 2), ('none',), ('dense_str_last', 2)]
        for n in (1, 2):
            for tl in itertools.permutations(canon, n):
                for sx in shapes:
                    for sa in shapes:
                        for kind in ('other-values', 'hash-equal-values', 'other-shape', 'same-object-changed-in-place'):
                            yield {'reuse': kind, 'terms': list(tl), 'x': list(sx), 'a': list(sa)}

    def large_cases(self, tier):
        """Long namespaces: sizes around powers of two (fixed-size tables / buffers), dense and mapping-valued encodings."""
        sizes = [255, 256, 257, 1023, 1024, 1025] + ([4095, 4096, 4097] if tier != 'quick' else [2049])
        for n in sizes:
            for tl in (['x'], ['x', 'a'], ['x', 'xa'], ['a', 'ax']):
                for mode in ('dense', 'string-last', 'string-first', 'sparse-a', 'str-a'):
                    yield {'large': n, 'terms': tl, 'mode': mode}

    def run_large(self, case, acc):
        n, terms, mode = case['large'], case['terms'], case['mode']
        x = list(range(2, n + 2))
        a = [3, 5]
        if mode == 'string-last': x = x[:-1] + ['u']
        if mode == 'string-first': x = ['u'] + x[1:]
        if mode == 'sparse-a': a = {'k0': 3, 'k1': 5}
        if mode == 'str-a': a = 's'
        try:
            out = InteractionsEncoder(terms).encode(x=x, a=a)
        except Exception as e:      # noqa
            acc.violation(f'encode|raises {type(e).__name__}|long namespace {mode}', f'{n} features: {e!r}'); return
        feats = {'x': features(x), 'a': features(a)}
        blocks = [expected_block(t, feats) for t in terms]
        acc.mark_nontrivial()
        if mode == 'dense':
            exp = [sorted(v for _, v in b) for b in blocks]
            pos, ok = 0, isinstance(out, list) and len(out) == sum(map(len, exp))
            if ok:
                for b in exp:
                    ok = ok and sorted(out[pos:pos + len(b)]) == b; pos += len(b)
            if not ok:
                acc.violation('encode|wrong monomials|long dense namespace', f'{n} x-features, terms {terms}: {len(out) if hasattr(out, "__len__") else type(out).__name__} values, expected {sum(map(len, exp))}')
        else:
            exp = {}
            for b in blocks:
                for ident, v in b: exp[ident] = v
            if not isinstance(out, dict) or len(out) != len(exp) or Counter(out.values()) != Counter(exp.values()):
                acc.violation(f'encode|wrong monomials|long namespace in a mapping-valued encoding ({mode})',
                              f'{n} x-features, terms {terms}: {len(out) if hasattr(out, "__len__") else type(out).__name__} features, expected {len(exp)}')
        acc.outcome(('large', mode, len(out) if hasattr(out, '__len__') else -1))

    def run_reuse(self, case, acc):
        terms, sx, sa, kind = case['terms'], tuple(case['x']), tuple(case['a']), case['reuse']
        H1x, H2x, H1a, H2a = [-1, 3, 5, 7], [-2, 3, 5, 7], [-1, 19, 23], [-2, 19, 23]    # hash(-1) == hash(-2) in CPython
        nxt = {('dense', 1): ('dense', 2), ('dense', 2): ('dense', 3), ('dense', 3): ('scalar',), ('scalar',): ('dense', 2),
               ('sparse_str', 2): ('sparse_str', 1), ('none',): ('dense', 1), ('dense_str_last', 2): ('dense', 2)}
        if kind == 'other-values': seq = [(sx, sa, PRIMES_X, PRIMES_A), (sx, sa, PRIMES_X2, PRIMES_A2), (sx, sa, PRIMES_X, PRIMES_A)]
        elif kind == 'hash-equal-values': seq = [(sx, sa, H1x, H1a), (sx, sa, H2x, H2a), (sx, sa, H1x, H2a), (sx, sa, H1x, H1a)]
        else: seq = [(sx, sa, PRIMES_X, PRIMES_A), (nxt[sx], sa, PRIMES_X, PRIMES_A), (sx, nxt[sa], PRIMES_X, PRIMES_A), (sx, sa, PRIMES_X, PRIMES_A)]
        if kind == 'same-object-changed-in-place': return self.run_inplace(terms, sx, sa, acc)
        enc = InteractionsEncoder(terms)
        for i, (s1, s2, px, pa) in enumerate(seq):
            kw = {'x': render(s1, px), 'a': render(s2, pa)}
            try: fresh = ('ok', InteractionsEncoder(terms).encode(**{k: (list(v) if isinstance(v, list) else dict(v) if isinstance(v, dict) else v) for k, v in kw.items()}))
            except Exception as e: fresh = ('exc', type(e).__name__)     # noqa
            try: got = ('ok', enc.encode(**kw))
            except Exception as e: got = ('exc', type(e).__name__)       # noqa
            if i > 0: acc.mark_nontrivial()
            if got != fresh:
                acc.violation(f'encode|result depends on earlier calls of the same encoder|{kind}',
                              f'call {i + 1} with x={kw["x"]!r} a={kw["a"]!r}: re-used encoder gives {str(got)[:120]}, a fresh encoder {str(fresh)[:120]}')
                return
        acc.outcome(('reuse', kind))

    def run_inplace(self, terms, sx, sa, acc):
        """The caller keeps ONE x object and ONE a object and changes them in place between calls of one encoder (seed C20-M: a
        memo keyed on object identity): replace a value, then grow, then shrink; every call equals a fresh encoder on a copy."""
        x, a = render(sx, PRIMES_X), render(sa, PRIMES_A)
        def steps(v, alt):
            if isinstance(v, list):
                nums = [i for i, e in enumerate(v) if not isinstance(e, str)]
                if nums: yield lambda: v.__setitem__(nums[0], alt)
                yield lambda: v.append(alt + 2)
                yield lambda: v.pop(0)
            elif isinstance(v, dict):
                ks = list(v)
                if ks: yield lambda: v.__setitem__(ks[0], alt)
                yield lambda: v.__setitem__('zz', alt + 2)
                if ks: yield lambda: v.pop(ks[0])
        ops = [None] + list(steps(x, 29)) + list(steps(a, 31))
        if len(ops) == 1: return
        enc = InteractionsEncoder(terms)
        copy = lambda v: list(v) if isinstance(v, list) else dict(v) if isinstance(v, dict) else v
        for i, op in enumerate(ops):
            if op: op()
            try: fresh = ('ok', InteractionsEncoder(terms).encode(x=copy(x), a=copy(a)))
            except Exception as e: fresh = ('exc', type(e).__name__)     # noqa
            try: got = ('ok', enc.encode(x=x, a=a))
            except Exception as e: got = ('exc', type(e).__name__)       # noqa
            if i > 0: acc.mark_nontrivial()
            if got != fresh:
                acc.violation('encode|result depends on earlier calls of the same encoder|same-object-changed-in-place',
                              f'call {i + 1} with the same objects changed in place, now x={x!r} a={a!r}: re-used encoder gives {str(got)[:120]}, a fresh encoder {str(fresh)[:120]}')
                return
        acc.outcome(('reuse', 'same-object-changed-in-place'))

    def encode(self, terms, sx, sa, px, pa):
        kw = {}
        if sx[0] != 'absent': kw['x'] = render(sx, px)
        if sa[0] != 'absent': kw['a'] = render(sa, pa)
        return kw, InteractionsEncoder(terms).encode(**kw)

    def run_case(self, case, acc):
        if 'reuse' in case: return self.run_reuse(case, acc)
        if 'large' in case: return self.run_large(case, acc)
        terms, sx, sa = case['terms'], tuple(case['x']), tuple(case['a'])
        str_terms = [t for t in terms if isinstance(t, str)]
        const = sum(t for t in terms if not isinstance(t, str))
        named = set(''.join(str_terms))
        absent_named = ('x' in named and sx[0] == 'absent') or ('a' in named and sa[0] == 'absent')
        try:
            kw, out = self.encode(terms, sx, sa, PRIMES_X, PRIMES_A)
        except Exception as e:   # noqa
            if absent_named:
                acc.outcome('rejected-absent'); return
            acc.violation(f'encode|raises {type(e).__name__}|x={sx[0]} a={sa[0]}', f'encode raised {e!r}'); return
        feats = {'x': features(kw.get('x')), 'a': features(kw.get('a'))}
        blocks = [expected_block(t, feats) for t in str_terms]
        nmono = sum(map(len, blocks))
        if nmono >= 2 and any(len(t) >= 2 for t in str_terms): acc.mark_nontrivial()
        used_sparse = any(is_sparse_shape(s) for s, n in ((sx, 'x'), (sa, 'a')) if s[0] != 'absent')
        maxdeg = max(len(t) for t in str_terms)
        nfeat = max(len(feats['x']), len(feats['a']))
        tag = f'deg={min(maxdeg,3)}{"+" if maxdeg>3 else ""} nfeat={"<=3" if nfeat<=3 else ">=4"}'
        if not used_sparse:
            if not isinstance(out, list):
                acc.violation('encode|dense inputs not encoded as a vector|' + tag, f'got {type(out).__name__}'); return
            acc.outcome(('d', len(out)))
            exp_len = nmono + (1 if const else 0)
            pos = 0
            if const:
                if not out or out[0] != const:
                    acc.violation('encode|constant not first|dense', f'expected constant {const} first, got {out[:3]}'); return
                pos = 1
            if len(out) != exp_len:
                acc.violation(f'encode|wrong number of monomials|dense {tag}', f'expected {exp_len} values, got {len(out)}'); return
            for t, b in zip(str_terms, blocks):
                got = sorted(out[pos:pos + len(b)]); pos += len(b)
                if got != sorted(v for _, v in b):
                    acc.violation(f'encode|wrong monomials in term block|dense {tag}',
                                  f'term {t}: expected {sorted(v for _, v in b)}, got {got}'); return
        else:
            if not isinstance(out, dict):
                acc.violation('encode|sparse inputs not encoded as a mapping|' + tag, f'got {type(out).__name__}'); return
            acc.outcome(('s', len(out)))
            exp = {}
            for b in blocks:
                for ident, v in b: exp[ident] = v
            # a monomial named by two spellings of one term ('xa','ax') may appear once or once per spelling
            lo = Counter(exp.values()); hi = Counter(v for b in blocks for _, v in b)
            got = dict(out)
            if const:
                if got.pop('const', None) != const:
                    acc.violation('encode|constant missing|sparse', f'expected const={const} in {out}'); return
            if any(isinstance(v, str) or not isinstance(v, (int, float)) for v in got.values()):
                acc.violation(f'encode|feature value is not a number|sparse {tag}', f'got {got}'); return
            gotc = Counter(got.values())
            if not (sum(lo.values()) <= len(got) <= sum(hi.values())):
                acc.violation(f'encode|wrong number of monomials|sparse {tag}', f'expected {sum(lo.values())}..{sum(hi.values())} keys, got {len(got)}: {got}'); return
            if any(not (lo.get(v, 0) <= gotc.get(v, 0) <= hi.get(v, 0)) for v in set(gotc) | set(lo)):
                acc.violation(f'encode|wrong monomial values|sparse {tag}', f'expected {sorted(exp.values(), key=repr)}, got {sorted(got.values(), key=repr)}'); return
            # key <-> monomial consistency: the same key must name the same feature multiset under other feature values
            _, out2 = self.encode(terms, sx, sa, PRIMES_X2, PRIMES_A2)
            feats2 = {'x': features(render(sx, PRIMES_X2) if sx[0] != 'absent' else None),
                      'a': features(render(sa, PRIMES_A2) if sa[0] != 'absent' else None)}
            exp2 = {}
            for t in str_terms:
                for ident, v in expected_block(t, feats2): exp2[ident] = v
            by_val1 = Counter(exp.values()); by_val2 = Counter(exp2.values())
            inv1 = {v: i for i, v in exp.items() if by_val1[v] == 1}
            inv2 = {v: i for i, v in exp2.items() if by_val2[v] == 1}
            # ... and under other feature SETS: leave one entry of a mapping-valued namespace out; every key that occurs in both encodings
            # must name the same monomial (a key is an identity of the participating features, not a position)
            for ns in ('x', 'a'):
                full = kw.get(ns)
                if not isinstance(full, dict) or len(full) < 2: continue
                for drop in list(full):
                    kw3 = dict(kw); kw3[ns] = {k: v for k, v in full.items() if k != drop}
                    try: out3 = InteractionsEncoder(terms).encode(**kw3)
                    except Exception as e:      # noqa
                        acc.violation('encode|raises for a sub-mapping|sparse', f'{kw3}: {e!r}'); return
                    if not isinstance(out3, dict): continue
                    for k, v3 in out3.items():
                        if k == 'const' or k not in got: continue
                        if got[k] in inv1 and v3 in inv1 and inv1[got[k]] != inv1[v3]:
                            acc.violation('encode|key names different monomials for different feature sets|sparse',
                                          f'key {k}: {inv1[got[k]]} with all features, {inv1[v3]} without {ns}[{drop!r}]'); return
            for k, v in got.items():
                v2 = out2.get(k)
                if v2 is None:
                    acc.violation('encode|key set depends on feature values|sparse', f'key {k} missing for other values'); return
                if v in inv1 and v2 in inv2 and inv1[v] != inv2[v2]:
                    acc.violation('encode|key names different monomials for different values|sparse',
                                  f'key {k}: {inv1[v]} vs {inv2[v2]}'); return


CHECK = C20()
