"""C07 - the result log faithfully records what evaluators produced (ENUM engine).

Every case is a small experiment description (environments / learners / evaluators with params dictionaries, a
triple list, the rows each triple's evaluator yields, and the set of triples whose evaluator fails in the first
stage of a two-stage run).  The REAL `Experiment.run` is executed on fresh scripted components in five sink modes
(no file, plain file, .gz file, restored plain file, restored .gz file) and the four tables of every returned
Result and of `Result.from_file` are compared with a plain-Python reference: the yielded rows / params under the
statement's normalisation.  Nothing is sampled.
"""
import os, sys, json, math, itertools, re, shutil, subprocess, traceback

from vf.core import Check, REPO, tmpdir, HarnessError

from coba.context import CobaContext, NullLogger, MemoryCacher
from coba.pipes import ListSink
from coba.experiments import Experiment
from coba.results import Result
from coba.primitives import BinaryReward

NAN, INF = float('nan'), float('inf')

# ------------------------------------------------------------------ alphabets (token -> fresh value)

VALUES = {
    'i0': lambda: 0, 'i1': lambda: 1, 'f-1.5': lambda: -1.5, 'f.123456789': lambda: 0.123456789,
    'f1e-7': lambda: 1e-7, 'f1e20': lambda: 1e20, 'true': lambda: True, 'none': lambda: None,
    'nan': lambda: float('nan'), 'inf': lambda: float('inf'),
    's_a': lambda: 'a', 's_uni': lambda: 'é\n"\\', 's_empty': lambda: '',
    'l12': lambda: [1, 2], 't12': lambda: (1, 2), 'll': lambda: [[1], [2]], 'l_empty': lambda: [],
    'd_k1': lambda: {'k': 1}, 'd_kl': lambda: {'k': [1.23456789]}, 'br1': lambda: BinaryReward(1),
    # additions to the design's alphabet (float that collapses to an int, rounding inside a top-level sequence,
    # nested tuple, multi-character string)
    'f2.0': lambda: 2.0, 'l_f': lambda: [0.123456789, 2.0], 't_nest': lambda: ((1, 2), 'a'), 's_ab': lambda: 'ab',
    # text alphabet: non-ascii text (accented, CJK, non-BMP emoji) and a LONE SURROGATE (what os.fsdecode(b'caf\xe9.csv') gives)
    's_cjk': lambda: '\u65e5\u672c\u8a9e', 's_emoji': lambda: 'x\U0001f600', 's_surr': lambda: 'caf\udce9.csv',
    'l_text': lambda: ['\u65e5\u672c', 'caf\udce9'], 'd_text': lambda: {'k': '\U0001f600\xe9'},
}
V_DESIGN = ['i0', 'i1', 'f-1.5', 'f.123456789', 'f1e-7', 'f1e20', 'true', 'none', 'nan', 'inf', 's_a', 's_uni', 's_empty',
            'l12', 't12', 'll', 'l_empty', 'd_k1', 'd_kl', 'br1']
V_EXTRA = ['f2.0', 'l_f', 't_nest', 's_ab']
V_ALL = V_DESIGN + V_EXTRA
V_CORE = ['i1', 'f.123456789', 'none', 's_a', 'l12', 'd_k1']          # the 6-value core of the design
V_MID = ['i1', 'f.123456789', 'none', 's_a', 'l12', 'd_k1', 't12', 'nan', 's_uni', 'l_empty']

V_TEXT = ['s_uni', 's_cjk', 's_emoji', 's_surr', 'l_text', 'd_text']
KEYS = {'reward': 'reward', 'x': 'x', 'k1': 1, 'k2.5': 2.5, 'k_txt': '\xfc\u65e5'}      # k_txt: a non-ascii field name (text section only)
K_ALL = ['x', 'reward', 'k1', 'k2.5']


def mk_val(tok):
    if tok.startswith('#'): return json.loads(tok[1:])
    return VALUES[tok]()


def mk_key(tok):
    return KEYS[tok]


def mk_dict(pairs):
    return {mk_key(k): mk_val(v) for k, v in pairs}


# ------------------------------------------------------------------ scripted components (fresh per run)

class EvalFailure(Exception):
    """Raised by the scripted evaluator for the triples that fail in stage one of a two-stage run."""


class Env07:
    def __init__(self, eid, params): self.eid, self._p = eid, params
    @property
    def params(self): return mk_dict(self._p)
    def read(self): return iter(())


class Lrn07:
    def __init__(self, lid, params): self.lid, self._p = lid, params
    @property
    def params(self): return mk_dict(self._p)
    def predict(self, context, actions): return actions[0]
    def learn(self, *a, **k): pass


class Val07:
    def __init__(self, vid, params, rows, fail):
        self.vid, self._p, self._rows, self._fail = vid, params, rows, fail
    @property
    def params(self): return mk_dict(self._p)
    def evaluate(self, env, lrn):
        k = (env.eid, lrn.lid, self.vid)
        if k in self._fail: raise EvalFailure(str(k))
        for row in self._rows[k]:
            yield mk_dict(row)


def build(case, fail_idx=()):
    envs = [Env07(i, p) for i, p in enumerate(case['envs'])]
    lrns = [Lrn07(i, p) for i, p in enumerate(case['lrns'])]
    trip = [tuple(t) for t in case['triples']]
    rows = {t: r for t, r in zip(trip, case['rows'])}
    fail = {trip[i] for i in fail_idx}
    vals = [Val07(i, p, rows, fail) for i, p in enumerate(case['vals'])]
    return Experiment([(envs[e], lrns[l], vals[v]) for e, l, v in trip])


# ------------------------------------------------------------------ reference model

def is_seq(x): return isinstance(x, (list, tuple))
def is_num(x): return isinstance(x, (int, float)) and not isinstance(x, str)
def is_none(x): return x is None or type(x).__name__ == 'MissingType'


def vclass(x):
    if is_none(x): return 'None'
    if isinstance(x, BinaryReward): return 'reward object'
    if isinstance(x, bool): return 'bool'
    if isinstance(x, int): return 'int'
    if isinstance(x, float): return 'nan' if x != x else 'inf' if math.isinf(x) else 'float'
    if isinstance(x, str): return 'str'
    if isinstance(x, tuple): return 'tuple'
    if isinstance(x, list): return 'list'
    if isinstance(x, dict): return 'dict'
    return type(x).__name__


def diff(exp, got, top=True):
    """None when `got` equals `exp` up to the statement's normalisation, else a short mismatch kind.
    A mismatch inside a nested sequence/dict is reported with the kind of the innermost differing value."""
    if exp is None:
        return None if is_none(got) else 'None read back as a value'
    if is_none(got): return 'value read back as None'
    if top and isinstance(got, tuple) and not is_seq(exp): return 'non-sequence read back as tuple'
    if isinstance(exp, BinaryReward):
        # non-demand: a reward object may be read back as an equal object or as its registered JSON form
        if isinstance(got, BinaryReward): return None if (got._argmax, got._value) == (exp._argmax, exp._value) else 'reward object differs'
        return None if isinstance(got, dict) and got == {'BR': '(1,)'} else 'reward object differs'
    if isinstance(exp, (bool, int)):
        return None if is_num(got) and got == exp else f'{vclass(exp)} differs'
    if isinstance(exp, float):
        if exp != exp: return None if isinstance(got, float) and got != got else 'nan differs'
        if math.isinf(exp) or exp.is_integer(): return None if is_num(got) and got == exp else 'float differs'
        if not is_num(got) or isinstance(got, bool) or got != got: return 'float differs'
        return None if abs(got - exp) <= 0.5e-5 + 1e-12 else 'float off by more than 5e-6'
    if isinstance(exp, str):
        return None if isinstance(got, str) and got == exp else 'str differs'
    if is_seq(exp):
        if not is_seq(got) or len(got) != len(exp): return 'sequence differs'
        for e, g in zip(exp, got):
            d = diff(e, g, False)
            if d: return d if d.startswith('nested ') else 'nested ' + d
        if top and not isinstance(got, tuple): return 'top-level sequence read back as list'
        return None
    if isinstance(exp, dict):
        if not isinstance(got, dict) or set(got) != {str(k) for k in exp}: return 'dict differs'
        for k, e in exp.items():
            d = diff(e, got[str(k)], False)
            if d: return d if d.startswith('nested ') else 'nested ' + d
        return None
    raise AssertionError(f'value outside the alphabet: {exp!a}')


def same_loose(a, b):
    """Structural identity of two values read from two Results (NaN == NaN, types included)."""
    if is_none(a) or is_none(b): return type(a) is type(b)
    if type(a) is not type(b): return False
    if isinstance(a, float): return (a != a and b != b) or a == b
    if isinstance(a, (list, tuple)): return len(a) == len(b) and all(same_loose(x, y) for x, y in zip(a, b))
    if isinstance(a, dict): return list(a) == list(b) and all(same_loose(a[k], b[k]) for k in a)
    if isinstance(a, BinaryReward): return isinstance(b, BinaryReward) and (a._argmax, a._value) == (b._argmax, b._value)
    return a == b


def col_feature(values):
    """Minimal discriminating feature of one column of yielded values (absent cells given as None)."""
    s = [is_seq(v) for v in values]
    if any(s) and not all(s): return 'column mixes sequence and non-sequence values'
    if all(s) and s: return 'column of sequences'
    return 'column without sequences'


def keytype(k): return 'str key' if isinstance(k, str) else f'{type(k).__name__} key'


ID_COLS = ('environment_id', 'learner_id', 'evaluator_id', 'index')


class Expect:
    """The reference content of the four tables for one case and a set of completed triples."""

    def __init__(self, case):
        self.case = case
        trip = [tuple(t) for t in case['triples']]
        # ids by first appearance in the triple list (coba's documented id assignment)
        self.eid, self.lid, self.vid = {}, {}, {}
        for e, l, v in trip:
            self.eid.setdefault(e, len(self.eid)); self.lid.setdefault(l, len(self.lid)); self.vid.setdefault(v, len(self.vid))
        self.trip = trip
        self.rows = {t: [mk_dict(r) for r in rows] for t, rows in zip(trip, case['rows'])}
        self.ids = {t: (self.eid[t[0]], self.lid[t[1]], self.vid[t[2]]) for t in trip}
        self.params = {
            'environments': {self.eid[i]: {**mk_dict(case['envs'][i]), 'env_type': 'Env07'} for i in self.eid},
            'learners': {self.lid[i]: {**mk_dict(case['lrns'][i]), 'family': 'Lrn07'} for i in self.lid},
            'evaluators': {self.vid[i]: {**mk_dict(case['vals'][i]), 'eval_type': 'Val07'} for i in self.vid},
        }

    def any_mixed(self):
        for t, rows in self.rows.items():
            keys = set().union(*[r.keys() for r in rows]) if rows else ()
            for k in keys:
                if col_feature([r.get(k) for r in rows]).startswith('column mixes'): return True
        return False

    def normalisation_applied(self):
        def walk(x, top):
            if isinstance(x, float) and x == x and not math.isinf(x) and (x.is_integer() or round(x, 5) != x): return True
            if is_seq(x): return top or any(walk(y, False) for y in x)
            if isinstance(x, dict): return any(walk(y, False) for y in x.values())
            return False
        for rows in self.rows.values():
            keys = set().union(*[r.keys() for r in rows]) if rows else set()
            for r in rows:
                if r.keys() != keys: return True
                if any(not isinstance(k, str) for k in r) or any(walk(v, True) for v in r.values()): return True
        for tab in self.params.values():
            keys = set().union(*[p.keys() for p in tab.values()])
            for p in tab.values():
                if p.keys() != keys: return True
                if any(not isinstance(k, str) for k in p) or any(walk(v, True) for v in p.values()): return True
        return False


def table_rows(t):
    cols = tuple(t.columns)
    return cols, [dict(zip(cols, r)) for r in zip(*[list(t[c]) for c in cols])] if cols else []


def snapshot(result):
    return {n: table_rows(getattr(result, n)) for n in ('environments', 'learners', 'evaluators', 'interactions')}, dict(result.experiment)


def is_empty(snap):
    return all(not rows for _, rows in snap[0].values())


def compare(exp: Expect, snap, completed, logged):
    """All mismatches between one Result snapshot and the reference: list of (key, what)."""
    out = []
    tables, _ = snap
    if is_empty(snap):      # one key for "nothing came back at all" (the experiment failed, or the log could not be read back)
        feat = ('logged ' + '+'.join(sorted(set(logged)))) if logged else 'nothing logged'
        return [(f'result|all four tables empty|{feat}', f'the Result has no rows in any table; expected {len(exp.params["environments"])} environment(s), '
                 f'{len(exp.params["learners"])} learner(s), {len(exp.params["evaluators"])} evaluator(s); logged={logged}')]
    # ---- parameter tables
    for name, idcol in (('environments', 'environment_id'), ('learners', 'learner_id'), ('evaluators', 'evaluator_id')):
        cols, rows = tables[name]
        want = exp.params[name]
        byid = {}
        for r in rows: byid.setdefault(r.get(idcol), []).append(r)
        if sorted(byid, key=repr) != sorted(want, key=repr) or any(len(v) != 1 for v in byid.values()):
            out.append((f'{name}|wrong set of rows|ids', f'{name}: expected one row for each id {sorted(want)}, got ids {[r.get(idcol) for r in rows]}'))
            continue
        allkeys = {}
        for p in want.values():
            for k in p: allkeys[str(k)] = k
        for k in allkeys:
            if k not in cols:
                out.append((f'{name}|column missing|{keytype(allkeys[k])}', f'{name}: no column {k!a} (columns {cols})'))
        for c in cols:
            if c == idcol: continue
            for i, p in want.items():
                got = byid[i][0][c]
                if c in allkeys and allkeys[c] in p:
                    d = diff(p[allkeys[c]], got)
                    if d: out.append((f'{name}|{d}|{"sequence" if is_seq(p[allkeys[c]]) else "non-sequence"} param', f'{name}[{i}][{c!a}]: component gave {p[allkeys[c]]!a}, table has {got!a}'))
                elif not is_none(got):
                    out.append((f'{name}|absent field not None|param', f'{name}[{i}][{c!a}]: component has no such param, table has {got!a}'))
    # ---- interactions
    cols, rows = tables['interactions']
    groups = {}
    for r in rows: groups.setdefault((r.get('environment_id'), r.get('learner_id'), r.get('evaluator_id')), []).append(r)
    known_ids = set(exp.ids.values())
    for g in groups:
        if g not in known_ids:
            out.append(('interactions|rows for a triple that was not given|ids', f'interactions has rows with ids {g}; triples have ids {sorted(known_ids)}'))
    for t in completed:
        want = exp.rows[t]
        got = groups.get(exp.ids[t], [])
        if len(got) != len(want):
            feat = ('logged ' + '+'.join(sorted(set(logged)))) if logged else 'nothing logged'
            out.append((f'interactions|wrong number of rows for a completed triple|{feat}',
                        f'triple {t} (ids {exp.ids[t]}): evaluator yielded {len(want)} rows, table has {len(got)}; logged={logged}'))
            continue
        if [r.get('index') for r in got] != list(range(1, len(want) + 1)):
            out.append(('interactions|index not 1..N in order|index', f'triple {t}: index column is {[r.get("index") for r in got]}, expected 1..{len(want)}'))
            continue
        allkeys = {}
        for w in want:
            for k in w: allkeys[str(k)] = k
        for k in allkeys:
            if k not in cols:
                out.append((f'interactions|column missing|{keytype(allkeys[k])}', f'interactions: no column {k!a} (columns {cols})'))
        for c in cols:
            if c in ID_COLS: continue
            if c in allkeys:
                feat = col_feature([w.get(allkeys[c]) for w in want])
            for i, (w, g) in enumerate(zip(want, got)):
                if c in allkeys and allkeys[c] in w:
                    d = diff(w[allkeys[c]], g[c])
                    if d and not is_none(g[c]) and any(k2 != allkeys[c] and diff(w[k2], g[c]) is None for k2 in w):
                        # the cell holds what the evaluator yielded under ANOTHER key of the same row
                        orders = {tuple(map(str, r)) for r in want}
                        d, f2 = 'value filed under another field of the same row', (
                            'rows with equal key sets in different insertion orders' if len(orders) > 1 and len({frozenset(o) for o in orders}) == 1 else 'rows in one insertion order or ragged')
                        out.append((f'interactions|{d}|{f2}', f'triple {t} row {i + 1} field {c!a}: evaluator yielded {w[allkeys[c]]!a}, table has {g[c]!a}'))
                    elif d: out.append((f'interactions|{d}|{feat}', f'triple {t} row {i + 1} field {c!a}: evaluator yielded {w[allkeys[c]]!a}, table has {g[c]!a}'))
                elif not is_none(g[c]):
                    out.append(('interactions|absent field not None|ragged rows', f'triple {t} row {i + 1} has no field {c!a}, table has {g[c]!a}'))
    return out


def identical(a, b, strict_columns=True):
    """First difference between two Result snapshots, or None: (aspect, text)."""
    (ta, xa), (tb, xb) = a, b
    for name in ('environments', 'learners', 'evaluators', 'interactions'):
        ca, ra = ta[name]; cb, rb = tb[name]
        if (ca != cb) if strict_columns else (set(ca) != set(cb)):
            return f'{name} columns', f'{ca} vs {cb}'
        if len(ra) != len(rb): return f'{name} row count', f'{len(ra)} vs {len(rb)}'
        for i, (x, y) in enumerate(zip(ra, rb)):
            for c in ca:
                if not same_loose(x[c], y[c]): return f'{name} values', f'row {i} column {c!a}: {x[c]!a} vs {y[c]!a}'
    if not same_loose(xa, xb): return 'experiment dict', f'{xa} vs {xb}'
    return None


_COBA_DIR = os.path.join(REPO, 'coba') + os.sep


def where_raised(e):
    """Innermost coba function on the traceback of `e`."""
    name = '?'
    for fs in traceback.extract_tb(e.__traceback__):
        if os.path.realpath(fs.filename).startswith(_COBA_DIR): name = fs.name
    return name


_EXC_RE = re.compile(r'^([A-Za-z_][\w.]*(?:Error|Exception|Failure|Interrupt|Exit|Warning)?)\b(?::|$)')


def logged_exception_names(lines):
    names = []
    for m in lines:
        txt = [l for l in str(m).strip().split('\n') if l.strip()]
        if not txt: continue
        if 'EXCEPTION:' in txt[0]: names.append('CobaException'); continue
        mm = _EXC_RE.match(txt[-1].strip())
        names.append(mm.group(1).split('.')[-1] if mm else 'exception')
    return names


# ------------------------------------------------------------------ the check

# result-file names (relative to a fresh per-case scratch directory): where '.gz' occurs decides, at several sites
# of coba (DiskSink, DiskSource, Experiment.run), whether the file is treated as gzip
FILES = {
    'plain': ('r.log', "no '.gz'"),
    'gz': ('r.log.gz', "'.gz' suffix"),
    'mid': ('r.gz.bak', "'.gz' inside the base name"),
    'dir': ('sweep.gz.d/r.log', "'.gz' in a directory name"),
    'dirgz': ('sweep.gz.d/r.log.gz', "'.gz' in a directory name and as suffix"),
    'upper': ('r.LOG.GZ', "upper-case '.GZ' suffix"),
    'nodot': ('rgz.log', "'gz' without a dot"),
}
STD_FILES = ['plain', 'gz']          # used by every case; the names section uses all of FILES
TYPED = ['l12', 's_a', 'f.123456789', 'd_k1', 's_uni', 'i1']      # pairwise distinct after normalisation

_SCRATCH = tmpdir()          # created in the parent before the fork; removed by the parent's atexit


class C07(Check):
    ID = 'C07'
    LEVEL = 'exploration'
    ENGINE = 'ENUM'
    RULE = ('cases = experiment descriptions enumerated exhaustively, simplest first: (1) one triple whose evaluator yields 1..3 rows '
            'with one key from {reward,x,1,2.5} and every value tuple over the value alphabet; (2) one triple with 2 rows over 2 keys in '
            'every presence pattern (ragged rows, an empty row) x values; (2b) 2..3 rows with EQUAL key sets (2..4 keys) in every tuple of '
            'insertion-order permutations, cell-distinct values; (3) env/learner/evaluator params {key:value} over the same '
            'alphabets, and two components with ragged params; (4) 1..4 triples over 2 envs x 2 learners x 2 evaluators in several '
            'list orders x every row-count vector over {0,1,2} (thorough {0..3}) x every non-empty stage-one failure set (quick, 4 triples: '
            'sizes 1 and 4 plus two pairs); each case runs in 5 sink modes '
            '(no file, plain, .gz, restored plain, restored .gz); (5) a content subset x 7 result-file names (".gz" nowhere / suffix / '
            'inside the base name / in a directory name / both / upper case / "gz" without dot) x fresh runs, restored runs and runs onto an existing empty file; (6) non-ascii text (accented, CJK, non-BMP) and a lone surrogate as '
            'recorded values, nested values, params and field names, in-process and again in a child interpreter with a C (ascii) locale; '
            'section (4) also lists the SAME triple twice/thrice. A case is non-trivial when the normalisation had something to do '
            '(non-string key, absent field, top-level sequence, float needing rounding or int collapse) or >=2 triples were given')
    ASSUMPTIONS = [
        'in-process runs only (processes=1, maxchunksperchild=0); the multi-process path is C01/C08',
        'environment/learner/evaluator ids are assigned by first appearance in the triple list (documented in MakeTasks)',
        'parameter tables are compared with the params as completed by coba\'s Safe* wrappers (env_type / family / eval_type = class name)',
        'floats: |read - yielded| <= 5e-6 is demanded (not that the value was actually rounded); integer-valued floats may be read back as int; bool/int/float compare by ==',
        'only TOP-LEVEL sequences must be tuples; the list/tuple type of nested sequences is not constrained',
        'an absent field may be None or coba\'s Missing singleton (== None)',
        'a reward object may be read back as an equal object or as its registered JSON form {"BR": state}',
        'extra columns are tolerated when they are None for the triple; column order is only compared between Results of the same run (file vs. from_file)',
        'keys whose str() collide, the reserved names (ids, index, rewards, env_type, family, eval_type) and rows lists consisting only of empty rows are outside the alphabet',
        'rows of triples whose evaluator raised are not constrained; a restored run is compared with the fresh no-file run on content and column sets only',
        'whether a result file is gzip-compressed is not constrained, only that run(file), from_file(file) and the no-file run agree for every file name',
        'result files that a killed run left torn (cut inside a record, incl. inside the very first one) are C02\'s subject and not enumerated here; '
        'only complete earlier runs (restored) and an existing 0-byte file are',
        'a triple listed more than once is one triple of the Result (same ids): N rows numbered 1..N; the scripted evaluator yields the same rows at every evaluation, so which evaluation is kept is not constrained',
        'the C-locale child re-runs only the text cases (section 6) with the two standard file names',
        'exceptions: the statement promises a Result, so an exception from Experiment.run / Result.from_file is a violation',
    ]
    TECHNIQUE = ('bounded-exhaustive enumeration of evaluator outputs and params over value/key alphabets x 5 sink modes on the real '
                 'Experiment.run / Result.from_file vs. a plain-Python normalisation model and a three-way identity check')
    LEVEL_TEXT = ('Every column of <=2 (thorough <=3) yielded rows over a 24-value alphabet (ints, floats incl. nan/inf/1e20/1e-7, bool, None, '
                  'unicode/newline/empty strings, lists, tuples, nested and empty sequences, dicts, a reward object) x 4 keys incl. non-string ones, '
                  'every ragged two-key presence pattern, params dictionaries over the same alphabets, and multi-triple experiments with every '
                  'row-count vector and stage-one failure set are run through the real Experiment.run with no file, a plain file, a .gz file and '
                  'restored plain/.gz files; all four tables of each returned Result and of Result.from_file are compared with the reference.')
    LEVEL_NOTE = ('small-scope: <=3 rows, <=2 keys per row (<=4 for permuted equal key sets), <=4 triples, values from the listed alphabet; single process only; '
                  'nested sequence types, actual rounding and reward-object identity are deliberately unconstrained')
    MIN_NONTRIVIAL = {'quick': 5000, 'thorough': 100000}
    CASE_TIMEOUT = 60

    # ---------------------------------------------------------------- enumeration

    @staticmethod
    def single(rows=None, envp=(), lrnp=(), valp=(), fail1=(0,)):
        return {'envs': [list(map(list, envp))], 'lrns': [list(map(list, lrnp))], 'vals': [list(map(list, valp))],
                'triples': [[0, 0, 0]], 'rows': [rows if rows is not None else [[['reward', 'i1']]]], 'fail1': list(fail1)}

    @staticmethod
    def multi_rows(ns):
        """Distinct rows per triple: ragged across triples, and odd rows list their keys in the opposite insertion order."""
        rows = []
        for ti, n in enumerate(ns):
            rs = []
            for i in range(n):
                r = [['reward', '#%d' % (100 * ti + 10 * i + 1)]] if ti != 3 else []      # the 4th triple never yields 'reward'
                if ti % 2 == 1: r.append(['x', '#[%d,%d]' % (ti, i)])
                if ti == 2 and i == 0: r.append(['k1', 's_a'])
                if ti == 0: r.append(['k2.5', '#%d' % (7 + i)])
                if i % 2 == 1: r.reverse()
                rs.append(r)
            rows.append(rs)
        return rows

    def text_cases(self):
        for k in K_ALL + ['k_txt']:
            for v in V_TEXT[1:] if k != 'k_txt' else V_TEXT + ['i1']: yield dict(self.single([[[k, v]]]), text=True)
        for v1 in V_TEXT:
            for v2 in V_TEXT: yield dict(self.single([[['x', v1]], [['x', v2]]]), text=True)
        for comp in ('envp', 'lrnp', 'valp'):
            for k in ('x', 'k1', 'k_txt'):
                for v in V_TEXT[1:] if k != 'k_txt' else V_TEXT[:4]: yield dict(self.single(**{comp: [[k, v]]}), text=True)

    def cases(self, tier):
        quick = tier == 'quick'
        V = V_ALL
        # (1a) one row, one key
        for k in K_ALL:
            for v in V: yield self.single([[[k, v]]])
        # (3a) one param on one component
        for comp in ('envp', 'lrnp', 'valp'):
            for k in K_ALL:
                for v in V: yield self.single(**{comp: [[k, v]]})
        # (1b) two rows, one key: all of V x V
        for k in K_ALL:
            for v1 in V:
                for v2 in V: yield self.single([[[k, v1]], [[k, v2]]])
        # (2) two rows, two keys, every presence pattern with both keys used (PP/PP .. incl. an empty row)
        pairs = [('x', 'reward'), ('k1', 'x'), ('k2.5', 'k1')] if quick else [(a, b) for a in K_ALL for b in K_ALL if a != b]
        pats = [p for p in itertools.product([0, 1], repeat=4) if (p[0] or p[2]) and (p[1] or p[3])]   # (r1k1,r1k2,r2k1,r2k2)
        pats.sort(key=lambda p: (sum(p), p))
        for ka, kb in pairs:
            for p in pats:
                n = sum(p)
                if quick and n == 4 and (ka, kb) != ('x', 'reward'): continue
                vals = V_CORE if quick else (V_MID[:8] if n == 4 else V_ALL if (n <= 2 or (ka, kb) == ('x', 'reward')) else V_MID)
                for vs in itertools.product(vals, repeat=n):
                    it = iter(vs)
                    cells = [next(it) if q else None for q in p]
                    r1 = [[k, c] for k, c in ((ka, cells[0]), (kb, cells[1])) if c is not None]
                    r2 = [[k, c] for k, c in ((ka, cells[2]), (kb, cells[3])) if c is not None]
                    yield self.single([r1, r2])
        # (2b) rows with EQUAL key sets built in DIFFERENT insertion orders: every tuple of key permutations, one per row,
        #      with values that are distinct per cell (ints / typed), so a value filed under the wrong key is seen
        if quick:
            ksets = [(('x', 'reward'), (2, 3)), (('k1', 'x'), (2, 3)), (('x', 'reward', 'k1'), (2,)), (('k2.5', 'k1', 'reward'), (2,))]
        else:
            ksets = [(ks, (2, 3)) for n in (2, 3) for ks in itertools.combinations(K_ALL, n)] + [(tuple(K_ALL), (2,))]
        for ks, nrows in ksets:
            perms = list(itertools.permutations(ks))
            for n in nrows:
                for ps in itertools.product(perms, repeat=n):
                    for style in ('ints', 'typed'):
                        rows = [[[k, '#%d' % (100 * (i + 1) + ks.index(k)) if style == 'ints' else TYPED[(i + ks.index(k)) % len(TYPED)]]
                                 for k in pm] for i, pm in enumerate(ps)]
                        yield self.single(rows)
        #      and two components of one kind whose params have the same keys in opposite orders
        for comp in ('envs', 'lrns', 'vals'):
            for ka, kb in [('x', 'k1'), ('reward', 'x')] if quick else [(a, b) for a in K_ALL for b in K_ALL if a < b]:
                c = {'envs': [[]], 'lrns': [[]], 'vals': [[]]}
                c[comp] = [[[ka, '#1'], [kb, 'l12']], [[kb, 's_a'], [ka, '#2']]]
                t1 = [0, 0, 0]; t1[('envs', 'lrns', 'vals').index(comp)] = 1
                c['triples'] = [[0, 0, 0], t1]
                c['rows'] = [[[['reward', '#%d' % (10 * i + 1)]]] for i in range(2)]
                c['fail1'] = [0]
                yield c
        # (5) result-file names: every name of FILES (where '.gz' occurs: nowhere, suffix, inside the base name, in a directory,
        #     upper case, without dot) x fresh and restored runs, on one-row columns over V, a mixed column, permuted keys and
        #     multi-triple experiments
        names = list(FILES)
        for v in V: yield dict(self.single([[['x', v]]]), files=names, empty=True)
        yield dict(self.single([[['x', 'l12']], [['x', 'i0']]]), files=names, empty=True)
        yield dict(self.single([[['x', '#1'], ['reward', '#2']], [['reward', '#3'], ['x', '#4']]]), files=names, empty=True)
        for trip, ns, fs in [([[0, 0, 0], [0, 1, 0]], (2, 1), [(0,), (1,), (0, 1)]),
                             ([[0, 0, 0], [0, 1, 0], [1, 0, 0], [1, 1, 0]], (1, 2, 0, 2), [(0,), (3,), (1, 2), (0, 1, 2, 3)]),
                             ([[0, 0, 1], [0, 0, 0], [1, 0, 1], [1, 0, 0]], (2, 0, 1, 1), [(1,), (0, 2), (0, 1, 2, 3)])]:
            for f in fs:
                yield {'envs': [[['x', 'i1']], [['k1', 'l12']]], 'lrns': [[], [['x', 's_a']]], 'vals': [[], [['k2.5', 'none']]],
                       'triples': trip, 'rows': self.multi_rows(ns), 'fail1': list(f), 'files': names, 'empty': True}
        for v in V_TEXT[1:]: yield dict(self.single([[['x', v]]]), files=names, empty=True)
        # (6) text: non-ascii strings and a lone surrogate as recorded values, params and field names (also run in a C-locale child, see post)
        for c in self.text_cases(): yield c
        # (3b) two components of one kind with (possibly ragged) one-key params
        kp = [('x', 'x'), ('x', 'k1'), ('k1', 'x'), ('reward', 'k2.5')] if quick else [(a, b) for a in K_ALL for b in K_ALL]
        for comp in ('envs', 'lrns', 'vals'):
            for ka, kb in kp:
                for v1 in (V_CORE if quick else V_MID):
                    for v2 in (V_CORE if quick else V_MID):
                        c = {'envs': [[]], 'lrns': [[]], 'vals': [[]]}
                        c[comp] = [[[ka, v1]], [[kb, v2]]]
                        pos = ('envs', 'lrns', 'vals').index(comp)
                        t0, t1 = [0, 0, 0], [0, 0, 0]; t1[pos] = 1
                        for trip in ([t0, t1], [t1, t0]):
                            c2 = dict(c); c2['triples'] = trip
                            c2['rows'] = [[[['reward', '#%d' % (10 * i + 1)]]] for i in range(2)]
                            c2['fail1'] = [1]
                            yield c2
        # (4) multi-triple experiments: shapes x list orders x row-count vectors x stage-one failure sets
        shapes = [
            [[0, 0, 0], [0, 1, 0]], [[0, 0, 0], [1, 0, 0]], [[0, 0, 0], [0, 0, 1]],
            [[0, 0, 0], [0, 1, 0], [1, 0, 0], [1, 1, 0]],
            [[1, 1, 0], [0, 0, 0], [1, 0, 0], [0, 1, 0]],
            [[0, 0, 0], [1, 1, 1], [0, 1, 1]],
            [[0, 0, 1], [0, 0, 0], [1, 0, 1], [1, 0, 0]],
            # the SAME triple listed more than once (same objects -> same ids; the learner is deep-copied and evaluated again)
            [[0, 0, 0], [0, 0, 0]], [[0, 0, 0], [0, 1, 0], [0, 0, 0]], [[0, 0, 0], [1, 0, 0], [0, 0, 0], [1, 0, 0]],
        ]
        counts = (0, 1, 2) if quick else (0, 1, 2, 3)
        for trip in shapes:
            T = len(trip)
            if quick and T == 4 and trip[0] == trip[2]: continue
            for ns in itertools.product(counts, repeat=T):
                if sum(ns) == 0: continue
                if not quick and T == 4 and max(ns) == 3 and sum(1 for n in ns if n == 3) > 1: continue
                fsets = [f for r in range(T + 1) for f in itertools.combinations(range(T), r)]
                if T == 4 and quick: fsets = [f for f in fsets if len(f) in (1, 4) or f in ((0, 3), (1, 2))]
                for f in fsets:
                    if not f: continue
                    yield {'envs': [[['x', 'i1']], [['k1', 'l12']]], 'lrns': [[], [['x', 's_a']]], 'vals': [[], [['k2.5', 'none']]],
                           'triples': trip, 'rows': self.multi_rows(ns), 'fail1': list(f)}
        if quick: return
        # thorough: three rows, one key, all of V^3
        for k in K_ALL:
            for vs in itertools.product(V, repeat=3):
                yield self.single([[[k, v]] for v in vs])
        # thorough: two params on one component (all ordered key pairs) over the 10-value alphabet
        for comp in ('envp', 'lrnp', 'valp'):
            for ka, kb in [(a, b) for a in K_ALL for b in K_ALL if a != b]:
                for v1 in V_MID:
                    for v2 in V_MID: yield self.single(**{comp: [[ka, v1], [kb, v2]]})

    # ---------------------------------------------------------------- execution

    def setup(self, tier):
        CobaContext.search_paths = []
        CobaContext.cacher = MemoryCacher()
        self._n = 0

    def _casedir(self):
        self._n += 1
        return os.path.join(_SCRATCH, f'{os.getpid()}-{self._n}')

    def _run(self, case, path, fail_idx, log):
        """One real Experiment.run on fresh components; returns ('ok', snapshot) or ('exc', exception)."""
        CobaContext.logger = NullLogger(ListSink(log))
        CobaContext.cacher = MemoryCacher()
        try:
            res = build(case, fail_idx).run(path, quiet=True, processes=1, maxchunksperchild=0, maxtasksperchunk=0)
            return 'ok', snapshot(res)
        except Exception as e:   # noqa - classified by the caller
            return 'exc', e
        finally:
            CobaContext.logger = NullLogger()

    def _load(self, path):
        try:
            return 'ok', snapshot(Result.from_file(path))
        except Exception as e:   # noqa
            return 'exc', e

    def run_case(self, case, acc):
        if not hasattr(self, '_n'): self.setup('quick')
        exp = Expect(case)
        trip = exp.trip
        allt = list(dict.fromkeys(trip))          # a triple listed twice is one triple of the result (same ids)
        fail1 = list(case.get('fail1') or [])
        mixed = 'some column mixes sequence and non-sequence values' if exp.any_mixed() else 'no mixed column'
        if exp.normalisation_applied() or len(trip) >= 2: acc.mark_nontrivial()

        found = {}          # mode -> {key: what}
        sig = []

        def note(mode, key, what):
            found.setdefault(mode, {}).setdefault(key, what)

        def exc(mode, phase, e):
            note(mode, f'result|raises {type(e).__name__}@{where_raised(e)}|{mixed}', f'{phase} raised {e!a}')

        def check(mode, phase, st, completed, log):
            if st[0] == 'exc':
                exc(mode, phase, st[1]); sig.append((mode, phase, type(st[1]).__name__)); return None
            names = logged_exception_names(log)
            mism = compare(exp, st[1], completed, names)
            if mism and names:
                # the pipeline of Experiment.run failed (the exception was logged, not raised): one key for whatever is missing afterwards
                note(mode, f'result|incomplete Result after Experiment.run logged {"+".join(sorted(set(names)))}|experiment failed',
                     f'[{phase}] {len(mism)} mismatches, first: {mism[0][1]}')
                sig.append((mode, phase, 'logged')); return None
            for key, what in mism:
                note(mode, key, f'[{phase}] {what}')
            return st[1]

        files = list(case.get('files') or STD_FILES)
        stages = ('fresh', 'restored') + (('empty',) if case.get('empty') else ())     # 'empty': the file already exists with 0 bytes
        modes = ['none'] + [f'{stage}:{f}' for stage in stages for f in files]
        casedir = self._casedir()
        snaps = {}
        for mode in modes:
            log = []
            if mode == 'none':
                snaps[mode] = check(mode, 'Experiment.run()', self._run(case, None, (), log), allt, log)
                continue
            stage, ftok = mode.split(':')
            path = os.path.join(casedir, stage, FILES[ftok][0])
            os.makedirs(os.path.dirname(path), exist_ok=True)
            try:
                completed = allt
                if stage == 'restored':
                    failed1 = {trip[i] for i in fail1}
                    done1 = [t for t in dict.fromkeys(trip) if t not in failed1]
                    s1 = self._run(case, path, fail1, log)
                    log1 = [l for l in log if 'EvalFailure' not in str(l)]
                    check(mode, 'stage-one Experiment.run(file)', s1, done1, log1)
                    if not os.path.exists(path):
                        note(mode, 'result|no file written by stage one|file', 'the first run left no result file'); continue
                    log = []
                if stage == 'empty': open(path, 'wb').close()
                st = self._run(case, path, (), log)
                r = check(mode, 'Experiment.run(file)', st, completed, log)
                f = check(mode, 'Result.from_file(file)', self._load(path), completed, log)
                snaps[mode] = r
                if r is not None and is_empty(r): r = None          # already reported as 'all four tables empty'
                if f is not None and is_empty(f): f = None
                if r is not None and f is not None:
                    d = identical(r, f)
                    if d: note(mode, f'identity|Result(run with file) != Result.from_file(file)|{d[0]}', d[1])
                if r is not None and snaps.get('none') is not None:
                    d = identical(snaps['none'], r, strict_columns=stage != 'restored')
                    if d: note(mode, f'identity|Result(no file) != Result(run with file)|{d[0]}', d[1])
            finally:
                if os.path.exists(path): os.unlink(path)
        shutil.rmtree(casedir, ignore_errors=True)

        base = found.get('none', {})
        for key, what in base.items():
            acc.violation(key, what)
        # failures that the no-file run does not show are keyed with the sink modes that show them
        extra = {}
        for mode in modes[1:]:
            for key, what in found.get(mode, {}).items():
                if key not in base: extra.setdefault(key, []).append((mode, what))
        for key, mw in extra.items():
            ms = [m.split(':') for m, _ in mw]
            failing = {m for m, _ in mw}
            if failing == set(modes[1:]): where = 'any result file'
            elif failing == {m for m in modes[1:] if m.split(':')[0] in {st for st, _ in ms}}:      # every file name of these kinds of run
                where = '+'.join({'fresh': 'fresh', 'restored': 'restored', 'empty': 'onto-an-empty-file'}[st] for st in stages if st in {st for st, _ in ms}) + ' runs'
            else:   # the name classes that show it (in FILES order), and the kind of run
                classes = [FILES[f][1] for f in FILES if f in {f for _, f in ms}]
                where = 'file names with ' + ' / '.join(classes) + '; ' + '+'.join(st for st in stages if st in {st for st, _ in ms}) + ' runs'
            acc.violation(f'{key} [only with: {where}]', f'(mode {mw[0][0]}, file {FILES[mw[0][0].split(":")[1]][0]}) {mw[0][1]}')
        # observable outcome signature: verdicts + shape/types of what was read back without a file
        s0 = snaps.get('none')
        shape = None
        if s0 is not None:
            cols, rows = s0[0]['interactions']
            shape = (len(rows), tuple(sorted(set(cols) - set(ID_COLS))), tuple(sorted({vclass(r[c]) for r in rows for c in cols if c not in ID_COLS})))
        acc.outcome((tuple(sorted(k for m in found.values() for k in m)), tuple(sig), shape))
        acc.count('experiment_runs', 1 + (3 + ('empty' in stages)) * len(files))
        acc.count('results_compared', 1 + (5 + 2 * ('empty' in stages)) * len(files))


    # ---------------------------------------------------------------- the same text cases in a child interpreter with a C locale

    def _c_locale_child(self, cases):
        """Run `cases` through run_case in a child python whose locale encoding is ascii (LC_ALL=C, no utf-8 mode, no coercion):
        what DiskSink writes and DiskSource reads must not depend on the locale.  Returns (encoding, [(key, what, witness)])."""
        env = dict(os.environ, LC_ALL='C', LANG='C', PYTHONUTF8='0', PYTHONCOERCECLOCALE='0', PYTHONIOENCODING='ascii:backslashreplace',
                   PYTHONHASHSEED='0', PYTHONPATH=os.pathsep.join([os.path.dirname(os.path.dirname(os.path.dirname(os.path.abspath(__file__)))), REPO]),
                   COBA_REPO=REPO)
        prog = ('import sys,json,locale\nfrom vf.core import Acc\nfrom vf.props.c07 import CHECK\n'
                'cases=json.load(sys.stdin); acc=Acc(0); CHECK.setup("quick")\n'
                'for i,c in enumerate(cases):\n    acc._cur=(i,c); acc._order=0; CHECK.run_case(c,acc)\n'
                'print("C07CHILD"+json.dumps({"enc":locale.getpreferredencoding(False),"v":[[k,v[1],v[2]] for k,v in sorted(acc.violations.items())]}))\n')
        p = subprocess.run([sys.executable, '-B', '-W', 'ignore', '-c', prog], input=json.dumps(cases), env=env, capture_output=True, text=True, timeout=600)
        line = [l for l in p.stdout.split('\n') if l.startswith('C07CHILD')]
        if p.returncode != 0 or not line:
            raise HarnessError(f'C-locale child failed (rc={p.returncode}): {p.stderr[-1500:]}')
        doc = json.loads(line[-1][len('C07CHILD'):])
        return doc['enc'], [tuple(v) for v in doc['v']]

    def post(self, acc, tier):
        cases = [dict(c, c_locale=True) for c in self.text_cases()]
        enc, viol = self._c_locale_child(cases)
        for n, (key, what, witness) in enumerate(viol):
            if key in acc.violations: continue            # the same failure is already reported by the in-process run
            acc.violation(f'{key} [only under a C locale]', f'(child python, locale encoding {enc}) {what}', witness, order=(10 ** 9, n))
        return {'c_locale_child_cases': len(cases), 'c_locale_child_encoding': enc}

    def replay(self, witness, acc):
        if isinstance(witness, dict) and witness.get('c_locale') and not os.environ.get('C07_IN_CHILD'):
            enc, viol = self._c_locale_child([witness])
            for key, what, w in viol: acc.violation(f'{key} [only under a C locale]', f'(child python, locale encoding {enc}) {what}', w)
            return
        return self.run_case(witness, acc)


CHECK = C07()
