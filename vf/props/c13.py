"""C13 - lazy row views are indistinguishable from the eager table they describe (HIST engine).

A case is (source table, pipeline of row filters, output row r).  The pipeline is built from the REAL coba filters
(HeadRows, EncodeRows, DropRows, LabelRows, EncodeCatRows, and ArffReader for the lazy ARFF rows); the same stages
are applied eagerly to plain lists / dicts by the reference model in vf/lib/c13_model.py.  For the case's row every
access history up to the depth bound is executed, each on a FRESH build of the pipeline (a state is the history
reaching it - LazyDense/LazySparse memoise their load and the ARFF line reader carries parser state, so nothing is
merged), and the answer of every access of every history is compared with the eager model's answer for that access.
Because the model's answer does not depend on the history, this decides both halves of the property: the values are
the eager ones, and no access changes what a later access returns.
"""
import sys, itertools, json
from operator import attrgetter

from vf.core import Check
from vf.engines.hist import histories
from vf.lib import c13_model as M
from vf.lib.c13_model import Precond, ENC

from coba.pipes.rows import HeadRows, EncodeRows, DropRows, LabelRows, EncodeCatRows, LazyDense, LazySparse
from coba.pipes.readers import ArffReader
from coba.environments.openml import OpenmlSource
from coba.primitives import Categorical
from coba.context import CobaContext, NullLogger, MemoryCacher

CobaContext.logger = NullLogger()
CobaContext.cacher = MemoryCacher()
CobaContext.search_paths = []

SENTINEL = ('no such value',)


# ------------------------------------------------------------------ deep, type-aware equality of observations

def same(a, b):
    if isinstance(a, Categorical) or isinstance(b, Categorical):
        return (isinstance(a, Categorical) and isinstance(b, Categorical) and str(a) == str(b)
                and list(a.levels) == list(b.levels))
    if type(a) is not type(b): return False
    if isinstance(a, (list, tuple)): return len(a) == len(b) and all(map(same, a, b))
    if isinstance(a, dict): return a.keys() == b.keys() and all(same(a[k], b[k]) for k in a)
    return a == b


def _sorted_items(items):
    return sorted(([k, v] for k, v in items), key=lambda kv: repr(kv[0]))


def _sorted_keys(keys):
    return sorted(keys, key=repr)


# ------------------------------------------------------------------ the real pipeline

def _mk_pred(pred, before: M.Tbl):
    if pred is None: return None
    if pred[0] == 'missing': return attrgetter('missing')
    _, key, j = pred
    if before.kind == 'dense':
        c = before.headers[key] if isinstance(key, str) else key
        val = before.rows[j][c]
        return lambda row: row[key] == val
    val = before.rows[j][key]
    return lambda row: key in row.keys() and row[key] == val


def make_filter(st, before: M.Tbl):
    k = st[0]
    if k == 'head': return HeadRows(list(st[1]))
    if k in ('headmap', 'shead'): return HeadRows({h: i for h, i in st[1]})
    if k == 'enc':
        if st[1] == 'list': return EncodeRows([ENC[e] for e in st[2]])
        return EncodeRows({kk: ENC[e] for kk, e in st[2]})
    if k == 'drop': return DropRows(drop_cols=list(st[1]), drop_row=_mk_pred(st[2], before))
    if k == 'label': return LabelRows(st[1], st[2])
    if k == 'cat': return EncodeCatRows(st[1])
    raise ValueError(st)


def _lazy_dense(raw, enc_names=None, hdr_names=None):
    """LazyDense rows wired like ArffReader does (loader callable, one encoder per column, header map, missing flag)."""
    encs = tuple(ENC[e] for e in (enc_names or M.LZ_ENC))
    hdr = {h: i for i, h in enumerate(hdr_names or M.LZ_HDR)}
    return [LazyDense((lambda r=r: r), encs, hdr, False) for r in raw]


def _lazy_sparse(raw):
    """LazySparse rows wired like ArffReader does (encoders by column number, not-sparse set, forward / inverse header maps)."""
    encs = {k: ENC[e] for k, e in M.LZS_ENC.items()}
    fwd = {h: i for i, h in enumerate(M.LZ_HDR)}
    inv = {i: h for i, h in enumerate(M.LZ_HDR)}
    nsp = {k for k, e in encs.items() if e('0') != 0}
    return [LazySparse((lambda r=r: r), encs, nsp, fwd, inv, False) for r in raw]


class Plan:
    """Everything about a (source, stages) pair that does not involve live coba objects: the eager tables before
    every stage and the final eager table."""
    def __init__(self, src, stages):
        self.src, self.stages = src, stages
        self.before = []
        t = M.source_model(src)
        for st in stages:
            self.before.append(t)
            t = M.m_apply(t, st)
        self.final = t

    def build(self, filters=None):
        """Fresh real row objects for the whole output table (through fresh filter objects, or through the given ones)."""
        kind, raw = M.source_raw(self.src)
        if kind == 'arff': rows = ArffReader().filter(raw)
        elif kind == 'lazydense': rows = _lazy_dense(raw)
        elif kind == 'lazydense-r': rows = _lazy_dense(raw, M.LZR_ENC, M.LZR_HDR)
        elif kind == 'lazysparse': rows = _lazy_sparse(raw)
        else: rows = raw
        if filters is None: filters = [make_filter(st, before) for st, before in zip(self.stages, self.before)]
        for flt in filters:
            rows = flt.filter(rows)
        return list(rows)


# ------------------------------------------------------------------ access alphabet and the model's answers

def ops_for(t: M.Tbl, r, reduced=False):
    """Accesses valid on output row r of eager table t.  `reduced`: one representative per kind of access."""
    ops = []
    if t.kind == 'dense':
        n, H = t.n, (list(t.headers) if t.headers else None)
        idx = list(range(n))
        if reduced: idx = idx[-1:]
        ops += [['i', i] for i in idx]
        if H: ops += [['h', h] for h in (H[:1] if reduced else H)]
        ops += [['list'], ['len'], ['eq']]
        if not reduced: ops += [['ne']]
        ops += [['copy']]
        if t.label is not None:
            fi = list(range(n - 1))
            ops += [['feats'], ['label']]
            ops += [['feats_i', i] for i in (fi[-1:] if reduced else fi)]
            if not reduced: ops += [['feats_len'], ['feats_eq'], ['tipe'], ['labeled']]
    else:
        ks = _sorted_keys(t.rows[r])
        ops += [['k', kk] for kk in (ks[-1:] if reduced else ks)]
        ops += [['items'], ['len'], ['eq'], ['keys']]
        if not reduced: ops += [['iter'], ['ne'], ['copy']]
        if t.label is not None:
            fk = [kk for kk in ks if kk != t.label[0]]
            ops += [['feats'], ['label']]
            ops += [['feats_k', kk] for kk in (fk[-1:] if reduced else fk)]
            if not reduced: ops += [['feats_len'], ['feats_keys'], ['feats_eq'], ['tipe'], ['labeled']]
    if not reduced and t.missing is not None and r is not None and t.missing[r] is not None: ops += [['missing']]
    if len(t.rows) >= 2: ops += [['other']]
    return ops


def expect(t: M.Tbl, r, op):
    k = op[0]
    V = t.rows[r]
    if k == 'missing': return t.missing[r]
    if t.kind == 'dense':
        if t.label is not None:
            ind, tipe = t.label
            F = V[:ind] + V[ind + 1:]
        if k == 'i': return V[op[1]]
        if k == 'h': return V[t.headers[op[1]]]
        if k in ('list', 'copy'): return list(V)
        if k == 'len': return len(V)
        if k in ('eq', 'feats_eq'): return True
        if k == 'ne': return [False, False, False]
        if k == 'feats': return F
        if k == 'feats_i': return F[op[1]]
        if k == 'feats_len': return len(F)
        if k == 'label': return V[ind]
        if k == 'tipe': return tipe
        if k == 'labeled': return [F, V[ind], tipe]
        if k == 'other': return list(t.rows[(r + 1) % len(t.rows)])
    else:
        if t.label is not None:
            key, tipe = t.label
            F = {kk: v for kk, v in V.items() if kk != key}
        if k == 'k': return V[op[1]]
        if k in ('items', 'copy'): return _sorted_items(V.items())
        if k in ('keys', 'iter'): return _sorted_keys(V)
        if k == 'len': return len(V)
        if k in ('eq', 'feats_eq'): return True
        if k == 'ne': return [False, False, False]
        if k == 'feats': return _sorted_items(F.items())
        if k == 'feats_k': return F[op[1]]
        if k == 'feats_len': return len(F)
        if k == 'feats_keys': return _sorted_keys(F)
        if k == 'label': return V[key]
        if k == 'tipe': return tipe
        if k == 'labeled': return [_sorted_items(F.items()), V[key], tipe]
        if k == 'other': return _sorted_items(t.rows[(r + 1) % len(t.rows)].items())
    raise ValueError(op)


def access(t: M.Tbl, r, rows, op):
    """Perform one access on the REAL row object (may raise)."""
    row = rows[r]
    k = op[0]
    dense = t.kind == 'dense'
    V = t.rows[r]
    if k in ('i', 'h', 'k'): return row[op[1]]
    if k == 'missing': return row.missing
    if k == 'list': return list(row)
    if k == 'len': return len(row)
    if k == 'eq': return row == (list(V) if dense else dict(V))
    if k == 'ne':
        if dense:
            alts = [V[:-1] + [SENTINEL], V[:-1], V + [SENTINEL]]
        else:
            k0 = _sorted_keys(V)[-1] if V else None
            alts = [{**V, k0: SENTINEL} if V else {'zz': 1}, {kk: v for kk, v in V.items() if kk != k0} if V else {'zz': 2}, {**V, 'zz': SENTINEL}]
        return [row == a for a in alts]
    if k == 'copy':
        c = row.copy()
        return list(c) if dense else _sorted_items(c.items())
    if k == 'items': return _sorted_items(row.items())
    if k == 'keys': return _sorted_keys(row.keys())
    if k == 'iter': return _sorted_keys(iter(row))
    if k == 'feats':
        f = row.feats
        return list(f) if dense else _sorted_items(f.items())
    if k in ('feats_i', 'feats_k'): return row.feats[op[1]]
    if k == 'feats_len': return len(row.feats)
    if k == 'feats_keys': return _sorted_keys(row.feats.keys())
    if k == 'feats_eq':
        if dense:
            ind = t.label[0]
            return row.feats == (V[:ind] + V[ind + 1:])
        return row.feats == {kk: v for kk, v in V.items() if kk != t.label[0]}
    if k == 'label': return row.label
    if k == 'tipe': return row.tipe
    if k == 'labeled':
        f, l, tp = row.labeled
        return [list(f) if dense else _sorted_items(f.items()), l, tp]
    if k == 'other':                      # read the neighbouring row in every whole-row way (shared state between rows)
        o = rows[(r + 1) % len(rows)]
        if dense:
            len(o)
            return list(o)
        len(o); list(o.keys())
        return _sorted_items(o.items())
    raise ValueError(op)


OPKIND = {'i': 'row[position]', 'h': 'row[header name]', 'k': 'row[key]', 'list': 'list(row)', 'len': 'len(row)',
          'eq': 'row == eager row', 'ne': 'row == a different row', 'copy': 'row.copy()', 'items': 'row.items()',
          'keys': 'row.keys()', 'iter': 'iter(row)', 'feats': 'row.feats', 'feats_i': 'row.feats[position]',
          'feats_k': 'row.feats[key]', 'feats_len': 'len(row.feats)', 'feats_keys': 'row.feats.keys()',
          'feats_eq': 'row.feats == eager feats', 'label': 'row.label', 'tipe': 'row.tipe', 'labeled': 'row.labeled',
          'other': 'reading the neighbouring row', 'missing': 'row.missing'}


FAMILY = {'i': 'row[position]', 'h': 'row[header name]', 'k': 'row[key]', 'list': 'whole row', 'items': 'whole row',
          'copy': 'whole row', 'eq': 'whole row', 'len': 'len/keys/iter', 'keys': 'len/keys/iter', 'iter': 'len/keys/iter',
          'ne': 'inequality', 'feats': 'feats', 'feats_i': 'feats', 'feats_k': 'feats', 'feats_len': 'feats',
          'feats_keys': 'feats', 'feats_eq': 'feats', 'labeled': 'feats', 'label': 'label', 'tipe': 'label',
          'other': 'neighbouring row', 'build': 'building the pipeline', 'missing': 'missing flag'}
STAGE_CLASS = {'head': 'Head', 'headmap': 'Head', 'shead': 'Head', 'enc': 'Encode', 'drop': 'Drop', 'label': 'Label', 'cat': 'EncodeCat'}
SRC_CLASS = {'dl': 'dense lists', 'dc': 'dense lists', 'sk': 'sparse dicts', 'si': 'sparse dicts', 'sc': 'sparse dicts',
             'ad': 'lazy ARFF dense', 'as': 'lazy ARFF sparse', 'aq': 'lazy ARFF dense', 'lz': 'LazyDense rows', 'lzs': 'LazySparse rows',
             'lzr': 'LazyDense rows', 'ae': 'lazy ARFF dense', 'aes': 'lazy ARFF sparse',
             'adt': 'lazy ARFF dense', 'aet': 'lazy ARFF dense', 'aq4': 'lazy ARFF dense', 'od': 'lazy ARFF dense', 'os': 'lazy ARFF sparse'}
SIMPLER_SRC = {'dc': ['dl'], 'aq': ['ad'], 'si': ['sk'], 'sc': ['sk'], 'as': ['sk'], 'lzs': ['sk', 'as'], 'lz': ['ad'], 'lzr': ['lz'], 'ae': ['ad'], 'aes': ['as'], 'adt': ['ad'], 'aet': ['ae', 'adt']}


def chain_text(src, stages):
    return (' > '.join(M.stage_kind(s) for s in stages) or 'no stage') + ' on ' + M.SRC_KIND[src]


def chain_class(src, stages):
    """Coarse feature of a violation key: stage classes and source class only (no parameters)."""
    return (' > '.join(STAGE_CLASS[s[0]] for s in stages) or 'no stage') + ' on ' + SRC_CLASS[src]


def run_history(plan: Plan, r, hist, filters=None):
    """Execute one history on a fresh build (or a build through the given, already used, filter objects).
    -> list of (position, op, mode, got, want) for every failing access, or [(-1, ['build'], ...)] when the pipeline itself fails."""
    t = plan.final
    try:
        rows = plan.build(filters)
    except Exception as e:   # noqa
        return [(-1, ['build'], f'raises {type(e).__name__}', repr(e), f'{len(t.rows)} rows')], None
    if len(rows) != len(t.rows):
        return [(-1, ['build'], 'wrong number of rows', len(rows), len(t.rows))], rows
    fails = []
    for p, op in enumerate(hist):
        want = expect(t, r, op)
        try:
            got = access(t, r, rows, op)
        except Exception as e:   # noqa
            fails.append((p, op, f'raises {type(e).__name__}', repr(e), want))
            continue
        if not same(got, want):
            fails.append((p, op, 'wrong value', got, want))
    return fails, rows


class C13(Check):
    ID = 'C13'
    LEVEL = 'model_checking'
    ENGINE = 'HIST'
    RULE = ('cases = (source table, pipeline, output row): 15 sources (dense lists, dense lists with a Categorical column, sparse '
            'dicts with str / int keys / a Categorical entry, ARFF dense, ARFF sparse with default-zero entries, ARFF dense with '
            'mixed quoting, LazyDense / LazySparse rows wired like ArffReader but with non-idempotent encoders and "?" / "" cells, a LazyDense table with another header order, ARFF dense / sparse tables whose cells are the values the lazy rows special-case: empty string quoted and bare, ?, quoted ?, a nominal level named ?, 0, None in numeric / string / nominal attributes, TAB-separated twins of the dense ARFF tables with the marker ? in a first / middle / last cell) x every pipeline of <=2 (thorough <=3) stages from the stage alphabet valid for the table shape '
            '(HeadRows list / mapping in another order than the columns / PARTIAL mapping leaving a column unnamed / mapping giving one column TWO names, EncodeRows list / dict by index / dict by header, DropRows cols by index / by name / row '
            'predicate by index / by name / missing, LabelRows by index / by name with c,r,m, EncodeCatRows onehot / '
            'onehot_tuple / string) x every output row, simplest first; inside a case EVERY access history of length <=2 over the '
            'full access alphabet of that row (every position, every header name / key, list, len, ==, !=, copy, items, keys, '
            'iter, feats (list, every position / key, len, keys, ==), label, tipe, labeled, row.missing on lazy rows, and reading the '
            'neighbouring row) and every history of length 3 over one representative access per kind is executed on a fresh build of '
            'the real pipeline and every answer is compared with the eager model.  PLUS re-use cases = (table 1, table 2, pipeline valid on both): ONE set of real filter objects is applied to table 1, to a different table 2 '
            '(unheaded / headed / other header order / other names / sparse keyed by name or by column number / the same table for the Categorical ones) and to table 1 again, '
            'and after every application every access of the full alphabet on every output row is compared with the eager model of that table.  '
            'PLUS openml cases = OpenmlSource (data id / task id, drop_missing on / off) served from a memory cacher with a dense and a sparse ARFF dataset holding a row identifier, an ignored, a string, numeric and nominal features and a missing value, the target being each column in turn; every access on every row it yields is compared with the eager table (ignored columns and, if asked, rows with missing values removed, target selected).  '
            'PLUS reader cases = ONE ArffReader object reads lazy file 1 and then lazy file 2 (every ordered pair of 10 files: dense / sparse, comma / TAB separated, every quote kind, special cells, openml-like) x which rows of file 1 are first accessed before the second read (none / the first / all) x whether the remaining rows of file 1 or the rows of file 2 are accessed first; every access on every row of both tables and of file 1 read a third time is compared with the eager table of its own file.  '
            'PLUS cross-row order cases = for every lazy file (ARFF dense / sparse incl. a 4-line file whose lines have no quote, both quote kinds, single quotes, double quotes; LazyDense / LazySparse) EVERY order of first-accessing its rows (by list / by one item / by len), after which every access of the full alphabet on every row is compared with the eager table.  '
            'PLUS feats cases = the feats of every labelled dense pipeline fed to one more stage (EncodeRows list / dict by index / dict by a header that keeps its position, DropRows by index / by such a header), i.e. a stage that sees rows whose header map has more entries than the row has columns.  '
            'A case is non-trivial when the row object is a lazy view (not a list/dict) or an EncodeCatRows stage rewrote it; every re-use case (>=1 stage), every feats case and every order case with a non-natural order is non-trivial')
    ASSUMPTIONS = [
        'only valid keys are accessed (positions 0..len-1, header names / keys present in the eager row); negative positions, dropped or unknown names are not constrained',
        'LabelRows is the last stage of a pipeline (as everywhere in coba); feats is accessed by position / key, iteration, len, == only (by-header access on feats is not demanded)',
        'EncodeCatRows is applied to materialised list / dict rows only (it documents no effect on lazy views), with the categorical column present in every row and determined by the first row',
        'sparse semantics follow coba\'s stated convention: an absent entry is "0"; EncodeRows makes it explicit iff its encoder maps "0" to something != 0; LabelRows shows an absent label entry as 0; ARFF sparse categorical attributes default to level "0"',
        'EncodeRows list forms have one encoder per column; dict forms do not name one column twice (by name and by index); encoders are total functions',
        'order of keys / items of sparse rows and the container type returned by copy() are not constrained; values are compared deeply including their types',
        'row.headers itself is not read by the check (it is exercised through by-name stages and row[name])',
        'a row predicate is evaluated by DropRows on the upstream row; predicates are equality tests on one cell or attrgetter("missing") on ARFF rows',
        'ARFF cell conventions are coba\'s: ? is missing (None) unless the nominal attribute declares a level ?, an empty cell is "" in a string attribute and None in a numeric / nominal one; an encoder that accepts "?" or "" is applied to it',
        'row.missing of a lazy ARFF row = some cell of the written data line is the bare marker ? (also where a nominal attribute declares a level ?); a row holding a QUOTED ? is left open: its flag is not read and DropRows(missing) is not applied to that table (C12 lists that question)',
        'a header map may name only some columns and may give one column several names: row[name], EncodeRows / DropRows / LabelRows by name act on the column the name maps to; an EncodeRows dict does not address one column through two of its keys',
        'a stage applied to row.feats and naming a column by header may act on that column or leave the table alone (coba keeps no header support on feats); length, positions and every other column are exact',
        'LabelRows given a POSITION on header-keyed sparse rows (sparse ARFF, HeadRows over dicts) selects the header at that position of the file / header map, also through DropRows / EncodeRows stages in between',
        'OpenmlSource: a feature is ignored when is_ignore or is_row_identifier is true or its data_type is neither numeric nor nominal, except the target; only the rows it yields are compared (json descriptions are trusted)',
        'a reader-case answer is a violation only if a fresh ArffReader gives the eager answer for the same access',
        're-use cases contain only stages whose parameters do not depend on one table\'s cells (no cell-equality row predicates); a re-use answer is a violation only if fresh filter objects give the eager answer for the same access',
        '"RuntimeError: generator ignored GeneratorExit" raised inside LazyDense._enc_all when an iteration is abandoned at a ? / "" cell is reported by CPython as unraisable, changes no value and is only counted',
    ]
    TECHNIQUE = ('explicit-state exploration of access histories on one real row object (replay from scratch, no state merging) x '
                 'bounded-exhaustive enumeration of filter pipelines, against an eager plain list/dict reference model')
    LEVEL_TEXT = ('For every pipeline of <=2 (thorough <=3) row filters over 15 small source tables and every output row, every access '
                  'history of length <=2 over the full access alphabet and of length 3 over one access per kind is executed on freshly '
                  'built real row objects; every answer is compared with the eager table, so both "values equal the eager ones" and '
                  '"no access changes later answers" are decided for every history below the bound; filter objects are additionally re-used across two different tables (table 1, table 2, table 1) and every answer compared with the eager table of its own table.')
    LEVEL_NOTE = ('small-scope: tables of 2-3 rows x 3 columns, <=3 stages, histories <=3; only valid keys; LabelRows last; '
                  'EncodeCatRows on materialised rows only')
    MIN_NONTRIVIAL = {'quick': 12000, 'thorough': 100000}
    CASE_TIMEOUT = 60

    # -------------------------------------------------------------- harness hygiene
    _genexit = 0

    def setup(self, tier):
        # LazyDense._enc_all yields inside a bare try/except: closing the generator at a '?' / '' cell (a comparison that
        # stops early there) makes CPython report "RuntimeError: generator ignored GeneratorExit" through the unraisable hook.
        # No value is affected, so it is no C13 violation; it is counted (counter unraisable_generator_ignored_GeneratorExit)
        # instead of flooding stderr.  Every other unraisable exception is still printed.
        old = sys.unraisablehook

        def hook(u, _old=old):
            if isinstance(u.exc_value, RuntimeError) and 'generator ignored GeneratorExit' in str(u.exc_value):
                C13._genexit += 1
                return
            _old(u)
        if getattr(old, '_c13', False) is False:
            hook._c13 = True
            sys.unraisablehook = hook

    # -------------------------------------------------------------- enumeration
    def pipelines(self, tier):
        maxst = 2 if tier == 'quick' else 3
        for nst in range(0, maxst + 1):
            for src in M.SOURCES:
                yield from self._extend(src, M.source_model(src), [], nst, wide=(nst <= 2 and not (tier == 'quick' and nst == 2)))

    def _extend(self, src, t, stages, todo, wide):
        if todo == 0:
            yield src, stages, t
            return
        for st in M.stage_options(t, wide):
            try:
                t2 = M.m_apply(t, st)
            except Precond:
                continue
            yield from self._extend(src, t2, stages + [st], todo - 1, wide)

    def cases(self, tier):
        for src, stages, t in self.pipelines(tier):
            if not t.rows:
                yield {'src': src, 'stages': stages, 'row': None}
            for r in range(len(t.rows)):
                yield {'src': src, 'stages': stages, 'row': r}
        # OpenmlSource: the reading pipeline it wires (ArffReader | DropRows(ignored columns, missing rows) | LabelRows(target))
        for ds in M.OPENML:
            for c in M.OPENML[ds]['cols']:
                for dm in (True, False):
                    yield {'openml': ds, 'target': c[0], 'drop_missing': dm}
            for task_type in (1, 2):
                yield {'openml': ds, 'target': 'y', 'drop_missing': True, 'task': task_type}
        # ONE ArffReader object on two different lazy files x when the rows of the first file are first accessed
        files = self.READER_FILES
        for f1 in files:
            for f2 in files:
                for pre in ('none', 'first', 'all'):
                    for order in ('t1-first', 't2-first'):
                        yield {'reader': [f1, f2], 'pre': pre, 'post': order}
        # cross-row access orders: every order of first-accessing the rows of one lazy file
        for src in M.ORDER_SOURCES:
            n = len(M.source_model(src).rows)
            for perm in itertools.permutations(range(n)):
                for touch in ('list', 'item', 'len'):
                    yield {'order': src, 'perm': list(perm), 'touch': touch}
        # row.feats of a labelled dense pipeline as the input of one more stage
        for src, stages, t in self.pipelines(tier):
            if t.label is None or t.kind != 'dense' or not t.rows: continue
            for then in self.feats_then_options(t):
                yield {'feats': src, 'stages': stages, 'then': then}
        # re-use: the same filter objects on table 1, a different table 2, table 1 again
        maxst = 2 if tier == 'quick' else 3
        for nst in range(1, maxst + 1):
            for s1, s2 in M.reuse_pairs():
                for stages in self._extend2(M.source_model(s1), M.source_model(s2), [], nst, wide=(nst <= 2)):
                    yield {'reuse': [s1, s2], 'stages': stages}

    def _extend2(self, t1, t2, stages, todo, wide):
        """Stage lists valid (per the precondition table) on both tables; predicates bound to one table's cells are left out."""
        if todo == 0:
            yield stages
            return
        for st in M.stage_options(t1, wide):
            if st[0] == 'drop' and st[2] is not None and st[2][0] == 'eqrow': continue
            try:
                n1 = M.m_apply(t1, st); n2 = M.m_apply(t2, st)
            except Precond:
                continue
            yield from self._extend2(n1, n2, stages + [st], todo - 1, wide)

    # -------------------------------------------------------------- one case
    def run_case(self, case, acc):
        n0 = C13._genexit
        try:
            if 'reuse' in case: return self.run_reuse(case, acc)
            if 'order' in case: return self.run_order(case, acc)
            if 'reader' in case: return self.run_reader(case, acc)
            if 'openml' in case: return self.run_openml(case, acc)
            if 'feats' in case: return self.run_feats(case, acc)
            return self._run_case(case, acc)
        finally:
            if C13._genexit != n0: acc.count('unraisable_generator_ignored_GeneratorExit', C13._genexit - n0)

    def _run_case(self, case, acc):
        src, stages, r = case['src'], case['stages'], case['row']
        plan = Plan(src, stages)
        t = plan.final
        if 'hist' in case:                       # replay of one recorded history
            hs = [[list(o) for o in case['hist']]]
        elif r is None:
            hs = [[]]
        else:
            full = ops_for(t, r)
            red = ops_for(t, r, reduced=True)
            hs = [list(h) for h in histories(full, 2)] + [list(h) for h in histories(red, 3, 3)]
        alone_bad = set()
        reported = set()
        first_rows = None
        for hi, h in enumerate(hs):
            fails, rows = run_history(plan, r, h)
            if first_rows is None: first_rows = rows
            acc.states += 1; acc.transitions += len(h); acc.traces += 1
            if not fails:
                continue
            for p, op, mode, got, want in fails:
                if p == -1:
                    self._report(acc, case, plan, r, h, op, mode, got, want, hi, reported)
                    break
                if len(h) == 1:
                    alone_bad.add(repr(op))
                    if op[0] == 'other': continue      # the neighbouring row's own content is reported by that row's case
                if len(h) > 1 and repr(op) in alone_bad: continue          # already reported by the one-access history
                if len(h) > 1:
                    # the access is right on a fresh row but wrong after the earlier accesses of this history
                    f1, _ = run_history(plan, r, [op])
                    if not f1: mode = 'depends on earlier accesses (' + mode + ')'
                    else: alone_bad.add(repr(op)); continue
                self._report(acc, case, plan, r, h[:p + 1], op, mode, got, want, hi, reported)
            if first_rows is None and fails and fails[0][0] == -1: break    # the pipeline cannot be built: nothing to access
        # vacuity bookkeeping
        if first_rows is not None and r is not None and r < len(first_rows):
            row = first_rows[r]
            lazy = not isinstance(row, (list, tuple, dict))
            if lazy or any(s[0] == 'cat' for s in stages): acc.mark_nontrivial()
            acc.outcome((type(row).__name__, t.kind, t.n if t.kind == 'dense' else len(t.rows[r]), (len(t.headers) if t.headers is not None else -1), t.label is not None))
            acc.count('rows_' + type(row).__name__)
        acc.count('histories', len(hs))

    # -------------------------------------------------------------- OpenmlSource (served from a memory cacher, no network)
    def run_openml(self, case, acc):
        ds, target, dm, task = case['openml'], case['target'], case['drop_missing'], case.get('task')
        acc.count('openml_cases'); acc.states += 1; acc.traces += 1; acc.mark_nontrivial()
        # the eager table: ignored / row-identifier / non numeric-nominal columns removed (never the target), rows with a
        # missing value removed when asked, target selected
        stages = [['drop', M.openml_ignored(ds, target), ['missing'] if dm else None], ['label', target, {None: None, 1: 'c', 2: 'r'}[task]]]
        plan = Plan(ds, stages)
        t = plan.final
        old = (CobaContext.cacher, getattr(CobaContext, 'store', None), CobaContext.api_keys)
        try:
            CobaContext.cacher = MemoryCacher(); CobaContext.store = {}; CobaContext.api_keys = {'openml': None}
            did, tid = 7, 9
            descr = {'data_set_description': {'id': str(did), 'file_id': '1', 'status': 'active', 'default_target_attribute': target}}
            CobaContext.cacher.get_set(f'openml_{did:0>6}_data', json.dumps(descr).splitlines())
            CobaContext.cacher.get_set(f'openml_{did:0>6}_feat', json.dumps({'data_features': {'feature': M.openml_features(ds)}}).splitlines())
            CobaContext.cacher.get_set(f'openml_{did:0>6}_arff', M.openml_arff(ds))
            if task:
                tdescr = {'task': {'task_type_id': str(task), 'input': [{'name': 'source_data', 'data_set': {'data_set_id': str(did), 'target_feature': target}}]}}
                CobaContext.cacher.get_set(f'openml_{tid:0>6}_task', json.dumps(tdescr).splitlines())
                src = OpenmlSource(task_id=tid, drop_missing=dm)
            else:
                src = OpenmlSource(data_id=did, drop_missing=dm)
            fail = None
            try:
                rows = list(src.read())
            except Exception as e:   # noqa
                fail = (None, ['build'], f'raises {type(e).__name__}', repr(e), f'{len(t.rows)} rows')
            if fail is None and len(rows) != len(t.rows):
                fail = (None, ['build'], 'wrong number of rows', len(rows), len(t.rows))
            if fail is None:
                for r in range(len(rows)):
                    for op in ops_for(t, r):
                        if op[0] == 'other': continue
                        want = expect(t, r, op)
                        acc.transitions += 1
                        try:
                            got = access(t, r, rows, op); mode = None if same(got, want) else 'wrong value'
                        except Exception as e:   # noqa
                            got, mode = repr(e), f'raises {type(e).__name__}'
                        if mode: fail = (r, op, mode, got, want); break
                    if fail: break
        finally:
            CobaContext.cacher, CobaContext.store, CobaContext.api_keys = old[0], (old[1] if old[1] is not None else {}), old[2]
        acc.outcome(('openml', ds, len(t.rows), fail is None))
        if fail is None: return
        r, op, mode, got, want = fail
        # the same pipeline wired by hand from fresh filters: if it fails the same access the ordinary cases own the finding
        f2, _ = run_history(plan, r, [op] if op[0] != 'build' else [])
        if any(f[1] == op and f[2] == mode for f in f2): return
        kind = 'sparse' if M.OPENML[ds]['sparse'] else 'dense'
        key = f'OpenmlSource|{FAMILY[op[0]]}: {mode}|{kind} ARFF dataset'
        what = (f'OpenmlSource({"task" if task else "data"} id, drop_missing={dm}) on the {kind} dataset with target {target!r}: output row {r}, '
                f'the access {op} gave {got!r}; the eager table (ignored columns {M.openml_ignored(ds, target)} and '
                f'{"rows with missing values " if dm else "no rows "}removed, target selected) gives {want!r}')
        acc.violation(key, what, case, order=(0, 7, acc._cur[0] if acc._cur else 0))

    # -------------------------------------------------------------- one ArffReader object, two files
    READER_FILES = ['ad', 'adt', 'aq', 'aq4', 'ae', 'aet', 'as', 'aes', 'od', 'os']

    def run_reader(self, case, acc):
        (f1, f2), pre, post = case['reader'], case['pre'], case['post']
        acc.count('reader_cases'); acc.states += 3; acc.traces += 1; acc.mark_nontrivial()
        t1, t2 = M.source_model(f1), M.source_model(f2)

        def touch(t, rows, which):
            for r in which:
                try:
                    list(rows[r]) if t.kind == 'dense' else dict(rows[r].items())
                except Exception:   # noqa  (judged below, access by access)
                    pass
                acc.transitions += 1

        def compare(t, rows, src, where):
            if len(rows) != len(t.rows): return (where, src, None, ['build'], 'wrong number of rows', len(rows), len(t.rows))
            for r in range(len(rows)):
                for op in ops_for(t, r):
                    if op[0] == 'other': continue
                    want = expect(t, r, op)
                    acc.transitions += 1
                    try:
                        got = access(t, r, rows, op); mode = None if same(got, want) else 'wrong value'
                    except Exception as e:   # noqa
                        got, mode = repr(e), f'raises {type(e).__name__}'
                    if mode is None: continue
                    f_fresh, _ = run_history(Plan(src, []), r, [op])
                    if f_fresh: continue                       # a fresh reader fails too: the ordinary cases own it
                    return (where, src, r, op, mode, got, want)
            return None

        reader = ArffReader()
        fail = None
        try:
            rows1 = list(reader.filter(M.source_raw(f1)[1]))
            n1 = len(rows1)
            early = [] if pre == 'none' else [0] if pre == 'first' else list(range(n1))
            touch(t1, rows1, early)                            # rows of the first file accessed BEFORE the reader is used again
            rows2 = list(reader.filter(M.source_raw(f2)[1]))
            late = [r for r in range(n1) if r not in early]
            if post == 't1-first':
                touch(t1, rows1, late); touch(t2, rows2, range(len(rows2)))
            else:
                touch(t2, rows2, range(len(rows2))); touch(t1, rows1, late)
            fail = compare(t1, rows1, f1, 'first file') or compare(t2, rows2, f2, 'second file')
            if fail is None:
                rows3 = list(reader.filter(M.source_raw(f1)[1]))
                fail = compare(t1, rows3, f1, 'first file read again')
        except Exception as e:   # noqa
            fail = ('reader', f1, None, ['build'], f'raises {type(e).__name__}', repr(e), 'rows')
        acc.outcome(('reader', f1, f2, fail is None))
        if fail is None: return
        where, src, r, op, mode, got, want = fail
        key = f're-used ArffReader object|{FAMILY[op[0]]}: {mode} on the {where}|{SRC_CLASS[f1]} then {SRC_CLASS[f2]}'
        what = (f'one ArffReader object read {M.SRC_KIND[f1]} and then {M.SRC_KIND[f2]} (rows of the first file first accessed before the second read: {pre}; '
                f'afterwards {post}): {where}, row {r}: the access {op} gave {got!r}; the eager table (and a fresh reader) give {want!r}')
        acc.violation(key, what, case, order=(0, 6, acc._cur[0] if acc._cur else 0))

    # -------------------------------------------------------------- cross-row access orders of one lazy file
    def run_order(self, case, acc):
        src, perm, touch = case['order'], case['perm'], case['touch']
        plan = Plan(src, [])
        t = plan.final
        dense = t.kind == 'dense'
        acc.count('order_cases'); acc.states += 1; acc.traces += 1
        if perm != sorted(perm): acc.mark_nontrivial()
        try:
            rows = plan.build()
        except Exception:   # noqa  (the ordinary cases report a table that cannot be read)
            return
        if len(rows) != len(t.rows): return
        for r in perm:                      # first access of every row, in the order of the case
            try:
                row = rows[r]
                if touch == 'len': len(row)
                elif touch == 'item': row[0 if dense else _sorted_keys(t.rows[r])[0]]
                else: list(row) if dense else dict(row.items())
            except Exception:   # noqa  (judged below, access by access)
                pass
            acc.transitions += 1
        for r in range(len(rows)):
            for op in ops_for(t, r):
                if op[0] == 'other': continue
                want = expect(t, r, op)
                acc.transitions += 1
                try:
                    got = access(t, r, rows, op); mode = None if same(got, want) else 'wrong value'
                except Exception as e:   # noqa
                    got, mode = repr(e), f'raises {type(e).__name__}'
                if mode is None: continue
                f1, _ = run_history(plan, r, [op])
                if not f1: mode = f'depends on the order in which the rows of the file were first accessed ({mode})'
                key = f'{type(rows[r]).__name__}|{FAMILY[op[0]]}: {mode}|no stage on {SRC_CLASS[src]}'
                what = (f'{M.SRC_KIND[src]}: after first-accessing the rows in the order {perm} (by {touch}), row {r}: the access {op} gave '
                        f'{got!r}, the eager table gives {want!r}')
                acc.violation(key, what, case, order=(0, len(perm), acc._cur[0] if acc._cur else 0))
                return
        acc.outcome(('order', src, len(perm)))

    # -------------------------------------------------------------- row.feats as the input of one more stage
    @staticmethod
    def feats_then_options(t):
        ind = t.label[0]
        m = t.n - 1
        if m < 1: return []
        out = [['enc', 'list', [['I', 'A', 'B'][i % 3] for i in range(m)]], ['enc', 'dict', [[0, 'A']]]]
        if m >= 2: out += [['enc', 'dict', [[m - 1, 'B']]], ['drop', [0], None]]
        before = [h for h, i in (t.headers or {}).items() if i < ind]       # names whose column keeps its position in feats
        if before:
            out.append(['enc', 'dict', [[before[0], 'A']]])
            if m >= 2: out.append(['drop', [before[0]], None])
        return out

    @staticmethod
    def _feats_alternatives(t, then):
        """Eager tables acceptable for `then` applied to the feats of labelled table t.  A stage that names a column by
        header may act on that column or (coba keeps no header support on feats) leave the table alone; everything
        else is exact."""
        ind = t.label[0]
        F = [r[:ind] + r[ind + 1:] for r in t.rows]
        by_name = None
        if then[0] == 'enc':
            if then[1] == 'list': fs = {i: ENC[e] for i, e in enumerate(then[2])}
            else:
                (kk, e), = then[2]
                if isinstance(kk, str): by_name = True; kk = t.headers[kk]
                fs = {kk: ENC[e]}
            alt = [[fs[i](v) if i in fs else v for i, v in enumerate(r)] for r in F]
        else:
            c = then[1][0]
            if isinstance(c, str): by_name = True; c = t.headers[c]
            alt = [r[:c] + r[c + 1:] for r in F]
        return [alt, F] if by_name else [alt]

    @staticmethod
    def _feats_eval(src, stages, then):
        """-> None when the real stage over the real feats equals one acceptable eager table in every access, else
        (access text, mode, got, want) of the first access that differs from the primary eager table."""
        plan = Plan(src, stages)
        t = plan.final
        alts = C13._feats_alternatives(t, then)
        rows = plan.build()
        feats = [row.feats for row in rows]
        first = None
        try:
            out = list(make_filter(then, None).filter(feats))
        except Exception as e:   # noqa
            return ('applying the stage', f'raises {type(e).__name__}', repr(e), f'{len(alts[0])} rows')
        for alt in alts:
            bad = None
            if len(out) != len(alt): bad = ('number of rows', 'wrong value', len(out), len(alt))
            for r, want in enumerate(alt):
                if bad: break
                o = out[r]
                checks = [('len(row)', lambda: len(o), len(want)), ('list(row)', lambda: list(o), list(want)),
                          ('row == eager row', lambda: o == list(want), True), ('row.copy()', lambda: list(o.copy()), list(want))]
                checks += [(f'row[position]', (lambda i=i: o[i]), want[i]) for i in range(len(want))]
                for text, f, w in checks:
                    try:
                        g = f()
                        if not same(g, w): bad = (text, 'wrong value', g, w); break
                    except Exception as e:   # noqa
                        bad = (text, f'raises {type(e).__name__}', repr(e), w); break
            if bad is None: return None
            if first is None: first = bad
        return first

    def run_feats(self, case, acc):
        src, stages, then = case['feats'], case['stages'], case['then']
        acc.count('feats_cases'); acc.states += 1; acc.traces += 1; acc.mark_nontrivial()
        try:
            bad = self._feats_eval(src, stages, then)
        except Exception:   # noqa  (the labelled pipeline itself fails: reported by the ordinary cases)
            return
        acc.outcome(('feats', STAGE_CLASS[then[0]], bad is None))
        if bad is None: return
        cur = list(stages)
        changed = True
        while changed and len(cur) > 1:             # drop stages before the label while the same access fails the same way
            changed = False
            for i in range(len(cur) - 1):
                trial = cur[:i] + cur[i + 1:]
                try:
                    if then not in self.feats_then_options(Plan(src, trial).final): continue
                    b2 = self._feats_eval(src, trial, then)
                except Exception:   # noqa
                    continue
                if b2 and b2[0] == bad[0] and b2[1] == bad[1]:
                    cur = trial; bad = b2; changed = True; break
        text, mode, got, want = bad
        key = f'row.feats as the input of {STAGE_CLASS[then[0]]}|{text}: {mode}|{chain_class(src, cur)}'
        what = (f'{chain_text(src, cur)}, then {M.stage_kind(then)} over the rows\' feats: {text} gave {got!r}, the eager table gives {want!r}')
        acc.violation(key, what, {'feats': src, 'stages': cur, 'then': then}, order=(len(cur), 8, acc._cur[0] if acc._cur else 0))

    # -------------------------------------------------------------- re-used filter objects
    STEPS = [(0, 'first table'), (1, 'second table'), (0, 'first table again')]

    @staticmethod
    def _reuse_eval(srcs, stages, upto=3):
        """Apply ONE set of filter objects to table 1, table 2, table 1.  -> (first failure, counts): the failure is
        (step, row, op, mode, got, want) of the first access (every access of the full alphabet on every output row, one
        after the other) whose answer differs from the eager model of ITS OWN table although fresh filter objects on that
        table give the eager answer; None when there is none."""
        plans = [Plan(srcs[0], stages), Plan(srcs[1], stages)]
        filters = [make_filter(st, None) for st in stages]
        nacc = 0
        for step, (which, _) in enumerate(C13.STEPS[:upto]):
            plan = plans[which]
            t = plan.final
            rows_n = list(range(len(t.rows))) or [None]
            for r in rows_n:
                hist = [o for o in ops_for(t, r) if o[0] != 'other'] if r is not None else []
                # the filters are stateful candidates: every row's accesses use one more pass through the same objects
                fails, _ = run_history(plan, r, hist, filters)
                nacc += len(hist)
                for p, op, mode, got, want in fails:
                    if step == 0: break                         # fresh objects: the ordinary cases report this
                    f2, _ = run_history(plan, r, [op] if p != -1 else [])
                    if any(f[1] == op for f in f2): continue     # fresh objects fail the same access: not a re-use effect
                    return (step, r, op, mode, got, want), nacc
                if fails and fails[0][0] == -1: break
        return None, nacc

    def run_reuse(self, case, acc):
        srcs, stages = case['reuse'], case['stages']
        fail, nacc = self._reuse_eval(srcs, stages)
        acc.states += 3; acc.transitions += nacc; acc.traces += 1
        acc.count('reuse_cases')
        acc.mark_nontrivial()
        acc.outcome(('reuse', srcs[0], srcs[1], tuple(STAGE_CLASS[s[0]] for s in stages)))
        if fail is None: return
        step, r, op, mode, got, want = fail
        # greedy minimisation: drop stages while some access still fails the same way at the same step
        cur = list(stages)
        changed = True
        while changed and len(cur) > 1:
            changed = False
            for i in range(len(cur)):
                trial = cur[:i] + cur[i + 1:]
                try:
                    f2, _ = self._reuse_eval(srcs, trial)
                except Exception:   # noqa   (outside the precondition table of one of the tables)
                    continue
                if f2 and f2[0] == step and f2[3] == mode:
                    cur = trial; fail = f2; changed = True; break
        step, r, op, mode, got, want = fail
        where = self.STEPS[step][1]
        fam = FAMILY[op[0]]
        key = (f're-used filter objects|{fam}: {mode} on the {where}|'
               f'{" > ".join(STAGE_CLASS[s[0]] for s in cur)}: {SRC_CLASS[srcs[0]]} then {SRC_CLASS[srcs[1]]}')
        what = (f'one set of filter objects [{" > ".join(M.stage_kind(s) for s in cur)}] applied to {M.SRC_KIND[srcs[0]]}, then {M.SRC_KIND[srcs[1]]}, '
                f'then {M.SRC_KIND[srcs[0]]} again: on the {where}, output row {r}, the access {op} gave {got!r}; the eager table '
                f'(and fresh filter objects) give {want!r}')
        acc.violation(key, what, {'reuse': srcs, 'stages': cur}, order=(len(cur), 9, acc._cur[0] if acc._cur else 0))

    # -------------------------------------------------------------- classification
    def _report(self, acc, case, plan, r, hist, op, mode, got, want, hi, reported):
        fam = FAMILY[op[0]]
        sig = (fam, mode)
        if sig in reported: return            # one report per (access family, failure mode) and case: the simplest access
        reported.add(sig)
        src, stages = plan.src, list(plan.stages)
        # greedy minimisation of the pipeline: drop stages (then try a simpler source) while the same access with the
        # same failure mode is still observed on some output row
        cur_r, cur_h = r, hist
        while stages:
            step = None
            for i in range(len(stages)):          # (1) the very same access fails the same way without stage i
                hit = self._reproduces(src, stages[:i] + stages[i + 1:], cur_r, cur_h, op, mode)
                if hit: step = (i, (hit[0], cur_h, op, mode, hit[1], hit[2])); break
            if step is None:
                for i in range(len(stages)):      # (2) the pipeline without stage i already fails on a single access: blame that one
                    f = self._any_failure(src, stages[:i] + stages[i + 1:])
                    if f: step = (i, f); break
            if step is None: break
            i, (cur_r, cur_h, op, mode, got, want) = step
            stages = stages[:i] + stages[i + 1:]
        fam = FAMILY[op[0]]
        for alt in SIMPLER_SRC.get(src, []):
            hit = self._reproduces(alt, stages, cur_r, cur_h, op, mode)
            if hit:
                src = alt; cur_r, got, want = hit; break
        comp = self._component(src, stages, cur_r, op)
        key = f'{comp}|{fam}: {mode}|{chain_class(src, stages)}'
        what = (f'{chain_text(src, stages)}: output row {cur_r}, after accesses {cur_h[:-1]} the access {op} gave {got!r}, '
                f'the eager table gives {want!r}') if op[0] != 'build' else \
               f'{chain_text(src, stages)}: building the pipeline: {mode}: got {got!r}, eager table has {want!r}'
        wit = {'src': src, 'stages': stages, 'row': cur_r, 'hist': cur_h}
        acc.violation(key, what, wit, order=(len(stages), len(cur_h), acc._cur[0] if acc._cur else 0, hi))

    @staticmethod
    def _any_failure(src, stages):
        """-> (row, hist, op, mode, got, want) of the first failing single access of the pipeline (or of its build), else None."""
        try:
            plan = Plan(src, stages)
        except Exception:   # noqa  (outside the precondition table)
            return None
        t = plan.final
        fails, _ = run_history(plan, None, [])
        if fails: return (None, [], fails[0][1], fails[0][2], fails[0][3], fails[0][4])
        for rr in range(len(t.rows)):
            for o in ops_for(t, rr):
                fails, _ = run_history(plan, rr, [o])
                if fails: return (rr, [o], o, fails[0][2], fails[0][3], fails[0][4])
        return None

    @staticmethod
    def _reproduces(src, stages, r, hist, op, mode):
        """-> (row, got, want) when history `hist` ending in `op` fails with `mode` on some output row of the pipeline
        (the given row first), else None."""
        try:
            plan = Plan(src, stages)
        except Exception:   # noqa  (outside the precondition table)
            return None
        t = plan.final
        if op[0] == 'build':
            fails, _ = run_history(plan, None, [])
            for f in fails:
                if f[0] == -1 and f[2] == mode: return (r, f[3], f[4])
            return None
        if r is None: return None
        dep = mode.startswith('depends on earlier accesses (')
        base = mode[len('depends on earlier accesses ('):-1] if dep else mode
        for rr in [r] + [x for x in range(len(t.rows)) if x != r]:
            if rr >= len(t.rows): continue
            valid = ops_for(t, rr)
            if any(o not in valid for o in hist): continue
            fails, _ = run_history(plan, rr, hist)
            for f in fails:
                if f[0] == len(hist) - 1 and f[1] == op and f[2] == base:
                    if dep and run_history(plan, rr, [op])[0]: continue
                    return (rr, f[3], f[4])
        return None

    @staticmethod
    def _component(src, stages, r, op):
        if op[0] == 'build': return 'pipeline'
        try:
            rows = Plan(src, stages).build()
            row = rows[r]
            if op[0].startswith('feats') or op[0] == 'labeled':
                try:
                    return type(row).__name__ + '.feats=' + type(row.feats).__name__
                except Exception:   # noqa
                    pass
            return type(row).__name__
        except Exception:   # noqa
            return 'pipeline'


CHECK = C13()
