"""C06 - SequentialCB feeds and records exactly what the environment provides (ENUM engine).

Every (environment, learn mode, eval mode, record set, learner answer format) below the bound is evaluated by
the REAL `SequentialCB.evaluate` with a recording learner; the learner's call trace and the yielded rows are
compared with a plain-Python reference model of the documented loop (vf.lib.c06_model).
"""
import itertools

from vf.core import Check
from vf.lib import c06_model as M

import coba                                             # noqa: F401  (the wrapper sets PYTHONPATH)
from coba.context import CobaContext, NullLogger, MemoryCacher

CobaContext.search_paths = []
CobaContext.logger = NullLogger()
CobaContext.cacher = MemoryCacher()

LEARNS = ['on', 'off', 'ips', None]
EVALS = ['on', 'ips', None]
REC_ALL = ['reward', 'action', 'probability', 'time', 'context', 'actions', 'rewards']
REC_QUICK = [['reward', 'action', 'probability']] + [[r] for r in REC_ALL] + [list(REC_ALL), []]
REC_THOROUGH = [[r for b, r in zip(bits, REC_ALL) if b] for bits in
                sorted(itertools.product([0, 1], repeat=7), key=lambda b: (sum(b), [1 - x for x in b]))]
LOG_ALL = ['action', 'reward', 'probability']


def shapes(tier):
    """Action-set sequences (one action-set name per interaction), simplest first."""
    names = list(M.BASE_ACTSETS)
    out = [[a] for a in names]                                                    # n = 1
    out += [[a, names[(i + 1) % 5]] for i, a in enumerate(names)]                 # n = 2, changing
    out += [[a, names[(i + 1) % 5], names[(i + 2) % 5]] for i, a in enumerate(names)]   # n = 3, rotating
    out += [[a, a] for a in names]                                                # n = 2, constant
    if tier != 'quick':
        out += [[a, b] for a in names for b in names if [a, b] not in out]        # all ordered pairs
        out += [[a, a, a] for a in names]                                         # n = 3, constant
    return out


def environments(tier):
    """Two exhaustive sub-products: data shapes (fully equipped) and field presence."""
    seen = set()
    def emit(d):
        k = repr(sorted(d.items()))
        if k in seen: return None
        if d['ctx'] == 'absent' and d['acts'] is None and not d['log'] and not d['extras']: return None   # interactions would be empty dicts
        seen.add(k); return d
    # F1: data shapes, all logged fields, 1 extra.  quick: (action sequence x reward kind) with a dense context + (context kind x 3 sequences)
    # with list rewards; thorough: the full product context kind x action sequence x reward kind
    for batch in (0, 2):
        for acts in shapes(tier):
            for ctx in M.CTX_KINDS:
                for rwd in M.RWD_KINDS + M.RWD_MORE:
                    if tier == 'quick' and not (ctx == 'dense' or (rwd == 'list' and acts in (['int'], ['str', 'tup'], ['bin', 'int', 'str']))): continue
                    if rwd == 'dmap' and 'map' in acts: continue          # dict actions cannot key a mapping
                    if rwd in M.RWD_MORE and ctx not in ('dense', 'absent'): continue
                    d = emit({'n': len(acts), 'ctx': ctx, 'acts': acts, 'rwd': rwd, 'log': list(LOG_ALL), 'extras': 1, 'batch': batch})
                    if d: yield d
    # F4: representation - categorical actions / contexts (what Finalize changes) x every reward kind (list, Binary, Discrete in order / as a
    # mapping / in another order, plain callable, custom Rewards object) x batching: the learner must see the one-hot values and every
    # interaction must keep ITS OWN reward function and logged action after the re-keying (also when a whole batch is pulled through
    # Finalize before the first reward is asked, and in the ips modes whose reward is keyed by the logged action).
    if tier == 'quick':
        cat_shapes = [['cat'], ['cat', 'cat'], ['cat', 'cat2'], ['cat', 'cat2', 'cat'], ['cat2', 'cat', 'cat']]
    else:
        cat_shapes = [list(t) for n in (1, 2, 3) for t in itertools.product(M.CAT_ACTSETS, repeat=n)]
    for batch in ((0, 2) if tier == 'quick' else (0, 2, 3)):
        for acts in cat_shapes:
            for ctx in (('dense',) if tier == 'quick' else ['dense', 'absent'] + M.CAT_CTX_KINDS):
                for rwd in M.RWD_KINDS + M.RWD_MORE:
                    if ctx in M.CAT_CTX_KINDS and rwd not in ('list', 'callable', 'dmap'): continue
                    d = emit({'n': len(acts), 'ctx': ctx, 'acts': acts, 'rwd': rwd, 'log': list(LOG_ALL), 'extras': 1, 'batch': batch, 'fam': 'F4'})
                    if d: yield d
        for ctx in M.CAT_CTX_KINDS:
            for acts in (['cat', 'cat2'], ['int', 'str'], ['cat2', 'cat', 'cat']):
                for rwd in ('list', 'callable'):
                    d = emit({'n': len(acts), 'ctx': ctx, 'acts': acts, 'rwd': rwd, 'log': list(LOG_ALL), 'extras': 1, 'batch': batch, 'fam': 'F4'})
                    if d: yield d
    # F5: the 0/1-ambiguity alphabet - action sets holding exactly one of the ints 0/1 next to another int, first or second, alone or followed
    # by another set (the prediction format is decided on the FIRST prediction), run with every answer format incl. integer one-hot PMFs
    amb = ['z5', 'o5', '5z', '5o']
    amb_shapes = [[a] for a in amb] + [[a, b] for a in amb for b in (['bin', 'hi3'] if tier == 'quick' else amb + ['bin', 'hi3', 'int'])]
    if tier != 'quick': amb_shapes += [['bin', a] for a in amb] + [[a, 'hi3', a] for a in amb]
    for batch in (0, 2):
        for acts in amb_shapes:
            for rwd in (('list',) if tier == 'quick' else ('list', 'binary', 'callable')):
                d = emit({'n': len(acts), 'ctx': 'dense', 'acts': acts, 'rwd': rwd, 'log': list(LOG_ALL), 'extras': 1, 'batch': batch, 'fam': 'F5'})
                if d: yield d
    # Batch(3): one batch holding all three interactions (a batch-aware learner's (action,prob,kwargs) rows are then a square answer)
    if tier == 'quick':
        for ctx in ('dense', 'absent'):
            for acts in (['int', 'str', 'tup'], ['cat', 'cat2', 'cat']):
                d = emit({'n': 3, 'ctx': ctx, 'acts': acts, 'rwd': 'list', 'log': list(LOG_ALL), 'extras': 1, 'batch': 3, 'fam': 'F4'})
                if d: yield d
    # F3: recurrence - every action-set sequence in {A,B}^3 (A,A,A .. A,B,A .. B,B,B) for pairs of sets that do / do not contain 0 or 1
    # (ints and floats) and pairs of other kinds, with contexts that are distinct or return to an earlier value (x0,x1,x0 / x0,x0,x1):
    # state kept between interactions (caches keyed on the previous action set / context) must not leak into a later interaction.
    # thorough adds all reward kinds, more pairs and {A,B}^4.
    pairs = [('zo3', 'hi3'), ('bin', 'int'), ('flt', 'fhi'), ('zo3', 'flt'), ('str', 'map')]
    if tier != 'quick': pairs += [('hi3', 'fhi'), ('bin', 'tup'), ('zo3', 'bin'), ('flt', 'str')]
    for batch in (0, 2):
        for a, b in pairs:
            for n in ((3,) if tier == 'quick' or (a, b) not in (('zo3', 'hi3'), ('bin', 'int'), ('flt', 'fhi')) else (3, 4)):
                for acts in itertools.product((a, b), repeat=n):
                    for cseq in (None, [0, 1, 0, 1][:n], [0, 0, 1, 1][:n]):
                        for ctx in (('dense',) if tier == 'quick' else ('dense', 'sparse')):
                            for rwd in (('list',) if tier == 'quick' else M.RWD_KINDS):
                                if cseq is not None and (n == 4 or rwd not in ('list', 'binary')): continue
                                d = {'n': n, 'ctx': ctx, 'acts': list(acts), 'rwd': rwd, 'log': list(LOG_ALL), 'extras': 1, 'batch': batch, 'fam': 'F3'}
                                if cseq is not None: d['cseq'] = cseq
                                d = emit(d)
                                if d: yield d
    # F2: field presence - which of actions / rewards / logged fields / extras exist
    act_opts = [['int', 'str'], None] if tier == 'quick' else [['int', 'str'], ['bin', 'tup', 'map'], None]
    for batch in (0, 2):
        for acts in act_opts:
            for ctx in ('dense', 'absent'):
                for rwd in ([None, 'list', 'callable'] if acts else [None]):
                    for nlog in range(4):
                        for log in itertools.combinations(LOG_ALL, nlog):
                            for extras in (0, 1, 2):
                                n = len(acts) if acts else 2
                                d = emit({'n': n, 'ctx': ctx, 'acts': acts, 'rwd': rwd, 'log': list(log), 'extras': extras, 'batch': batch})
                                if d: yield d


def learners(tier, batch, env=None):
    fmts = ['a', 'ap', 'apk'] if tier == 'quick' else ['a', 'ap', 'apk', 'ak']
    out = [{'fmt': f, 'score': s, 'off': 0, 'batch': 'reject'} for s in (False, True) for f in fmts]
    out += [{'fmt': 'ap', 'score': False, 'off': 1, 'batch': 'reject'}]
    if env is not None and env['acts']:
        # bare one-hot PMFs with integer entries (the format of the repository's own test learners): everywhere with offset 0,
        # on the 0/1-ambiguity family with both offsets, with kwargs and with score
        out += [{'fmt': 'pm', 'score': False, 'off': 0, 'batch': 'reject'}]
        if env.get('fam') == 'F5':
            out += [{'fmt': 'pm', 'score': False, 'off': 1, 'batch': 'reject'}, {'fmt': 'pmk', 'score': False, 'off': 0, 'batch': 'reject'},
                    {'fmt': 'pmk', 'score': True, 'off': 1, 'batch': 'reject'}]
    if batch:
        out += [{'fmt': 'apk', 'score': s, 'off': 0, 'batch': 'rows'} for s in (False, True)]
    return out


class C06(Check):
    ID = 'C06'
    LEVEL = 'exploration'
    ENGINE = 'ENUM'
    RULE = ('cases = (environment descriptor, learn mode, eval mode, recording-learner spec), each run for every record set of the tier; '
            'environments are four exhaustive products (representation: categorical action-set sequences / categorical contexts x 7 reward kinds '
            '(list, Binary, Discrete in order / as mapping / reordered, callable, custom Rewards) x batching; '
            'data shapes: context kind x action-set sequence n<=3 x reward kind x batching; '
            'recurrence: every sequence in {A,B}^3 (thorough also ^4) for pairs of action sets with/without 0 or 1 (ints, floats) and other kinds x '
            'contexts distinct or returning to an earlier value x batching; field '
            'presence: actions/rewards/each subset of logged action,reward,probability/0-2 extra fields x batching); a case is non-trivial '
            'when the environment was accepted, the learner received at least one call and at least one row was compared')
    ASSUMPTIONS = [
        'reward values, contexts, logged rewards/probabilities are distinct per interaction so a misaligned look-up is visible',
        'values are compared with == after normalising tuples/Batch lists to lists; 0/1 actions may arrive as floats; floats by isclose(1e-9)',
        'predict_time/learn_time: only presence is demanded (and only when a predict / a learn happened)',
        'an ips mode on an environment without probability may be rejected or evaluated with probability 1 (pinned by the repository tests); '
        'eval=ips with a scoring learner on an environment without actions: rejection or any prediction-based result is accepted',
        'whether predict is called when its result is not needed (learn off/None and nothing recorded from it) is not constrained; '
        'eval=ips may use score()*reward/prob or the IPS reward of the predicted action unless action/probability are recorded',
        'probability of a learner that returns none: key absent or None; context of an environment without context: key absent or None',
        'row keys other than reward/action/probability/requested ones are not constrained; an empty row may be dropped; on a batched '
        'environment rows that hold nothing but predict_time/learn_time may be one per batch',
        'interactions that are empty dicts are outside the alphabet; every interaction of one environment has the same keys; the action sets of '
        'one environment are either all categorical or all non-categorical',
        'categorical values are compared after Finalize\'s one-hot normalisation as HEAD implements it: a Categorical value/action -> its one-hot, '
        'inside a dense context spliced in place, inside a sparse context key -> "<key>_<level index>": 1',
        'a bare Mapping action answered without probability is ambiguous with coba\'s {"action":..} hint dicts (prediction-format detection is C15\'s '
        'subject); such failures are classified under their own SafeLearner|bare Mapping action key',
        'rejection = a CobaException before the first learner call and before the first row',
        'learners are deterministic functions of their call index and return the action object they were given; batches are either refused '
        '(SafeLearner falls back to per-row calls) or answered row-major; PMF answers are bare one-hot PMFs with integer entries (so the sampled action is '
        'determined); hinted dict answers, proper (non-degenerate) PMFs, dr/dm modes, ope_loss, torch batches are outside the alphabet',
    ]
    TECHNIQUE = ('bounded-exhaustive enumeration of environments x 12 modes x record sets x learner formats on the real SequentialCB with a '
                 'recording learner vs. a plain-Python reference model of the documented loop (call trace and rows)')
    LEVEL_TEXT = ('Environments: (a) data shapes = action-set sequences of length 1..3 over 5 action kinds x 4 reward kinds x 5 context kinds x '
                  'unbatched/Batch(2) (quick: sequences x reward kinds with a dense context plus context kinds x 3 sequences; thorough: the full product '
                  'incl. all ordered pairs of action kinds); (a2) recurrence = every action-set sequence in {A,B}^3 (A,B,A, A,A,B, .. ; thorough also '
                  '{A,B}^4) for pairs of sets that do / do not contain 0 or 1 as ints or floats ([0,1,2]/[3,4,5], [0,1]/[1,2], [0.0,0.5,1.0]/[2.5,3.5], ..) '
                  'and other kinds, with contexts that are distinct or return to an earlier value; (a3) representation = categorical action-set '
                  'sequences and categorical / dense-with-categorical / sparse-with-categorical contexts x 7 reward kinds x unbatched/Batch(2) '
                  '(thorough also Batch(3)), so every mode incl. the ips modes runs on data that Finalize re-encodes; (b) field presence = actions/rewards present or not x every subset of logged '
                  'action/reward/probability x 0..2 extras x context present or not x batching. Each is evaluated by the real SequentialCB for learn in '
                  '{on,off,ips,None} x eval in {on,ips,None} x learner formats x record sets (quick: default, 7 singletons, all 7, none; thorough: these '
                  'on every environment and all 128 subsets on the quick environments); the full call trace seen by the learner and all rows are '
                  'compared with the reference model.')
    LEVEL_NOTE = ('small-scope hypothesis (<=3 interactions, <=3 actions, batch size 2); learners answer action / (action,prob) / (action,kwargs) / '
                  '(action,prob,kwargs) only; dense/sparse ACTIONS containing categoricals are left to C10')
    MIN_NONTRIVIAL = {'quick': 10000, 'thorough': 80000}
    CASE_TIMEOUT = 60

    def cases(self, tier):
        # every environment of the tier with the quick record sets; thorough adds the other 118 record sets on the quick environments
        for env in environments(tier):
            for lrn in learners(tier, env['batch'], env):
                for learn in LEARNS:
                    for ev in EVALS:
                        yield {'env': env, 'learn': learn, 'eval': ev, 'lrn': lrn, 'records': 'quick'}
        if tier != 'quick':
            for env in environments('quick'):
                # record subsets are orthogonal to action/context recurrence: of F3 only the 0/1 <-> no-0/1 int pair gets all 128 subsets
                if env.get('fam') == 'F3' and ('cseq' in env or not set(env['acts']) <= {'zo3', 'hi3'}): continue
                if env.get('fam') == 'F4' and env['acts'] != ['cat', 'cat2']: continue
                if env.get('fam') == 'F5' and env['acts'] not in (['z5'], ['5o', 'bin']): continue
                for lrn in learners('quick', env['batch'], env):
                    for learn in LEARNS:
                        for ev in EVALS:
                            yield {'env': env, 'learn': learn, 'eval': ev, 'lrn': lrn, 'records': 'rest'}

    def run_case(self, case, acc):
        if 'record' in case: recs = [case['record']]
        elif case['records'] == 'quick': recs = REC_QUICK
        else: recs = [r for r in REC_THOROUGH if r not in REC_QUICK]
        nontrivial = False
        for rec in recs:
            res = M.run_and_compare(case['env'], case['learn'], case['eval'], rec, case['lrn'])
            acc.count('executions')
            acc.count('status:' + res.status)
            acc.outcome(res.signature)
            nontrivial = nontrivial or res.nontrivial
            for key, what in res.violations:
                w = {k: v for k, v in case.items() if k != 'records'}; w['record'] = rec
                acc.violation(key, what, w)
        if nontrivial: acc.mark_nontrivial()


CHECK = C06()
