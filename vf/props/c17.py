"""C17 - indexed Table queries return exactly what a full scan would (HIST engine).

A *state* is a real `coba.results.Table` reached by a history of state-changing operations
(insert in its three forms, index over every ordered column subset, copy) from an initial table.
After every step the complete query battery (every comparison x argument alphabet x calling form, multi
keyword unions, row predicates, where-of-where chains over every distinct selection, groupby) is run on
the REAL table and compared with a list-of-tuples reference that scans the rows the table itself shows.

Two families of cases (both exhaustive below their bound):
  data : every initial table (<=3 / <=4 rows over a x b) x every short indexing history, full battery
  hist : few initial tables x every history (<= depth) over the full operation alphabet, explored
         breadth-first with merging of canonically equal table states, full battery in every state
"""
import itertools, operator, re
from collections import Counter

from vf.core import Check, case_hash
from vf.engines import hist as H

from coba.results.core import Table, Missing, View

# ------------------------------------------------------------------------------------------------ values

NA = ('NA',)


def isnum(v): return isinstance(v, (int, float)) and not isinstance(v, bool)


def same_rows(a, b):
    """strict equality of two row lists (types matter, Missing is not None)"""
    if len(a) != len(b): return False
    for r, s in zip(a, b):
        if len(r) != len(s): return False
        for x, y in zip(r, s):
            if x is not y and (type(x) is not type(y) or x != y): return False
    return True


def nrow(row):
    """strict, hashable rendering of a row (1, 1.0, None and Missing are all different)"""
    return tuple((type(v).__name__, v) for v in row)


def na_key(cols, row):
    """row identity for the insert/index bookkeeping: a padded cell may be Missing or None"""
    d = dict(zip(cols, row))
    return tuple((c, NA if (d[c] is None or d[c] is Missing) else (type(d[c]).__name__, d[c])) for c in sorted(d))


# ------------------------------------------------------------------------------------------------ callables

FNS = {
    'eq1':  lambda v: v == 1,
    'in02': lambda v: v in (0, 2),
    'isx':  lambda v: v == 'x',
    'true': lambda v: True,
    'isna': lambda v: v is Missing or v is None,
    'eq5':  lambda v: v == 5,
    'isp':  lambda v: v == 'p',
}
ROWPREDS = {
    'has1': lambda r: 1 in r,
    'hasx': lambda r: 'x' in r,
    'none': lambda r: False,
    'all':  lambda r: True,
    'no0':  lambda r: 0 not in r,
}

# ------------------------------------------------------------------------------------------------ queries
# query  = {'pred': name} | {'pred': ['cell', col, op, value]} (row predicate on the cell at columns.index(col))
#        | {'cmp': op|None, 'kws': [[col, spec], ...], ['cmpkw': True]}
# spec   = ['v', value] | ['list'|'tuple'|'set', [values]] | ['fn', name] | ['dict', op, spec]

ORD = {'<': operator.lt, '<=': operator.le, '>': operator.gt, '>=': operator.ge}
VALUE_OPS = ['=', '!=', '<', '<=', '>', '>=']
LIST_OPS = ['in', '!in']

VALS = {'a': [-1, 0, 1, 2, 3, 0.5, None, 'x'], 'b': ['a', 'x', 'xx', 'y', 'z', None, 1], 'c': [3, 4, 5, 6, None],
        'd': ['o', 'p', 'q', None]}
LISTS = {'a': [['list', []], ['list', [0]], ['list', [1]], ['list', [0, 2]], ['list', [2, 0]], ['list', [0, 0]],
               ['list', [0, 0, 2]], ['list', [1, 5]], ['list', [-1, 3]], ['tuple', [0, 1]], ['set', [0, 2]]],
         'b': [['list', []], ['list', ['x']], ['list', ['y', 'x']], ['list', ['x', 'x']], ['list', ['z']],
               ['set', ['x', 'y']], ['tuple', ['a', 'y']]],
         'c': [['list', []], ['list', [4]], ['list', [5, 4]], ['list', [4, 4]], ['list', [9]]],
         'd': [['list', []], ['list', ['p']], ['list', ['q', 'p']], ['list', ['p', 'p']], ['list', ['o']]]}
MATCH = {'a': [1, '1', '[02]'], 'b': ['x', '^y', '[xy]', 1], 'c': [4, '5'], 'd': ['p']}
COLFNS = {'a': ['eq1', 'in02', 'isna'], 'b': ['isx', 'true', 'isna'], 'c': ['eq5', 'isna'], 'd': ['isp', 'isna']}
ALLCOLS = ('a', 'b', 'c', 'd')


CELLPRED = {'=': lambda c, v: c == v, '!=': lambda c, v: c != v, 'in': lambda c, v: c in v, '!in': lambda c, v: c not in v}
CELLVAL = {'a': 1, 'b': 'x', 'c': 5, 'd': 'p'}


def row_pred(p, cols):
    """the callable handed to where(): by name, or a predicate on one positional cell of the row"""
    if isinstance(p, str): return ROWPREDS[p]
    _, col, op, val = p
    i = list(cols).index(col); f = CELLPRED[op]
    return lambda r: f(r[i], val)


def cell_preds(col):
    v = CELLVAL[col]
    return [{'pred': ['cell', col, '=', v]}, {'pred': ['cell', col, '!=', v]}]


def render(spec):
    k = spec[0]
    if k == 'v': return spec[1]
    if k == 'list': return list(spec[1])
    if k == 'tuple': return tuple(spec[1])
    if k == 'set': return set(spec[1])
    if k == 'fn': return FNS[spec[1]]
    if k == 'dict': return {spec[1]: render(spec[2])}
    raise ValueError(spec)


def single_queries(col):
    """every comparison x argument x calling form on one column"""
    out = []
    for v in VALS[col]: out.append({'cmp': None, 'kws': [[col, ['v', v]]]})                     # direct '='
    for l in LISTS[col]: out.append({'cmp': None, 'kws': [[col, l]]})                           # direct 'in'
    for f in COLFNS[col]: out.append({'cmp': None, 'kws': [[col, ['fn', f]]]})                  # callable
    out.append({'cmp': '<', 'kws': [[col, ['fn', COLFNS[col][0]]]]})                            # callable wins over comparison
    for op in VALUE_OPS:
        for v in VALS[col]:
            out.append({'cmp': None, 'kws': [[col, ['dict', op, ['v', v]]]]})
            out.append({'cmp': op, 'kws': [[col, ['v', v]]]})
    for op in LIST_OPS:
        for l in LISTS[col]:
            out.append({'cmp': None, 'kws': [[col, ['dict', op, l]]]})
            out.append({'cmp': op, 'kws': [[col, l]]})
    for m in MATCH[col]:
        out.append({'cmp': None, 'kws': [[col, ['dict', 'match', ['v', m]]]]})
        out.append({'cmp': 'match', 'kws': [[col, ['v', m]]]})
    # `comparison=` given by keyword instead of positionally
    out.append({'cmp': '<=', 'cmpkw': True, 'kws': [[col, ['v', VALS[col][2]]]]})
    out.append({'cmp': '!in', 'cmpkw': True, 'kws': [[col, LISTS[col][1]]]})
    return out


REDUCED = {
    'a': [['v', 0], ['list', [0, 2]], ['dict', '<', ['v', 1]], ['dict', '>=', ['v', 1]], ['dict', '!in', ['list', [0]]],
          ['dict', 'match', ['v', 1]], ['fn', 'eq1'], ['dict', '!=', ['v', 5]]],
    'b': [['v', 'x'], ['list', ['y']], ['dict', '<', ['v', 'y']], ['dict', '>=', ['v', 'y']], ['dict', '!in', ['list', ['x']]],
          ['dict', 'match', ['v', '^y']], ['fn', 'isx'], ['dict', '=', ['v', 'q']]],
    'c': [['v', 5], ['dict', '<=', ['v', 4]], ['dict', 'in', ['list', [4]]], ['fn', 'isna']],
    'd': [['v', 'p'], ['dict', '>', ['v', 'o']], ['fn', 'isna']],
}


def multi_queries(cols):
    out = []
    for c1, c2 in itertools.permutations(cols, 2):
        if 'd' in (c1, c2) and 'a' not in (c1, c2): continue        # d is only paired with a
        for s1 in REDUCED[c1]:
            for s2 in REDUCED[c2]:
                out.append({'cmp': None, 'kws': [[c1, s1], [c2, s2]]})
    if 'a' in cols and 'b' in cols:
        out.append({'cmp': '!=', 'kws': [['a', ['v', 0]], ['b', ['v', 'x']]]})
        out.append({'cmp': '<', 'kws': [['b', ['v', 'y']], ['a', ['v', 1]]]})
        out.append({'cmp': '>=', 'kws': [['a', ['v', 2]], ['b', ['dict', '=', ['v', 'x']]]]})
        out.append({'cmp': 'in', 'kws': [['a', ['list', [0]]], ['b', ['list', ['y']]]]})
    if {'a', 'b', 'c'} <= set(cols):
        out.append({'cmp': None, 'kws': [['a', ['v', 0]], ['b', ['v', 'y']], ['c', ['v', 5]]]})
        out.append({'cmp': None, 'kws': [['c', ['dict', '<', ['v', 5]]], ['a', ['v', 2]], ['b', ['list', ['x']]]]})
    return out


def nested_queries(col):
    """reduced battery applied to where-results (views)"""
    out = []
    vals = {'a': [0, 1, 5], 'b': ['x', 'y', 'q'], 'c': [4, 9], 'd': ['p', 'r']}[col]
    for v in vals[:2]: out.append({'cmp': None, 'kws': [[col, ['v', v]]]})
    for op in VALUE_OPS:
        for v in vals: out.append({'cmp': None, 'kws': [[col, ['dict', op, ['v', v]]]]})
    for l in LISTS[col][2:5]:
        out.append({'cmp': None, 'kws': [[col, l]]})
        out.append({'cmp': '!in', 'kws': [[col, l]]})
    out.append({'cmp': 'match', 'kws': [[col, ['v', MATCH[col][0]]]]})
    out.append({'cmp': None, 'kws': [[col, ['fn', COLFNS[col][0]]]]})
    return out


def third_queries(cols):
    out = [{'pred': 'no0'}, {'pred': ['cell', cols[-1], '!=', CELLVAL[cols[-1]]]}]
    for col in cols:
        v = {'a': 1, 'b': 'y', 'c': 5, 'd': 'p'}[col]
        out += [{'cmp': None, 'kws': [[col, ['v', v]]]}, {'cmp': '>=', 'kws': [[col, ['v', v]]]},
                {'cmp': '<', 'kws': [[col, ['v', v]]]}, {'cmp': '!in', 'kws': [[col, ['list', [v]]]]}]
    return out


_QCACHE = {}


def battery(cols):
    key = tuple(sorted(cols))
    if key not in _QCACHE:
        q1 = [{'pred': p} for p in ROWPREDS]
        for c in key: q1 += cell_preds(c)
        for c in key: q1 += single_queries(c)
        q1 += multi_queries(key)
        q2 = [{'pred': 'has1'}, {'pred': 'none'}]
        for c in key: q2 += cell_preds(c)[:1]
        for c in key: q2 += nested_queries(c)
        if len(key) >= 2:
            q2.append({'cmp': None, 'kws': [[key[0], REDUCED[key[0]][2]], [key[1], REDUCED[key[1]][0]]]})
            q2.append({'cmp': None, 'kws': [[key[1], REDUCED[key[1]][3]], [key[0], REDUCED[key[0]][1]]]})
        _QCACHE[key] = (q1, q2, third_queries(key))
    return _QCACHE[key]


# ------------------------------------------------------------------------------------------------ reference model

UNDEF = 'undefined'


def semantic_op(q, spec):
    """(op, argument) a keyword condition means under the documented calling conventions"""
    if spec[0] == 'dict': return spec[1], render(spec[2])
    arg = render(spec)
    if spec[0] == 'fn': return 'fn', arg
    if q['cmp'] is not None: return q['cmp'], arg
    if spec[0] in ('list', 'tuple', 'set'): return 'in', arg
    return '=', arg


def match_cell(c, arg):
    if c is None or c is Missing: return False
    if isnum(arg) and isnum(c): return c == arg
    if isnum(arg) and isinstance(c, str): return bool(re.search('(\\D|^)%s(\\D|$)' % arg, c))
    if isinstance(arg, str) and isinstance(c, str): return bool(re.search(arg, c))
    return bool(re.search(str(arg), str(c)))


def cond_mask(op, arg, cells):
    """row-by-row evaluation of one condition over the cells of one column; UNDEF where Python itself has no answer"""
    if op == 'fn': return [bool(arg(c)) for c in cells]
    if op == '=': return [bool(c == arg) for c in cells]
    if op == '!=': return [bool(c != arg) for c in cells]
    if op == 'in': return [c in arg for c in cells]
    if op == '!in': return [c not in arg for c in cells]
    if op in ORD:
        f = ORD[op]; out = []
        try: f(arg, arg)
        except TypeError: return UNDEF                            # e.g. None as bound
        for c in cells:
            if c is None: out.append(False)                       # ordered comparisons skip None
            elif c is Missing: out.append(op in ('>', '>='))      # Missing is above every value (it sorts last)
            else:
                try: out.append(bool(f(c, arg)))
                except TypeError: return UNDEF
        return out
    if op == 'match':
        kinds = {('n' if isnum(c) else 's' if isinstance(c, str) else 'o') for c in cells if c is not None and c is not Missing}
        if len(kinds) > 1 or 'o' in kinds or not (isnum(arg) or isinstance(arg, str)): return UNDEF
        if cells and (cells[0] is None or cells[0] is Missing): return UNDEF     # the column's kind is taken from its first cell
        return [match_cell(c, arg) for c in cells]
    raise ValueError(op)


def expected_mask(cols, rows, q):
    if 'pred' in q:
        f = row_pred(q['pred'], cols)
        return [bool(f(r)) for r in rows]
    mask = [False] * len(rows)
    for col, spec in q['kws']:
        op, arg = semantic_op(q, spec)
        i = cols.index(col)
        m = cond_mask(op, arg, [r[i] for r in rows])
        if m is UNDEF: return UNDEF
        mask = [x or y for x, y in zip(mask, m)]
    return mask


def orderable_arg(q, cols, rows, indexes=()):
    """False when a TypeError is an accepted rejection: some =,!=,in,!in argument cannot be ordered against the cells of
    its column (sorted lookup), or an ordered comparison meets a real None inside an index column (a sorted lookup cannot skip it)"""
    for col, spec in q['kws']:
        op, arg = semantic_op(q, spec)
        if op in ('fn', 'match'): continue
        cells = [r[cols.index(col)] for r in rows]
        if col not in indexes: continue                      # a scan never needs to order anything
        if op in ORD:
            if any(c is None for c in cells): return False
            continue
        argv = list(arg) if isinstance(arg, (list, tuple, set)) else [arg]
        cells = [c for c in cells if c is not Missing]
        try:
            for x in argv:
                for y in argv: x < y
                for y in cells: (x < y, y < x)
        except TypeError:
            return False
    return True


def is_sorted(cols, rows, indexes):
    """are the shown rows sorted by the declared index columns?  ('unorderable' if Python cannot tell)"""
    try:
        ii = [cols.index(c) for c in indexes]
        for r, s in zip(rows, rows[1:]):
            for i in ii:
                if r[i] is s[i] or r[i] == s[i]: continue
                if s[i] < r[i] or (r[i] is Missing): return False
                break
        return True
    except (TypeError, ValueError):
        return 'unorderable'


def opgroup(q):
    if 'pred' in q: return 'rowpred' if isinstance(q['pred'], str) else 'rowpred-on-positional-cell'
    ops = set()
    for col, spec in q['kws']:
        op, _ = semantic_op(q, spec)
        ops.add('eq' if op in ('=', '!=', 'in', '!in') else 'ord' if op in ORD else op)
    return '+'.join(sorted(ops))


def qform(q):
    if 'pred' in q: return 'rowpred'
    forms = set()
    for col, spec in q['kws']:
        forms.add('dict' if spec[0] == 'dict' else 'callable' if spec[0] == 'fn' else 'comparison=' if q['cmp'] is not None else 'direct')
    return '+'.join(sorted(forms))


# ------------------------------------------------------------------------------------------------ the world (one real table + bookkeeping)

INDEX_OPS2 = [['index', list(p)] for n in (1, 2) for p in itertools.permutations(['a', 'b'], n)]
INDEX_OPS3 = [['index', list(p)] for n in (1, 2, 3) for p in itertools.permutations(['a', 'b', 'c'], n)]
INDEX_OPSD = [['index', ['d']], ['index', ['d', 'a']], ['index', ['a', 'd']]]

PAYLOADS = [
    # (name, forms, rows)
    ('one',     ['rows', 'dicts', 'cols'], [{'a': 1, 'b': 'x'}]),
    ('dup',     ['rows', 'dicts'],         [{'a': 0, 'b': 'y'}, {'a': 0, 'b': 'y'}]),
    ('unsorted', ['rows', 'cols'],         [{'a': 2, 'b': 'x'}, {'a': 0, 'b': 'y'}]),
    ('addc1',   ['dicts', 'cols'],         [{'a': 1, 'c': 5}]),
    ('addc2',   ['dicts', 'cols'],         [{'a': 1, 'b': 'y', 'c': 5}, {'a': 0, 'b': 'x', 'c': 4}]),
    ('addc3',   ['dicts', 'cols'],         [{'a': 2, 'c': 5}, {'a': 1, 'c': 4}]),          # two rows that both lack b
    ('noa',     ['dicts', 'cols'],         [{'b': 'x'}]),
    ('ragged',  ['dicts'],                 [{'a': 0, 'b': 'x'}, {'a': 2}]),
    ('empty',   ['rows'],                  []),
    ('addcd',   ['dicts', 'cols'],         [{'a': 1, 'c': 5, 'd': 'p'}]),                  # two new columns at once: the store keeps them in set order
]
INSERT_OPS = [['insert', form, rows] for _, forms, rows in PAYLOADS for form in forms]
INSERT_OPS_QUICK = [['insert', 'rows', PAYLOADS[0][2]], ['insert', 'dicts', PAYLOADS[1][2]], ['insert', 'cols', PAYLOADS[2][2]],
                    ['insert', 'dicts', PAYLOADS[3][2]], ['insert', 'cols', PAYLOADS[4][2]], ['insert', 'dicts', PAYLOADS[5][2]],
                    ['insert', 'cols', PAYLOADS[6][2]], ['insert', 'dicts', PAYLOADS[7][2]], ['insert', 'rows', []],
                    ['insert', 'dicts', PAYLOADS[9][2]]]


class World:
    __slots__ = ('t', 'mrows', 'dead', 'hist', 'init', 'cache', 'parts')

    def __init__(self, init):
        self.init = init
        self.cache = None
        self.hist = []
        self.dead = False
        self.mrows = []          # model: list of {col: value} (absent = padded)
        self.parts = None
        if 'long' in init:       # structured long table: the rows arrive through ['inspart', i] operations
            self.t = Table(columns=['a', 'b', 'x'])
            self.parts = long_parts(init['long'], init.get('mode', 'sort'))
            return
        if init.get('nocols'):
            self.t = Table()
        else:
            self.t = Table(columns=['a', 'b'])
        rows = [list(r) for r in init['rows']]
        if rows:
            form = init.get('form', 'rows')
            if form == 'rows': self.t.insert(rows)
            elif form == 'dicts': self.t.insert([{'a': r[0], 'b': r[1]} for r in rows])
            elif form == 'cols': self.t.insert({'a': [r[0] for r in rows], 'b': [r[1] for r in rows]})
            self.mrows = [{'a': r[0], 'b': r[1]} for r in rows]
        if init.get('form') == 'colsperm':     # a column mapping whose key order (b,a) differs from columns=(a,b) is adopted as the store
            self.t = Table({'b': [r[1] for r in rows], 'a': [r[0] for r in rows]}, columns=['a', 'b'])

    def cols(self): return tuple(self.t.columns)
    def rows(self): return list(self.t)
    def witness(self, **kw):
        w = {'init': self.init, 'hist': list(self.hist)}; w.update(kw); return w


def long_rows(spec):
    """rows (a, b, x) of a structured long table, ascending in (a, b); x is a unique row id"""
    rows = []
    if spec['kind'] == 'L1':      # a = runs of equal values 0,1,2,...; b alternates x,y inside every run
        for v, r in enumerate(spec['runs']):
            for j in range(r): rows.append([v, 'xy'[j % 2], len(rows)])
    else:                         # L2: `pre` rows a=0, then the block a=1 whose b column holds the runs, then two rows a=2
        for j in range(spec.get('pre', 0)): rows.append([0, 0, len(rows)])
        for v, r in enumerate(spec['runs']):
            for j in range(r): rows.append([1, v, len(rows)])
        rows.append([2, 0, len(rows)]); rows.append([2, 1, len(rows)])
    return rows


def long_parts(spec, mode):
    rows = long_rows(spec)
    if mode == 'sort': return [rows[::-1]]                        # arrives in reverse, index() has to sort
    if mode == 'presorted': return [rows]                         # index() on the empty table, then rows in order (what Result.from_* do)
    h = len(rows) // 2
    return [rows[:h], rows[h:][::-1]]                             # 'late': half, index(), rest in reverse


def insert_arg(world, form, prow):
    cols = world.cols()
    if form == 'dicts': return [dict(r) for r in prow]
    if form == 'cols':
        keys = list(prow[0]) if prow else []
        return {k: [r[k] for r in prow] for k in keys}
    return [[r.get(c, {'c': 6, 'd': 'q'}.get(c)) for c in cols] for r in prow]     # rows form: in the table's column order


def op_enabled(world, op):
    if world.dead: return False
    cols = world.cols()
    if op[0] == 'index': return all(c in cols for c in op[1])
    if op[0] == 'inspart': return world.parts is not None and op[1] < len(world.parts)
    if op[0] == 'insert':
        if op[1] == 'rows':   # needs every table column (c is filled in), and a table that has columns
            return bool(cols) and all(set(r) <= set(cols) and {'a', 'b'} <= set(r) for r in op[2])
        if op[1] == 'cols': return all(set(r) == set(op[2][0]) for r in op[2])
    return True


def multiset(cols, rows):
    return Counter(na_key(cols, r) for r in rows)


def model_multiset(cols, mrows):
    return Counter(tuple((c, NA if (c not in r or r[c] is None) else (type(r[c]).__name__, r[c])) for c in sorted(cols)) for r in mrows)


def step(world, op, acc):
    """apply one state-changing operation to the real table; bookkeeping oracle: rows are added exactly / never altered"""
    t = world.t
    world.cache = None
    world.hist.append(op)
    indexed = bool(t.indexes)
    if op[0] == 'copy':
        try:
            t2 = t.copy()
            same = (tuple(t2.columns) == tuple(t.columns) and [nrow(r) for r in t2] == [nrow(r) for r in t])
        except Exception as e:    # noqa
            acc.violation(f'copy|raises {type(e).__name__}|', f'copy() raised {e!r}', world.witness()); world.dead = True; return
        if not same:
            acc.violation('copy|copy shows different rows or columns|', f'{list(t2)} vs {list(t)}', world.witness())
        world.t = t2
        return
    if op[0] == 'index':
        before = world.rows(); cols = world.cols()
        try:
            r = t.index(*op[1])
        except TypeError as e:
            sortable = True
            try:
                for c in op[1]: sorted(x[cols.index(c)] for x in before)
            except TypeError:
                sortable = False
            if sortable:
                acc.violation('index|raises TypeError|sortable columns', f'index{tuple(op[1])} raised {e!r}', world.witness())
            else:
                acc.outcome('index rejected: unorderable column')
            world.dead = True; return
        except Exception as e:    # noqa
            acc.violation(f'index|raises {type(e).__name__}|', f'index{tuple(op[1])} raised {e!r}', world.witness()); world.dead = True; return
        after = world.rows()
        if r is not t and not isinstance(r, Table):
            acc.violation('index|does not return a table|', repr(r), world.witness())
        if tuple(world.cols()) != cols or multiset(cols, before) != multiset(cols, after):
            acc.violation('index|rows added, dropped or altered|' + ('nested index' if len(op[1]) > 1 else 'single index'),
                          f'index{tuple(op[1])}: {before} -> {after}', world.witness())
            world.dead = True
        return
    if op[0] == 'inspart':
        arg = [list(r) for r in world.parts[op[1]]]
        try:
            t.insert(arg)
        except Exception as e:    # noqa
            acc.violation(f'insert|raises {type(e).__name__}|form=rows long', f'insert of {len(arg)} rows raised {e!r}', world.witness()); world.dead = True; return
        world.mrows += [dict(zip(('a', 'b', 'x'), r)) for r in arg]
        cols = world.cols(); after = world.rows()
        if cols != ('a', 'b', 'x') or multiset(cols, after) != model_multiset(cols, world.mrows):
            acc.violation(f'insert|rows not added exactly|form=rows indexed={indexed} long', f'table shows {len(after)} rows {after[:5]}..., expected {len(world.mrows)}', world.witness())
            world.dead = True
        return
    if op[0] == 'insert':
        arg = insert_arg(world, op[1], op[2])
        try:
            t.insert(arg)
        except Exception as e:    # noqa
            acc.violation(f'insert|raises {type(e).__name__}|form={op[1]}', f'insert({arg}) raised {e!r}', world.witness()); world.dead = True; return
        if op[1] == 'rows':
            world.mrows += [dict(zip(world.cols(), r)) for r in arg]
        else:
            world.mrows += [dict(r) for r in op[2]]
        cols = world.cols()
        exp_cols = set().union(*[set(r) for r in world.mrows]) | ({'a', 'b'} if not world.init.get('nocols') else set())
        after = world.rows()
        if set(cols) != exp_cols or len(set(cols)) != len(cols):
            acc.violation(f'insert|wrong column set|form={op[1]}', f'columns {cols}, expected {sorted(exp_cols)}', world.witness()); world.dead = True; return
        if multiset(cols, after) != model_multiset(cols, world.mrows):
            acc.violation(f'insert|rows not added exactly|form={op[1]} indexed={indexed}', f'table shows {after}, expected the rows {world.mrows}', world.witness())
            world.dead = True
        return
    raise ValueError(op)


def canon_value(v, depth=0):
    if isinstance(v, View): return ('View', canon_value(v._data, depth + 1), canon_value(v._select, depth + 1))
    if isinstance(v, dict): return ('d',) + tuple((k, canon_value(x, depth + 1)) for k, x in v.items())
    if isinstance(v, (list, tuple)): return ('l',) + tuple(canon_value(x, depth + 1) for x in v)
    if isinstance(v, slice): return ('s', v.start, v.stop, v.step)
    return (type(v).__name__, v)


def canon(world):
    """complete canonical form of the table state: every slot of the real object (plain data)"""
    if world.dead: return ('dead',)
    t = world.t
    return tuple((s, canon_value(getattr(t, s, '<unset>'))) for s in sorted(type(t).__slots__))


# ------------------------------------------------------------------------------------------------ query oracle

def call_where(t, q):
    if 'pred' in q: return t.where(row_pred(q['pred'], t.columns))
    kw = {col: render(spec) for col, spec in q['kws']}
    if q.get('cmpkw'): return t.where(comparison=q['cmp'], **kw)
    if q['cmp'] is not None: return t.where(None, q['cmp'], **kw)
    return t.where(**kw)


def stale_feature(world, cols, rows, t):
    s = is_sorted(cols, rows, tuple(t.indexes))
    if s is True: return None
    if s == 'unorderable': return 'index columns unorderable'
    kinds = ['insert' if op[0] == 'inspart' else op[0] for op in world.hist]
    if 'index' in kinds and 'insert' in kinds[kinds.index('index'):]: return 'rows not sorted by declared index since insert into indexed table'
    return 'rows not sorted by declared index'


def _specs(q):
    return [(col, spec, spec[2] if spec[0] == 'dict' else spec) for col, spec in q.get('kws', [])]


def path_of(q, t):
    if 'pred' in q: return 'scan'
    p = set()
    for col, spec in q['kws']:
        op, _ = semantic_op(q, spec)
        p.add('bisect' if (col in t.indexes and op not in ('match', 'fn')) else 'scan')
    return '+'.join(sorted(p))


def leak_feature(q):
    """a {op: value} keyword followed by a keyword that is not in {op: value} form"""
    seen = False
    for col, spec, inner in _specs(q):
        if seen and spec[0] not in ('dict', 'fn'): return True
        if spec[0] == 'dict': seen = True
    return False


def where_key(world, mode, q, cols, rows, t, depth):
    """component|failure mode|minimal discriminating feature of the input (table data / argument / calling form)"""
    if mode in ('wrong multiplicity', 'wrong order'): mode = 'wrong rows'
    st = stale_feature(world, cols, rows, t)
    if st: return f'where|{mode}|{st}'
    path = path_of(q, t)
    ops = opgroup(q)
    if not rows: return f'where|{mode}|empty table path={path}' + (' op=match' if 'match' in ops else '')
    sp = _specs(q)
    if 'pred' in q and list(getattr(t, '_data', cols)) != list(cols):
        return f'where|{mode}|column store order differs from columns op={ops}'
    if len(sp) > 1 and leak_feature(q): return f'where|{mode}|{{op: value}} keyword followed by a plain keyword'
    if any(spec[0] == 'dict' and spec[1] == '!in' for _, spec, _ in sp): return f"where|{mode}|{{'!in': values}} form path={path}"
    if any(inner[0] in ('list', 'tuple') and len(set(inner[1])) != len(inner[1]) for _, _, inner in sp):
        return f'where|{mode}|duplicate values in list path={path}'
    if any(r[cols.index(col)] is Missing for col, _, _ in sp for r in rows):
        return f'where|{mode}|Missing in column path={path} op={ops}'
    return (f'where|{mode}|plain path={path} op={ops} form={qform(q)}' + (' several keywords' if len(sp) > 1 else '')
            + (' on where-result' if depth else '') + (' more than 8 rows' if len(rows) > 8 else ''))


def classify(world, mode, q, cols, rows, t, depth, chain):
    """key of a failing query; a several-keyword query one of whose keywords already fails alone gets that keyword's key"""
    if 'kws' in q and len(q['kws']) > 1:
        for kw in q['kws']:
            sub = {'cmp': q['cmp'], 'kws': [kw]}
            na = _NullAcc()
            run_query(world, t, cols, sub, na, depth, chain[:-1] + [sub])
            if na.violations: return next(iter(na.violations))
    return where_key(world, mode, q, cols, rows, t, depth)


class _NullAcc:
    """collects violations of a confirmation replay without touching the real counters"""
    def __init__(self): self.violations = {}; self.states = self.transitions = self.traces = 0
    def violation(self, key, what, witness=None, order=None): self.violations.setdefault(key, what)
    def outcome(self, sig): pass
    def mark_nontrivial(self, case=None): pass
    def count(self, name, n=1): pass


_CONFIRMING = [False]


def report(acc, key, what, wit):
    """report a query-level violation; the witness is made self-sufficient: if the failure does not show on a
    freshly built table it depends on the queries run before it, and the witness says so ('warm')"""
    if key in acc.violations: return          # a simpler witness of this key is already held (cases run simplest first)
    if not _CONFIRMING[0] and not isinstance(acc, _NullAcc):
        _CONFIRMING[0] = True
        try:
            na = _NullAcc()
            CHECK.replay(dict(wit), na)
            if key not in na.violations: wit = dict(wit, warm=True)
        finally:
            _CONFIRMING[0] = False
    acc.violation(key, what, wit)


def run_query(world, t, cols, q, acc, depth, chain):
    """run one where on the real table `t`; returns (result table or None, expected rows or None, mask)"""
    before = world.cache[1] if world.cache and world.cache[0] is t else list(t)
    acc.transitions += 1; acc.traces += 1
    try:
        res = call_where(t, q)
        got = list(res); n = len(res); rcols = tuple(res.columns)
        err = None
    except Exception as e:   # noqa
        err = e
    try:
        after = list(t)
    except Exception as e:   # noqa
        acc.violation('where|table unreadable after query|', repr(e), world.witness(chain=chain)); return None, None, None
    world.cache = (t, after)
    mask = expected_mask(cols, after, q)
    if not same_rows(before, after) and multiset(cols, before) != multiset(cols, after):
        acc.violation('where|query altered the rows of the queried table|', f'{before} -> {after}', world.witness(chain=chain))
        return None, None, None
    if mask is UNDEF:
        acc.outcome('undefined comparison (unorderable argument / mixed column): unconstrained'); return None, None, None
    exp = [r for r, m in zip(after, mask) if m]
    if err is not None:
        if isinstance(err, TypeError) and 'kws' in q and not orderable_arg(q, cols, after, tuple(t.indexes)):
            acc.outcome('TypeError for an argument that cannot be ordered against the column: accepted'); return None, None, None
        report(acc, classify(world, f'raises {type(err).__name__}', q, cols, after, t, depth, chain),
                      f'where({fmt(q)}) raised {err!r} on rows {short(after)} indexes {tuple(t.indexes)}; a scan selects {short(exp)}', world.witness(chain=chain))
        return None, None, None
    if not same_rows(got, exp):
        kind = 'wrong multiplicity' if Counter(map(nrow, got)) != Counter(map(nrow, exp)) and set(map(nrow, got)) == set(map(nrow, exp)) else \
               'wrong order' if Counter(map(nrow, got)) == Counter(map(nrow, exp)) else 'wrong rows'
        report(acc, classify(world, kind, q, cols, after, t, depth, chain),
                      f'where({fmt(q)}) returned {short(got)} on rows {short(after)} indexes {tuple(t.indexes)}; a scan selects {short(exp)}', world.witness(chain=chain))
        return None, None, None
    if n != len(exp):
        report(acc, classify(world, 'wrong len()', q, cols, after, t, depth, chain), f'len(where({fmt(q)}))={n}, rows {short(got)}', world.witness(chain=chain))
        return None, None, None
    if rcols != cols:
        acc.violation('where|result has other columns|', f'{rcols} vs {cols}', world.witness(chain=chain)); return None, None, None
    return res, exp, tuple(mask)


def short(rows):
    """row lists of long tables are quoted by their first rows and their length"""
    rows = list(rows)
    return repr(rows) if len(rows) <= 8 else f'{rows[:6]!r}..({len(rows)} rows)'


def fmt(q):
    if 'pred' in q: return 'row_pred=' + (q['pred'] if isinstance(q['pred'], str) else 'row[columns.index(%r)] %s %r' % tuple(q['pred'][1:]))
    s = ', '.join(f'{c}={render(sp) if sp[0] != "fn" and not (sp[0]=="dict" and sp[2][0]=="fn") else "<fn %s>" % sp[-1]}' for c, sp in q['kws'])
    return (f'comparison={q["cmp"]!r}, ' if q['cmp'] is not None else '') + s


GB_SELECTS = [None, 'count', 'a', 'b', ['a', 'b'], ['b'], 'c', ['c', 'a']]


def run_groupby(world, t, cols, rows, level, select, acc, chain):
    acc.transitions += 1; acc.traces += 1
    idx = tuple(t.indexes)
    st = stale_feature(world, cols, rows, t)
    feat = st or (('empty table' if not rows else 'more than 8 rows' if len(rows) > 8 else 'plain') + f' select={"none" if select is None else "count" if select == "count" else "column" if isinstance(select, str) else "columns"}'
                  + (' on where-result' if chain else ''))
    wit = world.witness(chain=chain, groupby=[level, select])
    try:
        got = list(t.groupby(level, select))
    except Exception as e:   # noqa
        report(acc, f'groupby|raises {type(e).__name__}|{feat}', f'groupby({level},{select!r}) raised {e!r} on rows {short(rows)} indexes {idx}', wit); return
    pi = [cols.index(c) for c in idx[:level]]
    groups = {}
    for r in rows: groups.setdefault(nrow(tuple(r[i] for i in pi)), []).append(r)
    if select is None:
        prefixes = [nrow(g) for g in got]; payload = [None] * len(got)
    else:
        try:
            prefixes = [nrow(g[0]) for g in got]; payload = [g[1] for g in got]
        except Exception:   # noqa
            acc.violation(f'groupby|malformed output|{feat}', f'{got}', wit); return
    if not rows:      # the empty partition: no group, or groups without rows
        if select == 'count' and any(p != 0 for p in payload):
            report(acc, f'groupby|wrong partition|{feat}', f'groupby({level},{select!r}) gave {got} on an empty table', wit)
        return
    bad = None
    if len(set(prefixes)) != len(prefixes): bad = 'an index prefix is reported more than once'
    elif set(prefixes) != set(groups): bad = 'the set of index prefixes differs'
    else:
        for p, pl in zip(prefixes, payload):
            g = groups[p]
            if select is None: continue
            if select == 'count':
                if pl != len(g): bad = 'wrong count'; break
            elif isinstance(select, str):
                if Counter(nrow([v])[0] for v in pl) != Counter(nrow([r[cols.index(select)]])[0] for r in g): bad = 'wrong column values'; break
            else:
                gr = Counter(nrow(x) for x in zip(*pl)) if pl else Counter()
                if gr != Counter(nrow(tuple(r[cols.index(s)] for s in select)) for r in g): bad = 'wrong column values'; break
    if bad:
        report(acc, f'groupby|wrong partition|{feat}', f'groupby({level},{select!r}) gave {short(got)} on rows {short(rows)} indexes {idx}: {bad}', wit)


def base_consistent(world, t, cols, rows, acc):
    """the rows the table shows are the rows that were put in, and column access agrees with them"""
    if multiset(cols, rows) != model_multiset(cols, world.mrows):
        acc.violation('table|rows shown differ from the rows put in|' + ('column store order differs from columns' if list(getattr(t, '_data', cols)) != list(cols) else ''),
                      f'list(table) = {rows[:6]} columns {cols}, put in {world.mrows[:6]}', world.witness())
        return False
    for i, c in enumerate(cols):
        try:
            colv = list(t[c])
        except Exception as e:   # noqa
            acc.violation(f'table|column access raises {type(e).__name__}|', repr(e), world.witness()); return False
        if not same_rows([tuple(colv)], [tuple(r[i] for r in rows)]):
            acc.violation('table|column access differs from the rows shown|', f'table[{c!r}] = {colv[:8]} vs rows {rows[:8]}', world.witness()); return False
    return True


def long_queries(col, vals, forms=True):
    """every comparison on one column of a long table: every present value, a value between / below / above, lists"""
    vals = sorted(vals)
    if all(isnum(v) for v in vals): args = vals + [v + 0.5 for v in vals] + [vals[0] - 1, vals[-1] + 1]; absent = vals[-1] + 7
    else: args = vals + [v + 'x' for v in vals] + ['', '~']; absent = '~~'
    out = []
    for i, (op, arg) in enumerate(itertools.product(VALUE_OPS, args)):
        if forms and i % 2: out.append({'cmp': op, 'kws': [[col, ['v', arg]]]})
        else: out.append({'cmp': None, 'kws': [[col, ['dict', op, ['v', arg]]]]})
    lists = [[v] for v in vals] + [[vals[0], vals[-1]], [vals[len(vals) // 2]] * 2, [absent], []]
    for l in lists:
        out.append({'cmp': None, 'kws': [[col, ['dict', 'in', ['list', l]]]]})
        out.append({'cmp': '!in', 'kws': [[col, ['list', l]]]} if forms else {'cmp': None, 'kws': [[col, ['dict', '!in', ['list', l]]]]})
    for v in vals[:2]: out.append({'cmp': None, 'kws': [[col, ['v', v]]]})
    return out


def explore_long(world, acc):
    """battery for the structured long tables: every comparison x every present / between / outside value on the index
    columns, on the table and on long where-results (slice and list views), and groupby at every level"""
    t = world.t; cols = world.cols()
    rows0 = list(t)
    if not base_consistent(world, t, cols, rows0, acc): return
    nontrivial = False
    qcols = [c for c in ('a', 'b') if c in t.indexes] or ['a']
    colvals = {c: sorted({r[cols.index(c)] for r in rows0}) for c in ('a', 'b', 'x')}
    a0, a9 = colvals['a'][0], colvals['a'][-1]
    ids = [0, 1, 2, 10, 11, 12]
    viewq = [{'cmp': None, 'kws': [['a', ['dict', '!=', ['v', a0]]]]},
             {'pred': ['cell', 'x', '!in', ids]},
             {'cmp': None, 'kws': [['a', ['list', [a0, a9]]]]},
             {'cmp': None, 'kws': [['b', ['v', colvals['b'][0]]]]},
             {'cmp': '!in', 'kws': [['x', ['list', ids]]]}]
    views = []
    for q in viewq:
        res, exp, mask = run_query(world, t, cols, q, acc, 0, [q])
        if res is not None and all(mask != m for _, _, _, m in views): views.append((res, exp, [q], mask))
    for c in qcols:
        for q in long_queries(c, colvals[c]):
            res, exp, mask = run_query(world, t, cols, q, acc, 0, [q])
            if res is not None and 0 < len(exp) < len(rows0): nontrivial = True
    rows = list(t)
    for level in range(len(t.indexes)):
        for sel in (None, 'count', 'x', ['a', 'x']):
            run_groupby(world, t, cols, rows, level, sel, acc, [])
    for v, vrows, chain, _ in views:
        if not vrows: continue
        for c in qcols:
            vals = sorted({r[cols.index(c)] for r in vrows})
            for q in long_queries(c, vals, forms=False):
                run_query(world, v, cols, q, acc, 1, chain + [q])
        for level in range(len(v.indexes)):
            for sel in ('count', 'x'):
                run_groupby(world, v, cols, vrows, level, sel, acc, chain)
    acc.states += 1
    acc.outcome(('long', len(rows0) > 16, len(rows0) > 32, len(rows0) > 64, tuple(t.indexes)))
    if nontrivial: acc.mark_nontrivial(case_hash(['state', world.init, world.hist]))


def explore(world, acc):
    return explore_long(world, acc) if 'long' in world.init else explore_state(world, acc)


def explore_state(world, acc):
    """the complete query battery on the table of this state"""
    t = world.t
    cols = world.cols()
    if not cols: return
    if not set(cols) <= set(ALLCOLS): return
    q1, q2, q3 = battery(cols)
    rows0 = list(t)
    if not base_consistent(world, t, cols, rows0, acc): return
    nontrivial = False
    views = {}          # distinct selections -> (real result table, expected rows, chain)
    for q in q1:
        res, exp, mask = run_query(world, t, cols, q, acc, 0, [q])
        if res is None: continue
        if 0 < len(exp) < len(rows0) and path_of(q, t) != 'scan': nontrivial = True
        if mask not in views: views[mask] = (res, exp, [q])
    acc.outcome(('nsel', len(views)))
    # groupby on the table itself
    rows = list(t)
    for level in range(len(t.indexes)):
        for sel in GB_SELECTS:
            names = [sel] if isinstance(sel, str) and sel != 'count' else sel if isinstance(sel, list) else []
            if not all(n in cols for n in names): continue
            run_groupby(world, t, cols, rows, level, sel, acc, [])
    # where-of-where over every distinct selection (slice views, list views, the empty view)
    views2 = {}
    for mask, (v, vrows, chain) in views.items():
        kind = type(v._data._select).__name__ if isinstance(getattr(v, '_data', None), View) else 'table'
        acc.outcome(('view', kind, len(vrows)))
        try:
            cp = v.copy()
            if [nrow(r) for r in cp] != [nrow(r) for r in vrows]:
                acc.violation('copy|copy shows different rows or columns|of where-result', f'{list(cp)} vs {vrows}', world.witness(chain=chain))
        except Exception as e:   # noqa
            acc.violation(f'copy|raises {type(e).__name__}|of where-result', repr(e), world.witness(chain=chain))
        for c in cols:          # column access through the view
            try:
                colv = list(v[c])
                if [nrow([x]) for x in colv] != [nrow([r[cols.index(c)]]) for r in vrows]:
                    acc.violation('where|column access on result differs from its rows|', f'{c}: {colv} vs rows {vrows}', world.witness(chain=chain))
            except Exception as e:   # noqa
                acc.violation(f'where|column access on result raises {type(e).__name__}|' + ('empty result' if not vrows else ''), repr(e), world.witness(chain=chain))
        for level in range(len(v.indexes)):
            for sel in ('count', cols[-1]):
                run_groupby(world, v, cols, vrows, level, sel, acc, chain)
        for q in q2:
            res, exp, m2 = run_query(world, v, cols, q, acc, 1, chain + [q])
            if res is None: continue
            sel = tuple(i for i, (x, y) in enumerate(zip(_expand(mask, m2), mask)) if x)
            if sel not in views2: views2[sel] = (res, exp, chain + [q])
    for sel, (v, vrows, chain) in views2.items():
        for q in q3:
            run_query(world, v, cols, q, acc, 2, chain + [q])
        for level in range(len(v.indexes)):
            run_groupby(world, v, cols, vrows, level, 'count', acc, chain)
    acc.states += 1
    if nontrivial: acc.mark_nontrivial(case_hash(['state', world.init, world.hist]))


def _expand(mask, m2):
    """mask over the base rows of a selection m2 made inside the selection `mask`"""
    it = iter(m2)
    return [bool(m and next(it)) for m in mask]


# ------------------------------------------------------------------------------------------------ the check

ROWVALS = [[a, b] for a in (0, 1, 2) for b in ('x', 'y')]
MIXVALS = [[a, b] for a in (0, 1) for b in ('x', 1.5, None)]


class C17(Check):
    ID = 'C17'
    LEVEL = 'model_checking'
    ENGINE = 'HIST'
    RULE = ('state = real Table reached by a history of state-changing operations (insert as rows / dict-rows / column-mapping incl. '
            'ragged payloads that add column c or leave a/b Missing, index over every ordered subset of the existing columns, copy) from an '
            'initial table; family "data": every initial table of <=3 (thorough <=4) rows over a in {0,1,2} x b in {x,y} (plus <=2 rows '
            'with mixed-type / None b, and tables built from a column mapping whose key order differs from `columns`) x every indexing history of length <=1 '
            '(and index;index); family "runs": structured long tables (a,b,x) made of 1..3 runs of equal index values with every combination of run lengths from '
            '{1,2,16,17,18,33} (+ pairs from {1,8,9,17,32,33,34,65}; thorough {1,2,8,9,16,17,18,32,33,65} and pairs from 1..65 around 8/16/32/64), as first-level runs and as '
            'second-level runs inside a block that starts at row 0 or 2, sorted by index() / inserted in order into an indexed empty table / half inserted after index(), '
            'queried with every comparison x every present, in-between and outside value on the index columns, on the table and on long slice/list where-results, plus groupby at every level; family "hist": initial tables of <=2 rows x every '
            'history of <=2 (quick) / <=3 (thorough) operations over the full alphabet (one operation more over a 7-operation alphabet), breadth-first with merging of states whose complete slot contents '
            'are equal; in every state the whole battery runs: every comparison x argument alphabet x calling form per column, '
            'two/three-keyword unions, row predicates (whole-row and on the positional cell of a named column), a reduced battery on every distinct where-result (slice, list and empty views) and a '
            'third level on every distinct where-of-where, groupby(level, select) on tables and views. A state is non-trivial when a query on an indexed '
            'column selected a non-empty proper subset of the rows.')
    ASSUMPTIONS = [
        'a row predicate receives the row as list(table) shows it (cells in the order of table.columns)',
        'column access table[c] must agree with the rows shown; the rows shown must be the rows that were put in (per column name)',
        'reference for where = row-by-row scan of the rows the table itself shows (list(table)) right after the query, in that order, with multiplicity',
        'ordered comparisons skip None and treat Missing as above every value (the order index() sorts it in); =,!=,in,!in use plain Python equality (Missing == None)',
        'a comparison Python itself cannot evaluate (ordering a str cell against a number, None argument with <) is unconstrained; a TypeError is also accepted for =,!=,in,!in when the argument cannot be ordered against the column (sorted lookup) and for <,<=,>,>= on an index column that holds a real None',
        'match is only constrained on columns whose non-missing cells are all numbers or all strings and whose first cell is not missing (the column kind is taken from the first cell)',
        'index() on a column Python cannot sort (mixed str/float, None next to values) may raise TypeError; nothing is demanded of that table afterwards',
        'index() must keep the multiset of rows and the columns; stability and the concrete order are not demanded (where/groupby are judged against the order shown)',
        'insert() must add exactly the given rows (absent keys padded with Missing or None) and the new column names; the position of new rows and the order of new columns are not demanded',
        'copy() is only required to show the same rows and answer queries alike; independence of the copy from the original (shared storage is pinned by the test-suite) is not demanded, the original is not used after copy()',
        'where-results are not used after the base table changes; insert()/index() on where-results and queries on columns that do not exist are outside the alphabet',
        'groupby: each index prefix exactly once with exactly its rows (count / column values as multisets per group); order of groups and a zero-row group of an empty table are not constrained; level >= number of index columns is outside the alphabet',
    ]
    TECHNIQUE = ('explicit-state exploration of operation histories on the real Table (replay from scratch, breadth first, canonical-state merging over all '
                 'slots) with an exhaustive query battery per state, against a list-of-tuples scan model')
    LEVEL_TEXT = ('Every history of state-changing operations below the bound is executed on a fresh real Table; in every reached state every query of the '
                  'battery (all operators x argument alphabet incl. absent / out-of-range / duplicate / empty / wrongly typed arguments x positional, keyword and '
                  '{op:value} forms, unions, row predicates, where-of-where over all distinct selections, groupby) is answered by the real code and compared '
                  'with a plain scan of the rows the table shows. Exhaustive below the bound: the shortest violating (table, history, query) is found with certainty.')
    LEVEL_NOTE = ('small scope: <=4 initial rows over 3x2 values (long tables: <=3 runs of <=65 rows), payloads of <=2 rows, histories <=3 operations, where chains <=3; '
                  'values outside the alphabets and longer histories are not covered')
    MIN_NONTRIVIAL = {'quick': 1500, 'thorough': 10000}
    CASE_TIMEOUT = 900          # a breadth-first case holds up to ~500 states; generous because the machine is shared

    # ---- cases
    def cases(self, tier):
        nmax = 3 if tier == 'quick' else 4
        # family data: all tables x indexing histories
        short = [[]] + [[op] for op in INDEX_OPS2]
        for n in range(0, nmax + 1):
            for rows in itertools.product(ROWVALS, repeat=n):
                for h in short:
                    yield {'fam': 'data', 'init': {'rows': [list(r) for r in rows]}, 'hist': h}
        for n in range(1, 3):
            for rows in itertools.product(MIXVALS, repeat=n):
                for h in short:
                    yield {'fam': 'data', 'init': {'rows': [list(r) for r in rows]}, 'hist': h}
        for n in range(0, 3):      # other construction forms and re-indexing
            for rows in itertools.product(ROWVALS, repeat=n):
                for form in ('dicts', 'cols'):
                    for h in short[1:]:
                        yield {'fam': 'data', 'init': {'rows': [list(r) for r in rows], 'form': form}, 'hist': h}
                for h1 in INDEX_OPS2:
                    for h2 in INDEX_OPS2:
                        if h1 != h2: yield {'fam': 'data', 'init': {'rows': [list(r) for r in rows]}, 'hist': [h1, h2]}
        # column mapping adopted as the store in another key order than `columns`
        for n in range(0, 3 if tier == 'quick' else 4):
            for rows in itertools.product(ROWVALS, repeat=n):
                for h in short:
                    yield {'fam': 'data', 'init': {'rows': [list(r) for r in rows], 'form': 'colsperm'}, 'hist': h}
        # family runs: structured long tables - runs of equal index values whose lengths sit around the constants a
        # shortcut in a search is likely to use (8, 16, 32, 64), at the start / middle / end of a block
        if tier == 'quick': len3, len2 = [1, 2, 16, 17, 18, 33], [1, 8, 9, 17, 32, 33, 34, 65]
        else: len3, len2 = [1, 2, 8, 9, 16, 17, 18, 32, 33, 65], [1, 2, 7, 8, 9, 15, 16, 17, 18, 31, 32, 33, 34, 63, 64, 65]
        shapes = [r for n in (1, 2, 3) for r in itertools.product(len3, repeat=n)]
        shapes += [r for r in itertools.product(len2, repeat=2) if r not in set(shapes)]
        for runs in shapes:
            if True:
                if sum(runs) <= 4: continue
                long1 = {'kind': 'L1', 'runs': list(runs)}
                for idx in (['a'], ['a', 'b'], ['b', 'a']):
                    yield {'fam': 'runs', 'init': {'long': long1, 'mode': 'sort'}, 'hist': [['inspart', 0], ['index', idx]]}
                yield {'fam': 'runs', 'init': {'long': long1, 'mode': 'presorted'}, 'hist': [['index', ['a']], ['inspart', 0]]}
                yield {'fam': 'runs', 'init': {'long': long1, 'mode': 'late'}, 'hist': [['inspart', 0], ['index', ['a']], ['inspart', 1]]}
                for pre in (0, 2):
                    long2 = {'kind': 'L2', 'runs': list(runs), 'pre': pre}
                    yield {'fam': 'runs', 'init': {'long': long2, 'mode': 'sort'}, 'hist': [['inspart', 0], ['index', ['a', 'b']]]}
                yield {'fam': 'runs', 'init': {'long': {'kind': 'L2', 'runs': list(runs), 'pre': 2}, 'mode': 'presorted'},
                       'hist': [['index', ['a', 'b']], ['inspart', 0]]}
        # family hist: BFS over the full operation alphabet, one case per (initial table, first operation)
        depth = 2 if tier == 'quick' else 3
        inits = [{'rows': []}, {'rows': [], 'nocols': True}, {'rows': [[1, 'y']]}, {'rows': [[0, 'y'], [2, 'x']]}, {'rows': [[2, 'x'], [0, 'x']]},
                 {'rows': [[0, 'y'], [2, 'x']], 'form': 'colsperm'}]
        if tier != 'quick':
            inits += [{'rows': [[0, 'x'], [0, 'x']]}, {'rows': [[1, 'x'], [1, 'y'], [0, 'y']]}]
        for init in inits:
            for first in self.alphabet(tier):
                yield {'fam': 'hist', 'init': init, 'first': first, 'depth': depth}
        # one more operation over a reduced alphabet (quick: depth 3, thorough: depth 4)
        for init in inits[:4]:
            for first in self.alphabet('mini'):
                yield {'fam': 'hist', 'init': init, 'first': first, 'depth': depth + 1, 'alphabet': 'mini'}

    def alphabet(self, name):
        if name == 'mini':
            return [['index', ['a']], ['index', ['b', 'a']], ['insert', 'rows', PAYLOADS[0][2]], ['insert', 'dicts', PAYLOADS[3][2]],
                    ['insert', 'cols', PAYLOADS[2][2]], ['index', ['c', 'a']], ['copy']]
        ins = INSERT_OPS_QUICK if name == 'quick' else INSERT_OPS
        return INDEX_OPS3 + INDEX_OPSD + ins + [['copy']]

    # ---- execution
    def run_case(self, case, acc):
        if case.get('fam') in ('data', 'runs'):
            w = World(case['init'])
            for op in case['hist']:
                if not op_enabled(w, op): return
                step(w, op, acc); acc.transitions += 1
                if w.dead: return
            explore(w, acc)
            return
        if case.get('fam') == 'hist':
            alpha = self.alphabet(case.get('alphabet', 'thorough' if case['depth'] >= 3 else 'quick'))
            first = case['first']

            def build():
                w = World(case['init'])
                if op_enabled(w, first): step(w, first, acc)
                else: w.dead = True
                return w
            w0 = build()
            if w0.dead: return

            def enabled(w, hist):
                return [op for op in alpha if op_enabled(w, op)]

            def on_state(w, hist):
                if not w.dead: explore_state(w, acc)
            states, transitions, capped = H.bfs(build, enabled, lambda w, op: step(w, op, acc), canon, case['depth'] - 1, on_state=on_state)
            acc.transitions += transitions + 1
            acc.count('histories_merged_into_known_states', transitions + 1 - states)
            return
        # a replay witness: {'init','hist','chain'?,'groupby'?}
        return self.replay(case, acc)

    def replay(self, wit, acc):
        if 'fam' in wit: return self.run_case(wit, acc)
        w = World(wit['init'])
        for op in wit['hist']:
            if not op_enabled(w, op): return
            step(w, op, acc)
            if w.dead: return
        t = w.t; cols = w.cols()
        if wit.get('warm'):          # the failure needs the queries that ran before it: run the whole battery of that state
            explore(w, acc); return
        chain = wit.get('chain') or []
        for i, q in enumerate(chain):
            res, exp, mask = run_query(w, t, cols, q, acc, min(i, 2), chain[:i + 1])
            if res is None: return
            t = res
        if wit.get('groupby'):
            level, sel = wit['groupby']
            run_groupby(w, t, cols, list(t), level, sel, acc, chain)


CHECK = C17()
