"""C16 - the built-in learners always return a valid, self-consistent distribution (HIST engine).

One case = one REAL learner configuration x one step alphabet.  A step of a history is
(action set, reward, learn mode): `predict(context, actions)`, for the deterministic-policy learners `score` of every
offered action, then `learn` of either the predicted action with its own probability ('own') or of the next offered
action with a logged probability (.5, for Corral also .01 and, over three base learners, .0001 = extreme importance weights).  Every history up to the depth
bound is explored breadth first on fresh learners (a state is reached by replaying its history from scratch); two
histories are merged only when the COMPLETE canonical state of the learner is equal: every attribute reachable from the
learner object (plain dicts/lists/floats by exact repr, wrapped base learners, SafeLearner bookkeeping) and the position
of every CobaRandom stream (read from the generator frame).  The oracle is evaluated on every transition:

  predict    returns (action, probability[, kwargs]) without raising, action is one of the offered actions,
             0 < probability <= 1 (Corral: <= 1 + 1e-4, the accuracy of its weights)
  score      (Random, Fixed, BanditEpsilon, BanditUCB, Misguided over them) score(ctx, actions, a) >= 0 for every offered a,
             sum = 1 +- 1e-9, score of the predicted action = the returned probability
  Corral     the returned probability is the pmf value of the returned action (sum of p_bar over the base learners that
             proposed it), every base proposal is an offered action; after learn `_ps` and `_p_bars` are finite, strictly
             positive and sum to 1 +- 1e-4
  learn      never raises and returns within the step horizon (CPU time); the next predict must still work (the leaves of
             the search are probed with one more predict)
"""
import math, signal, types, traceback, re
from collections import defaultdict, deque, abc
from types import MappingProxyType

from vf.core import Check, HarnessError, case_hash

from coba.random import CobaRandom
from coba.primitives import HashableDense, HashableSparse, Dense_, Sparse_
from coba.pipes.rows import LazyDense, LazySparse, HeadDense, SparseDense
from coba.statistics import OnlineVariance
from coba.safety import SafeLearner
from coba.learners.bandit import BanditEpsilonLearner, BanditUCBLearner, FixedLearner, RandomLearner
from coba.learners.corral import CorralLearner
from coba.learners.misguided import MisguidedLearner
from coba.learners.utilities import PMFPredictor, PMFInfoPredictor
from coba.context import CobaContext, NullLogger, MemoryCacher

CobaContext.logger = NullLogger()
CobaContext.cacher = MemoryCacher()
CobaContext.search_paths = []

# ------------------------------------------------------------------------------------------------ alphabets

# name -> (builder of a FRESH action list, context handed in with it, kind used in violation keys)
SETS = {
    'i2': (lambda: [1, 2],                   None,         'int actions'),
    'i3': (lambda: [1, 2, 3],                (0.5, 2.0),   'int actions'),
    's1': (lambda: ['a'],                    'c',          'single str action'),
    'd2': (lambda: [(1, 0), (0, 1)],         [1.0, 0.0],   'dense actions'),
    'p2': (lambda: [{'a': 1}, {'b': 2}],     {'x': 1},     'sparse actions'),
}
# int-valued stand-ins (disjoint from everything, like the sets they replace) used only to classify a violation:
# does it need the action type?
SETS.update({'j2': (lambda: [4, 5], [1.0, 0.0], 'int actions'), 'k2': (lambda: [6, 7], {'x': 1}, 'int actions'), 'j1': (lambda: [8], 'c', 'int actions')})
# actions that are coba's own row types / read-only mappings (dense / sparse by the Dense / Sparse ABCs, not list / tuple / dict)
SETS.update({
    'ld2': (lambda: [LazyDense([1, 0]), LazyDense([0, 1])],                                          [1.0, 0.0], 'coba dense row actions'),
    'hd2': (lambda: [HeadDense([1, 0], {'a': 0, 'b': 1}), HeadDense([0, 1], {'a': 0, 'b': 1})],      [1.0, 0.0], 'coba dense row actions'),
    'sd2': (lambda: [SparseDense({0: 1}, 2), SparseDense({1: 1}, 2)],                                [1.0, 0.0], 'coba dense row actions'),
    'ls2': (lambda: [LazySparse({'a': 1}), LazySparse({'b': 2})],                                    {'x': 1},   'coba sparse row / mapping actions'),
    'mp2': (lambda: [MappingProxyType({'a': 1}), MappingProxyType({'b': 2})],                        {'x': 1},   'coba sparse row / mapping actions'),
})
SETS.update({'r2': (lambda: [1, 3], None, 'int actions'), 'i1': (lambda: [1], None, 'int actions')})      # plan A: [1,2] with an element replaced / popped
ALIAS_SETS = ['i2', 'i3', 'r2', 'i1']
ALIAS_MODE = 'answers differ from a learner driven with fresh equal-valued action lists'
TYPED_SETS = ['ld2', 'hd2', 'sd2', 'ls2', 'mp2']
SUBST = {'d2': 'j2', 'p2': 'k2', 's1': 'j1', 'ld2': 'j2', 'hd2': 'j2', 'sd2': 'j2', 'ls2': 'k2', 'mp2': 'k2'}
SET_SIZE = {'i2': 2, 'i3': 3, 's1': 1, 'd2': 2, 'p2': 2, 'ld2': 2, 'hd2': 2, 'sd2': 2, 'ls2': 2, 'mp2': 2, 'r2': 2, 'i1': 1}
ALL_SETS = ['i2', 'i3', 's1', 'd2', 'p2']
REWARDS = [0, 0.5, 1]
LOG_PROB = {'log': 0.5, 'tiny': 0.01, 'micro': 0.0001}

STEP_CPU_HORIZON = 2.0          # seconds of CPU time one predict+score+learn step may take (normal: < 1 ms)


def fresh(x):
    """A deep, fresh copy of a JSON-like action/context value."""
    if isinstance(x, list): return [fresh(v) for v in x]
    if isinstance(x, tuple): return tuple(fresh(v) for v in x)
    if isinstance(x, dict): return {k: fresh(v) for k, v in x.items()}
    return x


def build(d):
    """A fresh real learner from its descriptor."""
    k = d['l']
    if k == 'Random': return RandomLearner(seed=d['seed'])
    if k == 'Fixed': return FixedLearner(list(d['pmf']), seed=d['seed'])
    if k == 'Eps': return BanditEpsilonLearner(epsilon=d['eps'], seed=d['seed'])
    if k == 'UCB': return BanditUCBLearner(seed=d['seed'])
    if k == 'Mis': return MisguidedLearner(build(d['base']), d['shift'], d['scale'])
    if k == 'Corral':
        T = math.inf if d['T'] == 'inf' else d['T']
        return CorralLearner([build(b) for b in d['bases']], eta=d['eta'], T=T, mode=d['mode'], seed=d['seed'])
    raise ValueError(d)


def family(d):
    k = d['l']
    if k == 'Mis': return f"Misguided({family(d['base'])})"
    return {'Random': 'Random', 'Fixed': 'Fixed', 'Eps': 'BanditEpsilon', 'UCB': 'BanditUCB', 'Corral': 'Corral'}[k]


def is_corral(d): return d['l'] == 'Corral'


def pmf_len(d):
    """The number of actions a configuration is defined for (Fixed pmfs), or None for any."""
    if d['l'] == 'Fixed': return len(d['pmf'])
    if d['l'] == 'Mis': return pmf_len(d['base'])
    if d['l'] == 'Corral':
        ns = {pmf_len(b) for b in d['bases']} - {None}
        return ns.pop() if ns else None
    return None


def learner_configs(tier):
    """Simplest first.  -> list of (descriptor, weight class)"""
    out = []
    seeds = [1, 2]
    for s in seeds: out.append({'l': 'Random', 'seed': s})
    for pmf in ([0.5, 0.5], [1, 0], [0.999, 0.001], [0, 1], [1.0], [0.2, 0.3, 0.5]):
        for s in seeds: out.append({'l': 'Fixed', 'pmf': pmf, 'seed': s})
    for e in (0, 0.1, 1):
        for s in seeds: out.append({'l': 'Eps', 'eps': e, 'seed': s})
    for s in seeds: out.append({'l': 'UCB', 'seed': s})
    for s in seeds:
        out.append({'l': 'Mis', 'base': {'l': 'Eps', 'eps': 0.1, 'seed': s}, 'shift': 1, 'scale': -1})
        out.append({'l': 'Mis', 'base': {'l': 'Eps', 'eps': 0.1, 'seed': s}, 'shift': -1, 'scale': 2})
        out.append({'l': 'Mis', 'base': {'l': 'UCB', 'seed': s}, 'shift': 1, 'scale': -1})
    base_sets = lambda s: ([{'l': 'Eps', 'eps': 0.1, 'seed': s}],
                           [{'l': 'Fixed', 'pmf': [0.999, 0.001], 'seed': s}, {'l': 'Random', 'seed': s}],
                           [{'l': 'Eps', 'eps': 0.1, 'seed': s}, {'l': 'UCB', 'seed': s}])
    for mode in ('importance', 'off-policy'):
        for eta in (0.075, 1, 10):
            for T in ('inf', 4):
                for s in seeds:
                    for bases in base_sets(s):
                        out.append({'l': 'Corral', 'bases': bases, 'eta': eta, 'T': T, 'mode': mode, 'seed': s})
    return out


def extreme_configs():
    """Corral over three base learners, explored with the additional logged probability 1e-4 (plan X)."""
    out = []
    for mode in ('importance', 'off-policy'):
        for eta in (1, 10):
            for T in ('inf', 4):
                out.append({'l': 'Corral', 'bases': [{'l': 'Eps', 'eps': 0.1, 'seed': 1}, {'l': 'UCB', 'seed': 1}, {'l': 'Random', 'seed': 1}],
                            'eta': eta, 'T': T, 'mode': mode, 'seed': 1})
    return out


def extreme2_configs():
    """Corral with a large learning rate over two always disagreeing Fixed learners / over [Epsilon, UCB] (plan E)."""
    out = []
    for bases in ([{'l': 'Fixed', 'pmf': [1, 0], 'seed': 1}, {'l': 'Fixed', 'pmf': [0, 1], 'seed': 1}],
                  [{'l': 'Eps', 'eps': 0.1, 'seed': 1}, {'l': 'UCB', 'seed': 1}]):
        for eta in (10, 100):
            for mode in ('importance', 'off-policy'):
                out.append({'l': 'Corral', 'bases': bases, 'eta': eta, 'T': 'inf', 'mode': mode, 'seed': 1})
    return out


# ---- plan G: draws of the learner's private generator steered to the ends of [0,1) (the ORBIT idea of C05)
_LCG_A, _LCG_C, _LCG_M = 116646453, 9, 2 ** 30
_LCG_A_INV = pow(_LCG_A, -1, _LCG_M)


def seed_with_first_state(v):
    """The integer seed whose first uniform is v / 2**30."""
    return ((v - _LCG_C) * _LCG_A_INV) % _LCG_M


ORBIT_SEEDS = [seed_with_first_state(v) for v in (_LCG_M - 1, _LCG_M - 2, _LCG_M - 3, 0, 1)]      # u = 1-2^-30, 1-2^-29, ..., 0.0, 2^-30
CORRAL_GAP_SEED, CORRAL_GAP_DRAW, CORRAL_GAP_MIN = 31, 5, 0.99996          # 5th uniform of CobaRandom(31*1.234) is 0.99998351...


def orbit_selfcheck():
    for s_, v in zip(ORBIT_SEEDS, (_LCG_M - 1, _LCG_M - 2, _LCG_M - 3, 0, 1)):
        if CobaRandom(s_).random() != v / _LCG_M: raise HarnessError('ORBIT seed does not give the intended first uniform')
    g = CobaRandom(CORRAL_GAP_SEED * 1.234)
    us = [g.random() for _ in range(CORRAL_GAP_DRAW)]
    if not us[-1] > CORRAL_GAP_MIN: raise HarnessError('the Corral gap seed does not draw near 1 any more')


def orbit_configs():
    """Fixed learners whose (accepted) pmf sums to less than 1 or has zero entries, on seeds whose first draw is at an end of [0,1)."""
    out = []
    for pmf in ([0.3332, 0.3332, 0.3332], [0.4998, 0.4998], [0, 1], [1, 0], [0.5, 0.5]):
        for s_ in ORBIT_SEEDS: out.append({'l': 'Fixed', 'pmf': pmf, 'seed': s_})
    return out


def corral_gap_config():
    """After learn(first action, reward 0, logged probability .01) the weights of this Corral sum to 0.99995242 (inside its 1e-4
    accuracy) and stay there while the reward is 1; the 5th draw of its private generator (seed 31) is 0.99998351."""
    return {'l': 'Corral', 'bases': [{'l': 'Fixed', 'pmf': [1, 0], 'seed': 1}, {'l': 'Fixed', 'pmf': [0, 1], 'seed': 1}],
            'eta': 0.075, 'T': 'inf', 'mode': 'importance', 'seed': CORRAL_GAP_SEED}


def typed_configs():
    """Learners that turn actions into dictionary keys (and their wrappers), for the action-type plan T."""
    E = {'l': 'Eps', 'eps': 0.1, 'seed': 1}; U = {'l': 'UCB', 'seed': 1}
    out = [{'l': 'Random', 'seed': 1}, {'l': 'Fixed', 'pmf': [0.5, 0.5], 'seed': 1}, E, {'l': 'Eps', 'eps': 0, 'seed': 1}, U,
           {'l': 'Mis', 'base': E, 'shift': 1, 'scale': -1}, {'l': 'Mis', 'base': U, 'shift': 1, 'scale': -1}]
    for mode in ('importance', 'off-policy'):
        out.append({'l': 'Corral', 'bases': [E, U], 'eta': 1, 'T': 'inf', 'mode': mode, 'seed': 1})
    out.append({'l': 'Corral', 'bases': [E], 'eta': 0.075, 'T': 4, 'mode': 'importance', 'seed': 1})
    return out


E_MODES = [f'a{k}@{p}' for k in (0, 1) for p in ('1e-05', '0.0001', '1')]


# ------------------------------------------------------------------------------------------------ canonical state

_OBJ_TYPES = frozenset((RandomLearner, FixedLearner, BanditEpsilonLearner, BanditUCBLearner, MisguidedLearner, CorralLearner,
              SafeLearner, PMFPredictor, PMFInfoPredictor, OnlineVariance))


def rng_state(r):
    """The complete state of a CobaRandom: position of the LCG and of the (never used here) gaussian stream."""
    fu = r._randu.gi_frame
    fg = r._randg.gi_frame
    if fu is None or fg is None: raise HarnessError('a CobaRandom stream is exhausted')
    lu = fu.f_locals
    if lu['a'] != 116646453 or lu['c'] != 9 or lu['m'] != 2 ** 30: raise HarnessError('unexpected LCG constants')
    lg = fg.f_locals
    return ('RNG', lu['s'], fg.f_lasti, repr(lg.get('R')), repr(lg.get('S')))


def _canon(o, path, rngs):
    """Structure of everything reachable from a learner; rng positions are appended to `rngs` (fail closed on unknown types)."""
    t = type(o)
    if o is None or t is bool or t is int or t is str: return o
    if t is float: return ('f', repr(o))
    if t is list:
        if o is _SHARED: return 'ALIAS'          # the caller's own (re-used, in place mutated) action list is held by the learner
        return ('L', *[_canon(v, path, rngs) for v in o])
    if t is tuple: return ('T', *[_canon(v, path, rngs) for v in o])
    if t is HashableDense: return ('HD', *[_canon(v, path, rngs) for v in o])
    if t is dict: return ('D', *[(_canon(k, path, rngs), _canon(v, path, rngs)) for k, v in o.items()])
    if t is defaultdict: return ('DD', repr(o.default_factory), *[(_canon(k, path, rngs), _canon(v, path, rngs)) for k, v in o.items()])
    if t is HashableSparse: return ('HS', _canon(dict(o._item.items()), path, rngs))
    if isinstance(o, Dense_): return ('XD', t.__name__, *[_canon(v, path, rngs) for v in o])                      # coba dense rows: by content
    if isinstance(o, (Sparse_, abc.Mapping)): return ('XS', t.__name__, _canon(dict(o.items()), path, rngs))       # coba sparse rows / mappings
    if t is CobaRandom:
        rngs.append((o._seed, rng_state(o)))
        return 'R'
    if t is types.MethodType:
        for i, p in enumerate(path):
            if o.__self__ is p: return ('M', o.__func__.__qualname__, i)
        raise HarnessError(f'bound method of an object outside the learner: {o!r}')
    if t in _OBJ_TYPES:
        for p in path:
            if o is p: raise HarnessError('cyclic learner state')
        p2 = path + (o,)
        return ('O', t.__name__, *[(k, _canon(v, p2, rngs)) for k, v in sorted(vars(o).items())])
    if getattr(t, '__module__', '').startswith('coba.'):              # any other coba object: every attribute (dict and slots)
        for p in path:
            if o is p: raise HarnessError('cyclic learner state')
        attrs = dict(vars(o)) if hasattr(o, '__dict__') else {}
        for c in t.__mro__:
            for name in getattr(c, '__slots__', ()):
                if name != '__dict__' and hasattr(o, name): attrs[name] = getattr(o, name)
        p2 = path + (o,)
        return ('O', t.__name__, *[(k, _canon(v, p2, rngs)) for k, v in sorted(attrs.items())])
    raise HarnessError(f'canonical form: unknown type {t.__name__} in learner state ({o!r})')


_SHARED = None


def canon(L, shared=None):
    """-> (policy part, rng part): together the complete canonical state of a learner.  `shared`: the caller's re-used action
    list (plan A); a reference to it inside the learner is rendered as an alias, not by content."""
    global _SHARED
    _SHARED = shared
    try:
        rngs = []
        c = _canon(L, (), rngs)
    finally:
        _SHARED = None
    return (c, tuple(rngs))


# ------------------------------------------------------------------------------------------------ one step on the real learner

HORIZON_MODE = 'step does not return within the horizon'


class StepTimeout(BaseException):
    pass


def _vt_alarm(signum, frame):
    raise StepTimeout()


def where_raised(e):
    """class@innermost coba function (stable part of a traceback)."""
    fn = '?'
    for fs in traceback.extract_tb(e.__traceback__):
        if '/coba/' in fs.filename: fn = fs.name
    return f'{type(e).__name__}@{fn}'


class Rec:
    """What one checked step reports."""
    __slots__ = ('violations', 'outcome', 'dead', 'scores')

    def __init__(self): self.violations = []; self.outcome = None; self.dead = False; self.scores = None

    def v(self, key, what, dead=True):
        self.violations.append((key, re.sub(r' object at 0x[0-9a-f]+', '', what)))
        if dead: self.dead = True


def r6(x):
    try: return round(x, 6)
    except Exception: return repr(x)     # noqa


def do_step(L, d, op, rec=None, probe=False, shared=None):
    """Apply one step to the real learner.  With `rec` the oracle is evaluated; without, exactly the same calls are made
    (replay of an already checked prefix).  Step kinds (op[2]):
      own / log / tiny / micro   predict, score of every offered action (not Corral), learn (see module docstring)
      predict                    predict only - a query that is not followed by a learn
      score                      score of every offered action only (not Corral)
      learn                      learn of the first offered action with logged probability .5, without a query before it (not Corral)
      a<k>@<prob>                predict, then learn of the k-th offered action logged with probability <prob> (plan E, Corral)
    `probe`: predict and score, no learn (is the learner still able to answer?).
    `shared`: the caller's one action list object; it is changed in place to this step's action set (plan A) instead of a fresh list.
    Returns False when the learner cannot be used any further."""
    sname, reward, mode = op
    mk, ctx, kind = SETS[sname]
    if shared is None:
        A = mk()
    else:
        shared[:] = mk(); A = shared
    ctx = fresh(ctx)
    fam = family(d)
    corral = is_corral(d)
    K = lambda m, f='': (fam, m, f)
    p_bars = list(L._p_bars) if (corral and rec is not None) else None
    if corral and mode in ('score', 'learn'): raise HarnessError(f'step kind {mode} is not defined for Corral')
    a = p = idx = None
    kw = {}
    do_predict = mode not in ('score', 'learn')
    do_score = (not corral) and mode not in ('predict', 'learn')

    # -- predict
    if do_predict:
        try:
            pred = L.predict(ctx, A)
        except Exception as e:   # noqa
            if rec is None: raise HarnessError(f'replay diverged: predict raised {e!r}')
            rec.v(K(f'predict raises {where_raised(e)}'), f'predict({ctx!r}, {A!r}) raised {e!r}'); return False
        if not isinstance(pred, tuple) or len(pred) != (3 if corral else 2):
            if rec is None: raise HarnessError('replay diverged: prediction shape')
            rec.v(K('malformed prediction'), f'predict returned {pred!r}'); return False
        a, p = pred[0], pred[1]
        kw = pred[2] if corral else {}
        idx = None
        for i, x in enumerate(A):
            if a is x or a == x: idx = i; break
        if rec is not None:
            if idx is None:
                rec.v(K('predicted action not in the offered set'), f'predict({ctx!r}, {A!r}) returned action {a!r}'); return False
            if not isinstance(p, (int, float)) or isinstance(p, bool) or not (0 < p <= 1 + (1e-4 if corral else 1e-9)):
                rec.v(K('returned probability not in (0,1]'), f'predict({ctx!r}, {A!r}) returned ({a!r}, {p!r})'); return False
        elif idx is None:
            raise HarnessError('replay diverged: action')

    # -- score (deterministic-policy learners): same calls in replay mode, score may touch defaultdicts
    if do_score:
        scores = []
        for x in A:
            try:
                scores.append(L.score(ctx, A, x))
            except Exception as e:   # noqa
                if rec is None: raise HarnessError(f'replay diverged: score raised {e!r}')
                rec.v(K(f'score raises {where_raised(e)}'), f'score({ctx!r}, {A!r}, {x!r}) raised {e!r}'); return False
        if rec is not None:
            if any((not isinstance(s, (int, float))) or s != s or s < 0 for s in scores):
                rec.v(K('score negative or not a number'), f'scores over {A!r}: {scores!r}'); return False
            if abs(sum(scores) - 1) > (5.0001e-4 if d['l'] == 'Fixed' else 1e-9):     # Fixed: the tolerance its constructor accepts
                rec.v(K('scores do not sum to 1'), f'scores over {A!r}: {scores!r} (sum {sum(scores)!r})'); return False
            if do_predict and abs(scores[idx] - p) > 1e-9:
                rec.v(K('returned probability differs from score of the returned action'),
                      f'predict({ctx!r}, {A!r}) returned ({a!r}, {p!r}) but scores are {scores!r}'); return False
            rec.scores = tuple(scores)
            rec.outcome = (fam, sname, idx, r6(p), tuple(r6(s) for s in scores))
    elif corral and rec is not None:
        info = kw.get('info') if isinstance(kw, dict) else None
        if not (isinstance(info, tuple) and len(info) == 3 and len(info[0]) == len(p_bars)):
            rec.v(K('malformed prediction'), f'predict returned kwargs {kw!r}'); return False
        base_actions = info[0]
        for ba in base_actions:
            if not any(ba == x for x in A):
                rec.v(K('base learner proposal not in the offered set'), f'offered {A!r}, base learners proposed {list(base_actions)!r}'); return False
        want = sum(pb for pb, ba in zip(p_bars, base_actions) if ba == a)
        if abs(want - p) > 1e-9:
            rec.v(K('returned probability is not the pmf value of the returned action'),
                  f'offered {A!r}, base proposals {list(base_actions)!r} with weights {p_bars!r}: returned ({a!r}, {p!r}), pmf value {want!r}'); return False
        rec.outcome = (fam, sname, idx, r6(p), tuple(ba == a for ba in base_actions))
    elif rec is not None and do_predict:
        rec.outcome = (fam, sname, idx, r6(p), 'predict only')
    if probe or mode in ('predict', 'score'): return True

    # -- learn
    if mode == 'own':
        la, lp = a, p
    elif mode == 'learn':
        la, lp = A[0], 0.5
    elif mode[0] == 'a' and '@' in mode:              # 'a<k>@<prob>': the k-th offered action was logged with that probability
        la, lp = A[int(mode[1:mode.index('@')])], float(mode[mode.index('@') + 1:])
    else:
        la, lp = A[(idx + 1) % len(A)], LOG_PROB[mode]
    try:
        L.learn(ctx, la, reward, lp, **kw)
    except Exception as e:   # noqa
        if rec is None: raise HarnessError(f'replay diverged: learn raised {e!r}')
        rec.v(K(f'learn raises {where_raised(e)}'), f'learn({ctx!r}, {la!r}, {reward!r}, {lp!r})' + (f' after predict -> ({a!r}, {p!r})' if do_predict else '') + f' raised {e!r}'); return False

    if corral and rec is not None:
        for name in ('_ps', '_p_bars'):
            w = getattr(L, name)
            if any((not isinstance(x, float)) or x != x or x in (math.inf, -math.inf) or x <= 0 for x in w):
                rec.v(K('weights not strictly positive', name), f'{name} = {w!r} after learn({la!r}, {reward!r}, {lp!r})'); return False
            if abs(sum(w) - 1) > 1e-4:
                rec.v(K('weights do not sum to 1', name), f'{name} = {w!r} (sum {sum(w)!r}) after learn({la!r}, {reward!r}, {lp!r})'); return False
    return True


def run_history(d, hist, shared=None):
    """A fresh learner with `hist` replayed on it (no oracle, divergence is a harness error)."""
    L = build(d)
    for op in hist: do_step(L, d, op, shared=shared)
    return L


def checked_step(L, d, op, probe=False, shared=None):
    """One oracle-checked step under the CPU-time horizon."""
    rec = Rec()
    signal.setitimer(signal.ITIMER_VIRTUAL, STEP_CPU_HORIZON, 0.25)     # repeating: survives a bare `except:` in the code under test
    try:
        do_step(L, d, op, rec, probe, shared)
    except StepTimeout:
        rec.v((family(d), HORIZON_MODE, ''),
              f'predict/learn on {op!r} used more than {STEP_CPU_HORIZON}s of CPU time')
    finally:
        signal.setitimer(signal.ITIMER_VIRTUAL, 0)
    return rec


QUERY_MODES = ('predict', 'score')
PURITY_MODE = 'scores changed by a query without a learn in between'


def vec_differs(u, v):
    return len(u) != len(v) or any(abs(x - y) > 1e-12 for x, y in zip(u, v))


def step_signature(rec):
    return (sorted(k for k, _ in rec.violations), rec.outcome, rec.scores)


def check_history(d, hist, alias=False):
    """Every violation of one history: step invariants, the query-purity relation and (alias: the caller re-uses one action list
    object and changes it in place between the rounds) equality with a twin learner that is given fresh lists.
    -> [(key triple, what, steps needed)]"""
    out = []
    L = build(d)
    shared = [] if alias else None
    Lf = build(d) if alias else None
    vecs = {}
    for i, op in enumerate(hist):
        probe = op[2] == 'probe'
        rec = checked_step(L, d, op, probe=probe, shared=shared)
        for k, what in rec.violations: out.append((k, what, i + 1))
        if alias:
            recf = checked_step(Lf, d, op, probe=probe)
            if not rec.violations and not recf.violations and step_signature(rec) != step_signature(recf):
                out.append(((family(d), ALIAS_MODE, ''), alias_what(op, rec, recf), i + 1)); return out
            if recf.dead: return out
        if rec.dead: return out
        if op[2] == 'score' and rec.scores is not None: vecs[i] = rec.scores
    if not is_corral(d):
        for i in sorted(vecs):
            j = i
            while j > 0 and hist[j - 1][2] in QUERY_MODES: j -= 1
            if j == i: continue
            sh = [] if alias else None
            L = run_history(d, hist[:j], sh)                   # the same learning history without the queries
            ref = checked_step(L, d, hist[i], shared=sh).scores
            if ref is not None and vec_differs(ref, vecs[i]):
                out.append(((family(d), PURITY_MODE, ''), f'scores over {SETS[hist[i][0]][0]()!r} are {list(vecs[i])!r} after the queries '
                            f'{[list(o) for o in hist[j:i]]!r}, {list(ref)!r} without them (same learning history)', i + 1))
    return out


def alias_what(op, rec, recf):
    return (f'step {list(op)!r} on the caller\'s re-used list (now {SETS[op[0]][0]()!r}): (action index, probability, scores / base agreement) = '
            f'{rec.outcome[2:] if rec.outcome else None!r}, with a fresh equal list: {recf.outcome[2:] if recf.outcome else None!r}')


def violates(d, hist, fam_mode, alias=False):
    """Does the (checked) history violate with the same component and failure mode?"""
    return any(k[:2] == fam_mode for k, _, _ in check_history(d, hist, alias))


def final_key(d, hist, k, alias=False):
    """component|failure mode|minimal discriminating feature.  The feature is found by re-running simplified variants
    of the violating history: (1) non-int action sets replaced by equally sized, equally disjoint int sets - if it still
    fails the action type is not needed; (2) every step on the action set of the failing step - if it still fails a change
    of the action set is not needed; (3) plan A: with fresh lists - if it still fails the re-use of the list is not needed."""
    fam, mode, feat = k
    hist = [tuple(o) for o in hist]
    last = hist[-1][0]
    kind = SETS[last][2]
    if any(o[0] in SUBST for o in hist):
        if violates(d, [(SUBST.get(o[0], o[0]),) + o[1:] for o in hist], (fam, mode), alias): kind = 'any action type'
    elif kind == 'int actions':
        kind = 'any action type'
    shape = 'fixed action set'
    if any(o[0] != last for o in hist):
        if not violates(d, [(last,) + o[1:] for o in hist], (fam, mode), alias): shape = 'changed action set'
    feats = ([feat] if feat else []) + [shape, kind]
    if alias and (mode == ALIAS_MODE or not violates(d, hist, (fam, mode), False)): feats.append('action list re-used and changed in place')
    return f"{fam}|{mode}|{'; '.join(feats)}"


# ------------------------------------------------------------------------------------------------ the check

class C16(Check):
    ID = 'C16'
    LEVEL = 'model_checking'
    ENGINE = 'HIST'
    RULE = ('cases = (learner configuration, step alphabet, depth): Random, Fixed (6 pmfs), BanditEpsilon (eps 0, .1, 1), BanditUCB, '
            'Misguided(BanditEpsilon|BanditUCB, reward flipped / shifted below 0), Corral (base sets [Eps], [Fixed,Random], [Eps,UCB] x eta '
            '{.075,1,10} x T {inf,4} x {importance, off-policy}), seeds {1,2}; step = (action set in {[1,2],[1,2,3],["a"],dense pair,sparse '
            'pair}, reward in {0,.5,1}, learn mode in {own prediction, next action logged with prob .5, (Corral) next action logged with '
            'prob .01}); every history up to the depth is explored breadth first on the real learner (replayed from scratch per '
            'transition), merging histories only on equal complete canonical learner state incl. all rng positions. quick: one fixed '
            'action set depth 4 (Corral seed 1 only), changing action sets with rewards {0,1} depth 3 (Corral depth 2), seed 1. thorough: '
            'fixed action set depth 6 (Corral depth 5, and depth 6 with rewards {0,1}); changing action sets depth 3 with the full alphabet '
            'and depth 4 with rewards {0,1} for seed 1 (Corral: depth 3 with rewards {0,1}, depth 4 over 3 action sets x rewards {0,1} x '
            '{own, prob .01} for seed 1). Both tiers: Corral over [Eps,UCB,Random] x eta {1,10} with the extra logged probability .0001 on '
            'a fixed action set (quick depth 4 on [1,2]; thorough depth 4 full alphabet and depth 6 with rewards {0,.5} on [1,2] and '
            '[1,2,3]); Corral over two always disagreeing Fixed learners / [Eps,UCB] x eta {10,100} x both modes on [1,2] with the logged action '
            'chosen independently of the prediction (first / second) x logged probability {1e-5,1e-4,1} x rewards {0,1}, depth 4 (thorough 5); '
            'Fixed pmfs summing to .9996 or with zero entries on seeds whose first uniform is at an end of [0,1), one Corral whose weights sum to .99995 when its '
            'generator draws .99998; actions of coba row types / MappingProxyType (depth 3, thorough 4); query plans with predict-only / score-only / learn-without-query steps over changing action sets (depth 3, Corral 2; thorough 3-4). A distinct state is non-trivial when the step reaching it changed the learner state apart from its rng '
            'positions (the policy or its statistics moved)')
    ASSUMPTIONS = [
        'contexts are tied to the action set (None, tuple, str, list, dict): the learners are context-free',
        'a FixedLearner (alone or as a Corral base) is only offered action sets of the length of its pmf (anything else is a caller error)',
        'the logged action of the non-own learn modes is the offered action after the predicted one (cyclic); its logged probability is .5 or (Corral only, where it matters) .01, and .0001 in the 3-base Corral cases; in the extreme plan (eta 10/100) the logged action is the first or second offered action with probability 1e-5, 1e-4 or 1',
        'rewards are 0, .5, 1; Misguided shifts them to [0,1] (flip) or to {-1,0,1} for BanditEpsilon only; Corral is never fed rewards outside [0,1]',
        'Corral.score is not constrained (each call re-samples its base learners; the statement constrains score for the deterministic-policy learners only)',
        'for Corral "the probability with which its policy selects the action" is taken as its own pmf value given the base proposals (sum of p_bar over the proposing base learners), not the marginal over base draws',
        'for FixedLearner the scores must sum to 1 only within the tolerance its constructor accepts (round(sum,3) == 1), and the returned probability is the pmf entry as given',
        'plan A: the caller may re-use one action list object and change it in place between calls (never during a call); the learner must then answer exactly like a learner that is handed a fresh equal list every round',
        'score of an action outside the offered set, learn of an action outside the offered set, and seeds None are outside the alphabet',
        'the canonical state is every attribute reachable from the learner plus the LCG position of every CobaRandom; unknown attribute types abort the run (exit 2) instead of being ignored',
        'step horizon: one predict+score+learn step may use 2 s of CPU time (normal: < 1 ms); after a step exceeded it the rest of that case is not explored (reported as a cap)',
    ]
    TECHNIQUE = ('explicit-state breadth-first search over (action set, reward, learn mode) histories of one real learner object, replay from '
                 'scratch per transition, merging on a complete canonical state (all attributes + rng positions); invariants checked on every transition')
    LEVEL_TEXT = ('Every history of <=4 (thorough <=6; Corral 5, and 6 with rewards {0,1}) steps over a fixed action set and <=3 (thorough <=4 with '
                  'rewards {0,1}; Corral 2 / 3-4) steps over changing action sets is executed on the real learner for every listed configuration; '
                  'predict/score/learn outputs and Corral weights are checked on every transition, so the shortest violating history below '
                  'the bound is found with certainty.')
    LEVEL_NOTE = 'small-scope hypothesis: depth <=6, rewards {0,.5,1}, 5 action sets, logged probabilities {.5,.01,1e-4,1e-5,1}, eta <= 100, <= 3 base learners, seeds {1,2}; float results compared with 1e-9 (Corral weights 1e-4)'
    MIN_NONTRIVIAL = {'quick': 50000, 'thorough': 500000}
    CASE_TIMEOUT = 1500
    TIMEOUT_IS_VIOLATION = False       # own per-step CPU horizon (StepTimeout) classifies non-termination

    def setup(self, tier):
        signal.signal(signal.SIGVTALRM, _vt_alarm)
        orbit_selfcheck()

    # -------------------------------------------------------------- enumeration
    def cases(self, tier):
        """Plans (each a list of cases, cheap learners first inside a plan):
        quick     F  every configuration (Corral: seed 1) x each action set alone, full step alphabet, depth 4
                  X  Corral over 3 base learners (eta {1,10}), [1,2], rewards {0,.5} x {own, logged .01, logged .0001}, depth 4
                  E  Corral over [Fixed([1,0]),Fixed([0,1])] / [Eps,UCB], eta {10,100}, both modes, [1,2]: rewards {0,1} x logged
                     action {first, second} x logged probability {1e-5, 1e-4, 1}, depth 4 (thorough: 5)
                  G  Fixed pmfs summing to .9996 / with zero entries on seeds whose first uniform is 1-2^-30.., 0.0, 2^-30 (depth 2);
                     one Corral whose weights sum to .99995 while its 5th draw is .99998 (depth 5 over a 2-step alphabet)
                  T  actions of coba row types (LazyDense, HeadDense, SparseDense, LazySparse) and MappingProxyType: depth 3 (thorough 4)
                     per set, and mixed with the equal tuple / dict actions (depth 2, thorough 3)
                  A  one re-used action list changed in place between [1,2], [1,2,3], [1,3], [1] (append / pop / replace) x rewards {0,1} x
                     {own, predict only, score only}, depth 3 (thorough 4), every answer compared with a twin learner given fresh lists
                  Q  seed 1 x all its action sets, rewards {0,1} x {own, learn without query} + predict only + score only: depth 3;
                     Corral {own} + predict only: depth 2
                  C  seed 1 x all its action sets, rewards {0,1}: others depth 3 (20 steps), Corral depth 2 (30 steps)
        thorough  F  others depth 6; Corral depth 5, and depth 6 with rewards {0,1}
                  X  [1,2] and [1,2,3]: full rewards x {own, .5, .01, .0001} depth 4; rewards {0,.5} x {own, .01, .0001} depth 6
                  Q  as quick for both seeds, depth 3 (also Corral); others seed 1: depth 4 over 3 action sets
                  C  others: depth 3 full alphabet (30 steps), seed 1 depth 4 with rewards {0,1} (20 steps);
                     Corral: depth 3 with rewards {0,1} (30 steps), seed 1 depth 4 over 3 action sets x rewards {0,1} x {own, tiny}
        Every quick case is contained in a thorough case."""
        quick = tier == 'quick'
        cfgs = learner_configs(tier)
        R01 = [0, 1]

        def sets_of(d):
            n = pmf_len(d)
            return [s for s in ALL_SETS if n is None or SET_SIZE[s] == n]

        def modes_of(d): return ['own', 'log'] + (['tiny'] if is_corral(d) else [])

        def seed_of(d): return d['seed'] if 'seed' in d else d['base']['seed']

        def case(d, sets, rewards, modes, depth): return {'learner': d, 'sets': sets, 'rewards': rewards, 'modes': modes, 'depth': depth}

        # -- F: one fixed action set
        for d in cfgs:
            if quick and is_corral(d) and seed_of(d) != 1: continue
            for s in sets_of(d):
                yield case(d, [s], REWARDS, modes_of(d), 4 if quick else (5 if is_corral(d) else 6))
        if not quick:
            for d in cfgs:
                if is_corral(d):
                    for s in sets_of(d): yield case(d, [s], R01, modes_of(d), 6)
        # -- X: extreme importance weights (Corral over 3 base learners, logged probabilities .01 and .0001)
        for d in extreme_configs():
            if quick:
                yield case(d, ['i2'], [0, 0.5], ['own', 'tiny', 'micro'], 4)
            else:
                for s in ('i2', 'i3'):
                    yield case(d, [s], REWARDS, ['own', 'log', 'tiny', 'micro'], 4)
                    yield case(d, [s], [0, 0.5], ['own', 'tiny', 'micro'], 6)
        # -- E: extreme logged propensities with a large learning rate; the logged action is chosen independently of the prediction
        for d in extreme2_configs():
            yield case(d, ['i2'], R01, E_MODES, 4 if quick else 5)
        # -- G: generator draws at the ends of [0,1) x pmfs that sum to less than 1 within the accepted tolerance / have zero entries
        for d in orbit_configs():
            for sn in sets_of(d):
                if sn in ('i2', 'i3', 'p2'): yield case(d, [sn], R01, ['own', 'log'], 2)
        yield case(corral_gap_config(), ['i2'], R01, ['a0@0.01'], CORRAL_GAP_DRAW)
        # -- T: actions that are coba row types / read-only mappings
        for d in typed_configs():
            for sn in TYPED_SETS: yield case(d, [sn], R01, modes_of(d), 3 if quick else 4)
            if d['l'] in ('Eps', 'UCB', 'Corral'): yield case(d, ['d2', 'ld2', 'p2', 'mp2'], R01, ['own'], 2 if quick else 3)
        # -- A: the caller keeps ONE action list object and changes it in place between the rounds (append / pop / replace an element)
        for d in typed_configs():
            sets = [sn for sn in ALIAS_SETS if pmf_len(d) is None or SET_SIZE[sn] == pmf_len(d)]
            yield dict(case(d, sets, R01, ['own', 'predict'] if is_corral(d) else ['own', 'predict', 'score'], 3 if quick else 4), alias=True)
        # -- Q: queries that are not followed by a learn (predict only, score only), learn without a query before it
        QM = ['own', 'learn', 'predict', 'score']
        for d in cfgs:
            sets = sets_of(d)
            if len(sets) < 2: continue
            cor = is_corral(d)
            if quick:
                if seed_of(d) == 1: yield case(d, sets, R01, ['own', 'predict'] if cor else QM, 2 if cor else 3)
            elif cor:
                yield case(d, sets, R01, ['own', 'predict'], 3)
            else:
                yield case(d, sets, R01, QM, 3)
                if seed_of(d) == 1: yield case(d, sets[:3], R01, QM, 4)
        # -- C: the action set may change between rounds
        for d in cfgs:
            sets = sets_of(d)
            if len(sets) < 2: continue
            cor = is_corral(d)
            if quick:
                if seed_of(d) == 1: yield case(d, sets, R01, modes_of(d), 2 if cor else 3)
            elif not cor:
                yield case(d, sets, REWARDS, modes_of(d), 3)
                if seed_of(d) == 1: yield case(d, sets, R01, modes_of(d), 4)
            else:
                yield case(d, sets, R01, modes_of(d), 3)
                if seed_of(d) == 1: yield case(d, sets[:3], R01, ['own', 'tiny'], 4)

    # -------------------------------------------------------------- exploration of one case
    def run_case(self, case, acc):
        if 'history' in case: return self.run_witness(case, acc)
        d = case['learner']
        ops = []
        for sn in case['sets']:
            ops += [(sn, r, m) for r in case['rewards'] for m in case['modes'] if m not in QUERY_MODES]
            ops += [(sn, None, m) for m in case['modes'] if m in QUERY_MODES]
        depth = case['depth']
        fam = family(d)
        acc.count('cases_' + fam)

        t0 = acc.transitions
        alias = bool(case.get('alias'))
        wit = lambda h: dict({'learner': d, 'history': [list(o) for o in h]}, **({'alias': True} if alias else {}))

        def reach(h):
            """fresh learner(s) with h replayed: (learner, the caller's re-used list or None, twin driven with fresh lists or None)"""
            sh = [] if alias else None
            return run_history(d, h, sh), sh, (run_history(d, h) if alias else None)

        def state_of(L, sh, Lf): return (canon(L, sh), canon(Lf)) if alias else canon(L)
        policy = (lambda c: c[0][0]) if alias else (lambda c: c[0])

        c0 = state_of(*reach(()))
        seen = {c0: 0}                      # canonical state -> index
        svec = {}                           # (state index, action set) -> scores answered in that state
        qedges = []                         # (state, state after a query without learn, history of the latter)
        frontier = deque([((), c0)])
        acc.states += 1
        while frontier:
            hist, chist = frontier.popleft()
            for j, op in enumerate(ops):
                L, sh, Lf = reach(hist)
                if j == 0 and state_of(L, sh, Lf) != chist:      # replaying a history must reproduce its state exactly
                    raise HarnessError(f'replay of {hist!r} on {d!r} reached a different state (captured nondeterminism)')
                rec = checked_step(L, d, op, shared=sh)
                acc.transitions += 1; acc.traces += 1
                h2 = hist + (op,)
                if rec.outcome is not None: acc.outcome(rec.outcome)
                viol = list(rec.violations)
                dead = rec.dead
                if alias:
                    recf = checked_step(Lf, d, op)
                    if not rec.violations and not recf.violations and step_signature(rec) != step_signature(recf):
                        viol.append(((fam, ALIAS_MODE, ''), alias_what(op, rec, recf))); dead = True
                    dead = dead or recf.dead
                for k, what in viol:
                    acc.violation(final_key(d, h2, k, alias), what, wit(h2), order=(len(h2), acc._cur[0], acc._order))
                    acc._order += 1
                if any(k[1] == HORIZON_MODE for k, _ in viol):
                    acc.cap('case abandoned after a step exceeded the CPU horizon'); return
                if dead: continue
                if op[2] == 'score' and rec.scores is not None: svec[(seen[chist], op[0])] = rec.scores
                c2 = state_of(L, sh, Lf)
                known = c2 in seen
                if not known:
                    seen[c2] = len(seen); acc.states += 1
                    if policy(c2) != policy(chist): acc.mark_nontrivial(case_hash((d, h2, alias)))
                if op[2] in QUERY_MODES and seen[c2] != seen[chist]: qedges.append((seen[chist], seen[c2], h2))
                if known: continue
                if len(h2) < depth:
                    frontier.append((h2, c2))
                else:
                    # leaf: the learner must still be able to answer (same action set)
                    hp = h2 + ((op[0], None, 'probe'),)
                    rec = checked_step(L, d, hp[-1], probe=True, shared=sh)
                    for k, what in rec.violations:
                        acc.violation(final_key(d, hp, k, alias), what, wit(hp), order=(len(hp), acc._cur[0], acc._order))
                        acc._order += 1
        # query purity: a predict / score that is not followed by a learn must not change what the learner answers
        for ps, cs, h2 in qedges:
            for sname in case['sets']:
                u, v = svec.get((ps, sname)), svec.get((cs, sname))
                if u is not None and v is not None and vec_differs(u, v):
                    hp = h2 + ((sname, None, 'score'),)
                    acc.violation(final_key(d, hp, (fam, PURITY_MODE, ''), alias),
                                  f'scores over {SETS[sname][0]()!r} are {list(v)!r} after the query {list(h2[-1])!r}, {list(u)!r} before it',
                                  wit(hp), order=(len(hp), acc._cur[0], acc._order))
                    acc._order += 1
        acc.count('states_' + fam, len(seen))
        acc.count(f"transitions_{fam}_{'fixed' if len(case['sets']) == 1 else 'changing'}_set", acc.transitions - t0)

    # -------------------------------------------------------------- replay of one history
    def run_witness(self, w, acc):
        d = w['learner']
        hist = [tuple(o) for o in w['history']]
        alias = bool(w.get('alias'))
        for k, what, n in check_history(d, hist, alias):
            acc.violation(final_key(d, hist[:n], k, alias), what, w)
        acc.transitions += len(hist)

    def replay(self, witness, acc):
        signal.signal(signal.SIGVTALRM, _vt_alarm)
        return self.run_case(witness, acc)


CHECK = C16()
