"""C04 - environments can be read any number of times with identical results (HIST engine).

A *pipeline* (source + chain of built-in filters, reached either through the `Environments` facade - which appends
BatchSafe(Finalize()) - or as a raw `Pipes.join(source, *filters)`) is built FRESH from its descriptor for every
history.  A *history* is a sequence of operations on that one object:

    full      list(env.read())
    p1, p3    take 1 / 3 items from env.read(), drop the iterator, gc.collect()
    params    env.params
    pickle    continue on pickle.loads(pickle.dumps(env))
    mat       continue on Environments.materialize()[0]          (facade only)
    cache     continue on Environments.cache()[0]                (facade only)
    chunk     continue on Environments.chunk()[0]                (facade only)
    save      continue on Environments.save(zip)[0] = from_save  (facade only)

("fan" pipelines: `Environments(src).filter(...).shuffle(n=2)` gives two sibling environments that share the source and
the upstream filter objects; the operations full / p1 / params then carry the sibling index: full@0, full@1, ...)

Every history up to the depth bound is executed on the real code (no state merging: iterators hide state) and compared,
step by step, with the canonical form of the first full read of a fresh twin pipeline.
"""
import os, gc, pickle, itertools, warnings, shutil

from vf.core import Check, tmpdir, case_hash
from vf.engines.hist import histories

from coba import primitives
from coba.context import CobaContext, NullLogger, MemoryCacher
from coba.environments import Environments
from coba.environments import filters as ef
from coba.pipes import Pipes
from coba.exceptions import CobaExit, CobaException

from vf.lib.c04_pipelines import (defaults_changed, defaults_restore, tiny_env, SRC_LIN, SRC_ACT, SRC_CAT, CAT_PAIRS, LIN_PAIRS, Built, SHORTCUTS, DUO_PAIRS, DUO_PAIRS_MORE, duo_compatible, apply_shortcut, SOURCES, SRC_BIG, FILTERS, FILTERS_ONE, FILTERS_STATEFUL, build_source, make_filter, compatible,
                                  cinter, cparams, flavour, snapshot, src_mem)

warnings.simplefilter('ignore')

_SCRATCH = tmpdir()          # created in the parent before the fork; removed by the parent's atexit

A_RAW = ['full', 'p1', 'p3', 'params', 'pickle']                                      # raw pipelines
A_FAC = ['full', 'p1', 'p3', 'params', 'pickle', 'mat', 'cache', 'chunk', 'save']     # facade pipelines
A_FAC7 = ['full', 'p1', 'params', 'pickle', 'mat', 'cache', 'save']
A_FAC5 = ['full', 'p1', 'pickle', 'mat', 'cache']          # the state-changing operations (deepest level; params is looked up after the last one)
A_RAW3 = ['full', 'p1', 'pickle']
A_BIG = ['full', 'p1', 'p30', 'mat', 'cache', 'chunk']      # the 40-interaction source: operations that re-serve stored objects
A_BIG_RAW = ['full', 'p1', 'p30', 'pickle']
A_HUGE = ['full', 'p1', 'save']                              # the 1001-interaction source (save writes batches of 1000)
PARTS = {'p1': 1, 'p3': 3, 'p30': 30}
A_PAIR = ['full@0', 'full@1', 'params@0', 'params@1']      # two environments, full reads and params interleaved
A_PAIRP = ['full@0', 'full@1', 'pickle@0', 'pickle@1']      # two environments, each may be replaced by its unpickled copy
A_FAN = ['full@0', 'full@1', 'p1@0', 'p1@1', 'params@0', 'params@1']
READS = {'full', 'p1', 'p3', 'p30', 'mat', 'save'}           # operations that pull interactions through the pipeline
KIND = {'p1': 'part', 'p3': 'part', 'p30': 'part'}                   # op -> kind used in finding keys

SRC_ALL = [s for s in SOURCES if s not in SRC_BIG]
SRC_MAIN = ['lam', 'lam1h', 'lams', 'lamsp', 'lamna', 'supXY', 'supLS', 'csvF', 'arffL', 'resO', 'resF']
SRC_FEW = ['lam', 'resO', 'lamsp', 'arffL']           # one simulated/dense, one logged, one sparse, one lazy-row/categorical source
FAN_PREFIX = [[], ['Cache'], ['Densify'], ['Logged'], ['Take'], ['Batch']]


def _reset_context():
    CobaContext.logger = NullLogger()
    CobaContext.cacher = MemoryCacher()
    CobaContext.search_paths = []


def _fresh_process_state():
    """Between two executions no coba object is alive any more: drop what coba keeps in process-global memos (the
    lru_cache of Grounded.GroundedFeedback.__call__ pins every feedback object ever called, which also makes each
    gc.collect() slower and slower).  Never called in the middle of a history."""
    try:
        ef.Grounded.GroundedFeedback.__call__.cache_clear()
    except AttributeError:
        pass
    defaults_restore()         # mutable default argument objects hold what a fresh interpreter would hold


_reset_context()

ERRORS = (Exception, CobaExit)        # CobaExit derives from BaseException (CaseTimeout must pass through)


class Fail(Exception):
    """One oracle failure inside a history: (mode, detail, step)."""
    def __init__(self, mode, what, step):
        super().__init__(mode); self.mode = mode; self.what = what; self.step = step; self.op = None


class State:
    __slots__ = ('built', 'envs', 'env', 'sibs', 'snap', 'read_done', 'facade', 'zips')


def _subseq_at(got, want):
    """index j>0 with want[j:j+len(got)] == got (got non-empty), else None"""
    n = len(got)
    for j in range(1, len(want) - n + 1):
        if want[j:j + n] == got: return j
    return None


def diff_mode(got, want, full_want):
    """Name the way a read differs from the reference (failure mode of a finding key; no input-dependent values)."""
    if not got: return 'read yields nothing or a later part of the sequence'
    if _subseq_at(got, full_want) is not None: return 'read yields nothing or a later part of the sequence'
    pool = list(full_want)
    allin = True
    for g in got:
        for j, w in enumerate(pool):
            if g == w:
                del pool[j]; break
        else:
            allin = False; break
    if allin and len(got) == len(want): return 'read yields the interactions in another order'
    if len(got) != len(want): return 'read yields a different number of interactions'
    return 'read yields different interaction content'


def op_split(op):
    base, _, j = op.partition('@')
    return base, (int(j) if j else 0)


class C04(Check):
    ID = 'C04'
    LEVEL = 'model_checking'
    ENGINE = 'HIST'
    RULE = ('state = the history reaching it (live iterators cannot be copied). A pipeline = source x chain of built-in filters, rebuilt from its '
            f'descriptor for every history: {len(SRC_ALL)} re-iterable sources (LambdaSimulation plain/seeded over dense, one-hot, sparse, scalar and None-holding '
            'data, LinearSynthetic, SupervisedSimulation from X,Y (classification, regression) / ListSource rows / pairs / CsvSource / ArffSource over lists and '
            f'files, ResultEnvironment from a Result and from a file) x {len(FILTERS) - 2} parameterisations of 25 filter classes, chains pruned by a declared '
            'type-compatibility table; "raw" = Pipes.join(source,*filters), "facade" = Environments(source).filter(..)[0] (ends in BatchSafe(Finalize)); '
            '"siblings" = Environments(..).shuffle(n=2): two environments sharing source and upstream filter objects. Operations: full read, p1/p3 = '
            'partial read of 1/3 items then drop+gc, params, pickle round trip, and (facade) materialize, cache, chunk, save/from_save. EVERY operation '
            'sequence below the bound is executed on the real code (no merging, no sampling), each step compared with the first full read of a fresh twin '
            'and with a snapshot of the caller-owned data.  Bounds (quick | thorough): bare sources, raw+facade: all histories <=3 | <=4 over the complete '
            'alphabet (5 raw / 9 facade operations); source x 1 filter (11 main sources | all 17), raw+facade: all histories <=3 | <=4 over the '
            'state-changing operations {full,p1,pickle,+mat,cache} each followed by a params look-up, plus all histories <=2 | <=3 over the complete '
            'alphabet; source x 2 filters (25x25 filter classes, one parameterisation each): quick 4 sources, facade, all histories <=2 over {full,p1,params,'
            'pickle,mat,cache,save}; thorough 11 sources, raw+facade, <=3 state-changing (<=4 for the facade pipelines of 4 sources) / <=2 complete; thorough '
            'source x 3 stateful filters (4 sources x 7^3, facade) <=3 / <=2; siblings (bare sources + 5 one-filter prefixes): all histories <=3 | <=4 over '
            '{full,p1,params} x {sibling 0,1}; a 40-interaction x 4-action LambdaSimulation (larger than Cache\'s slice of 25 and than any 128-entry '
            'memo of lazily evaluated reward/feedback functions, which the canonical form calls on every action in a fixed order) x <=1 filter (25 classes), '
            'raw {full,p1,p30,pickle} and facade {full,p1,p30,mat,cache,chunk}: all histories <=3 | <=4, thorough also Grounded next to every filter <=3; a '
            '1001-interaction source (save batches of 1000) over {full,p1,save} <=2 | <=3; collections: ONE Environments object holding two different '
            f'environments (4 | 8 pairs of sources with other data / length / kind) x {len(SHORTCUTS)} facade shortcuts (cache, chunk, materialize, shuffle, take, '
            'slice, scale, impute, sparse, dense, repr, noise, batch, logged, grounded, params, ... and five two-step combinations with cache/chunk) each '
            'applied once to the collection: all histories <=3 | <=4 over {full,p1,params} x {member 0,1}, every member compared with a fresh twin of that '
            'member alone; action counts: sources with exactly 1 and exactly 2 one-hot actions and two-class nominal labels (3 and more: the other sources), bare '
            '(complete alphabet <=3 | <=4) and behind each of the 25 filter classes (as for source x 1 filter); order-only state: 3 sources whose nominal features have one level set declared in two orders ({u,v} and {v,u}; Categoricals carried by the '
            'pickle of SupervisedSimulation(X,Y) / a pickled LambdaSimulation / ARFF rows), bare and behind each filter class as above, and 3 pairs of such environments '
            'in one Environments object x {plain, cache()}: all histories <=3 | <=4 over {full, pickle round trip of the member} x {member 0,1}; parameter objects: 9 LinearSynthetic variants (no context / no action features, reward_features defaulted or caller-passed, direct and '
            'through Environments.from_linear_synthetic) alone (all histories <=2 | <=3) and as the first of two environments in one Environments object next to an '
            'ordinary default-argument environment (13 pairs x {plain, cache()}: all histories <=3 | <=4 over {full,params} x {member 0,1}); after EVERY step of EVERY '
            'history all list/dict/set default-argument objects of coba\'s environment/pipe code must hold what they held at import; save files: one collection '
            'of 12 | 13 tiny environments, save(first k) then save(first m>=k) onto the same file for every k<=m (member names pass 9->10->11), and every pair of '
            'index ranges of 4 | 5 environments x overwrite in {False,True}: what save() and from_save() return must contain every saved environment (equal to its '
            'twin alone) and nothing else, and the members handed out by the first save still read the same. '
            'A history is non-trivial when the reference read is non-empty and the history pulls interactions through the pipeline at least twice')
    ASSUMPTIONS = [
        'params before the first completed full read of the object at hand are not constrained (environments may learn params lazily); afterwards they must equal the params a fresh pipeline reports after its first read',
        'identity / python type of yielded objects is not constrained: contexts and actions are hardened (Dense->list, Sparse->dict), reward and '
        'feedback functions are compared through their values on the interaction\'s actions (probes 0,1,2.5 without actions), numbers by value',
        'reward / feedback functions are evaluated by the reader on every action of every interaction it receives, in the order of the interaction\'s action list (a value that depends on the order of first evaluation, as Grounded feedback words do on HEAD, is not constrained)',
        'a pipeline whose FIRST read (fresh twin) raises is not type-compatible and is skipped (counted as rejected_pipelines)',
        'an exception from pickle.dumps/loads is an accepted rejection (the history continues on the unpickled object); what a successfully '
        'unpickled object yields is constrained',
        'two iterators of the same environment alive at the same time are outside the alphabet (an abandoned iterator is dropped and collected before the next operation)',
        'a consumer that modifies the interaction dicts it was handed is outside the alphabet (so whether Cache hands out copies is not observable here)',
        'None seeds and one-shot (non re-iterable) inputs are outside the alphabet',
        'save() onto an existing file is explored for sub-collections of ONE collection of environments with distinct params; a file written from DIFFERENT environments that '
        'report equal params (coba identifies saved environments by params only; e.g. linear synthetic params omit n_interactions) is outside the alphabet; a mismatch '
        'without overwrite may be rejected with CobaException; the order of the members of a returned collection is not constrained',
        'sources that raise in the middle of a read (e.g. what pipes.Cache keeps after such a failure) are outside the alphabet',
        'after save()/from_save() the reference stays the same (the facade applies Finalize once more to finalized data)',
    ]
    TECHNIQUE = ('explicit-state exploration of operation histories on one real environment object: all histories over the operation alphabet up '
                 'to the depth bound, replayed from scratch on fresh objects, each step compared with a fresh twin pipeline; caller-owned data snapshotted after every step')
    LEVEL_TEXT = ('Every history of <=3 (thorough <=4) operations is executed on the real coba pipeline for every source x filter chain of length <=1 '
                  '(length 2: histories <=2, thorough <=3 (<=4 on 4 sources); thorough also length 3 over the stateful filters with histories <=3; sibling pairs: histories <=3/4); '
                  'exhaustive below the bound, so the shortest re-read counterexample of every pipeline in the alphabet is found with certainty.')
    LEVEL_NOTE = ('small-scope hypothesis: 5 interactions per source, one or two parameterisations per filter, histories <=4 operations, chains <=3 filters; '
                  'for chains the deepest level uses the state-changing operations only (+ a final params look-up), the complete alphabet one level shallower; '
                  'no state merging (iterators hide state)')
    MIN_NONTRIVIAL = {'quick': 40000, 'thorough': 400000}
    CASE_TIMEOUT = 600

    # -------------------------------------------------------------- enumeration (simplest first)
    @staticmethod
    def plans(facade, depth, deep=True, complete=None):
        """-> [(alphabet, depth, need)]: all histories <=depth over the state-changing operations plus all histories <=`complete`
        (default depth-1) over the complete alphabet (`need`: only histories that use an operation the first plan does not have)."""
        full, small = (A_FAC, A_FAC5) if facade else (A_RAW, A_RAW3)
        if not deep or depth <= 2: return [(full, depth, None)]
        return [(small, depth, None), (full, complete or depth - 1, [o for o in full if o not in small])]

    def pipelines(self, tier):
        """-> (pipe descriptor, plans)"""
        quick = tier == 'quick'
        d1 = 3 if quick else 4
        fl = [f for f in FILTERS if f not in ('Shuffle0', 'Shuffle1')]
        for facade in (False, True):
            for s in SRC_ALL:              # bare sources: the complete alphabet down to the deepest level
                yield {'src': s, 'chain': [], 'facade': facade}, self.plans(facade, d1, deep=False)
        for s in SRC_ALL:
            yield {'src': s, 'chain': [], 'facade': True, 'fan': True}, [(A_FAN, d1, None)]
        for facade in (False, True):
            for s in (SRC_MAIN if quick else SRC_ALL):
                for f in fl:
                    if compatible(s, [f]): yield {'src': s, 'chain': [f], 'facade': facade}, self.plans(facade, d1)
        for s in SRC_FEW:
            for pre in FAN_PREFIX[1:]:
                if compatible(s, pre): yield {'src': s, 'chain': pre, 'facade': True, 'fan': True}, [(A_FAN, d1, None)]
        # sources larger than the size bounds visible in the code (Cache slices of 25, a 128-entry memo, save batches of 1000)
        for facade in (False, True):
            ops = A_BIG if facade else A_BIG_RAW
            yield {'src': 'lam40', 'chain': [], 'facade': facade}, [(ops, d1, None)]
            for f in FILTERS_ONE:
                if compatible('lam40', [f]): yield {'src': 'lam40', 'chain': [f], 'facade': facade}, [(ops, d1, None)]
        yield {'src': 'lam1k', 'chain': [], 'facade': True}, [(A_HUGE, d1 - 1, None)]
        if not quick:   # the one filter whose interactions carry a stateful lazily evaluated function, next to every other filter
            for g in FILTERS_ONE:
                for ch in (['Grounded', g], [g, 'Grounded']):
                    if g != 'Grounded' and compatible('lam40', ch): yield {'src': 'lam40', 'chain': ch, 'facade': True}, [(A_BIG, 3, None)]
        # one Environments object holding TWO different environments, every facade shortcut applied once to the collection,
        # operations on the two members interleaved; each member must behave like a fresh twin of that member alone
        for a, b in (DUO_PAIRS if quick else DUO_PAIRS + DUO_PAIRS_MORE):
            for sc in SHORTCUTS:
                if sc != 'none' and duo_compatible(a, b, sc):
                    yield {'src': a, 'src2': b, 'short': sc, 'duo': True, 'chain': [], 'facade': True}, [(A_FAN, d1, None)]
        # action-count alphabet: exactly one / exactly two one-hot actions (reward functions whose argmax is a 1- / 2-tuple), two-class
        # nominal labels; bare and behind every filter class, through every persistence route (pickle, materialize, cache, chunk, save)
        for facade in (False, True):
            for s in SRC_ACT:
                yield {'src': s, 'chain': [], 'facade': facade}, self.plans(facade, d1, deep=False)
                for f in FILTERS_ONE:
                    if compatible(s, [f]): yield {'src': s, 'chain': [f], 'facade': facade}, self.plans(facade, d1)
        # state that differs only in ORDER behind __reduce__/__setstate__: nominal features with one level set declared in two orders, in one
        # environment whose pickle carries the values, and in two environments of one collection that are unpickled in every order
        for facade in (False, True):
            for s in SRC_CAT:
                yield {'src': s, 'chain': [], 'facade': facade}, self.plans(facade, d1, deep=False)
                if s != 'arffcc':
                    for f in FILTERS_ONE:
                        if compatible(s, [f]): yield {'src': s, 'chain': [f], 'facade': facade}, self.plans(facade, d1)
        for a, b in CAT_PAIRS:
            for sc in ('none', 'cache'):
                yield {'src': a, 'src2': b, 'short': sc, 'duo': True, 'chain': [], 'facade': True}, [(A_PAIRP, d1, None)]
        # caller-owned / defaulted parameter objects: linear synthetic environments without context / action features, reward_features
        # defaulted or passed by the caller; alone, and next to an ordinary environment that relies on the default arguments
        for s in SRC_LIN:
            yield {'src': s, 'chain': [], 'facade': False}, [(A_RAW, d1 - 1, None)]
            yield {'src': s, 'chain': [], 'facade': True}, [(A_FAC7, d1 - 1, None)]
        for a, b in LIN_PAIRS:
            for sc in ('none', 'cache'):
                yield {'src': a, 'src2': b, 'short': sc, 'duo': True, 'chain': [], 'facade': True}, [(A_PAIR, d1, None)]
        if quick:       # chains of two: every ordered pair of filter classes (one parameterisation each) on four sources
            for s in SRC_FEW:
                for f in FILTERS_ONE:
                    for g in FILTERS_ONE:
                        if compatible(s, [f, g]): yield {'src': s, 'chain': [f, g], 'facade': True}, [(A_FAC7, 2, None)]
        else:
            for facade in (False, True):
                for s in SRC_MAIN:
                    deep4 = facade and s in SRC_FEW
                    for f in FILTERS_ONE:
                        for g in FILTERS_ONE:
                            if compatible(s, [f, g]):
                                yield {'src': s, 'chain': [f, g], 'facade': facade}, self.plans(facade, 4 if deep4 else 3, complete=2)
            for s in SRC_FEW:
                for ch in itertools.product(FILTERS_STATEFUL, repeat=3):
                    if compatible(s, list(ch)): yield {'src': s, 'chain': list(ch), 'facade': True}, self.plans(True, 3)

    def cases(self, tier):
        for pipe, plans in self.pipelines(tier):
            for ops, depth, need in plans:
                for first in ops:                  # one case per (pipeline, plan, first operation): fine shards
                    c = dict(pipe, ops=ops, depth=depth, first=first)
                    if need: c['need'] = need
                    yield c
        yield from self.save_scenarios(tier)
        yield from self.derive_scenarios(tier)

    @staticmethod
    def save_scenarios(tier):
        """save() of a sub-collection of ONE collection of tiny environments onto the save file of another sub-collection of it:
        every nested pair of prefixes of 12 (13) environments (the member names pass 9 -> 10 -> 11), and every pair of index ranges
        of 4 (5) environments with and without overwrite."""
        n = 12 if tier == 'quick' else 13
        for k in range(1, n + 1):
            for m in range(k, n + 1):
                yield {'scenario': 'saves', 'n': n, 's1': [0, k], 's2': [0, m], 'overwrite': False}
        n = 4 if tier == 'quick' else 5
        ranges = [[a, b] for a in range(n) for b in range(a + 1, n + 1)]
        for r1 in ranges:
            for r2 in ranges:
                for ow in (False, True):
                    yield {'scenario': 'saves', 'n': n, 's1': r1, 's2': r2, 'overwrite': ow}

    # -------------------------------------------------------------- building
    def setup(self, tier):
        self._dir = os.path.join(_SCRATCH, str(os.getpid()))
        os.makedirs(self._dir, exist_ok=True)
        self._zipn = 0
        gc.collect(); gc.freeze()                  # keeps the gc.collect() after every abandoned read cheap

    def teardown(self):
        shutil.rmtree(getattr(self, '_dir', ''), True)

    def _scratch(self):
        if not getattr(self, '_dir', None): self.setup('quick')
        return self._dir

    def build(self, pipe, reset=True):
        """Fresh real objects for a pipeline descriptor {'src' | 'mem', 'chain', 'facade', ['fan']}."""
        if reset: _reset_context()         # (not when a replay source builds its upstream in the middle of an operation)
        st = State()
        if pipe.get('duo'):
            # ONE Environments object holding two different environments, a shortcut applied once to the collection;
            # with 'solo': j only member j (the fresh twin of that member alone)
            names = [pipe['src'], pipe['src2']]
            if 'solo' in pipe: names = [names[pipe['solo']]]
            parts = [build_source(n, self._scratch()) for n in names]
            b = Built(None, {f'{i}.{k}': v for i, x in enumerate(parts) for k, v in x.owned.items()},
                      {f'{i}.{k}': v for i, x in enumerate(parts) for k, v in x.files.items()})
            st.built = b; st.facade = True; st.read_done = [False, False]; st.zips = []
            envs = apply_shortcut(pipe['short'], Environments(*[x.env for x in parts]), b.owned)
            if len(envs) != len(parts): raise ValueError(f'{len(envs)} environments from {len(parts)}')
            st.envs = envs; st.sibs = [envs[j] for j in range(len(envs))]; st.env = st.sibs[0]
            if 'solo' in pipe: st.sibs = None
            st.snap = snapshot(b)
            return st
        st = State()
        b = src_mem(pipe['mem']) if 'mem' in pipe else build_source(pipe['src'], self._scratch())
        flts = [make_filter(f, b.owned) for f in pipe['chain']]
        st.built = b; st.facade = pipe['facade']; st.read_done = [False, False]; st.zips = []; st.sibs = None
        if pipe['facade']:
            envs = Environments(b.env)
            for f in flts: envs = envs.filter(f)
            if pipe.get('fan'):
                envs = envs.shuffle(n=2)
                st.sibs = [envs[0], envs[1]]
            st.envs = envs; st.env = envs[0]
        else:
            st.envs = None; st.env = Pipes.join(b.env, *flts)
        st.snap = snapshot(b)
        return st

    def reference(self, pipe):
        """-> ('ok', [items per sibling], [params per sibling], raw items) | ('rejected', exception, None, None)"""
        try:
            refs, prms, raw = [], [], None
            for j in range(2 if (pipe.get('fan') or pipe.get('duo')) else 1):
                if 'mem' not in pipe: _fresh_process_state()
                st = self.build(dict(pipe, solo=j) if pipe.get('duo') else pipe)     # a fresh twin per sibling / of that member ALONE: its first read is undisturbed
                env = st.sibs[j] if st.sibs else st.env
                raw = list(env.read())
                refs.append([cinter(i) for i in raw]); prms.append(cparams(env.params))
            return 'ok', refs, prms, raw
        except ERRORS as e:    # noqa
            return 'rejected', e, None, None

    # -------------------------------------------------------------- derived environments must not change their upstream
    def derive_scenarios(self, tier):
        """X = a stored collection (materialize / cache / chunk / plain); Y = X.<shortcut>() is read in between two reads of X
        (seed C04-L: a downstream filter writing into the interaction dicts that a non-copying store re-serves)."""
        for src in SRC_MAIN if tier == 'quick' else SRC_ALL:
            tags = set(SOURCES[src][2])
            for chain in ([], ['Logged']):
                if chain and not compatible(src, chain): continue
                t = set(tags)
                for f in chain: t = set(FILTERS[f][3](t))
                for store in ('none', 'materialize', 'cache', 'chunk'):
                    for short in SHORTCUTS:
                        if short in ('none', 'params') or not SHORTCUTS[short][1](t): continue
                        yield {'scenario': 'derive', 'src': src, 'chain': chain, 'store': store, 'short': short}

    def run_derive(self, case, acc):
        pipe = {'src': case['src'], 'chain': case['chain'], 'facade': True}
        label = f"{case['store']}() then .{case['short']}"
        try:
            st = self.build(pipe)
            X = apply_shortcut(case['store'], st.envs, st.built.owned)
            first = [cinter(i) for i in X[0].read()]
        except ERRORS:    # noqa   (pipelines that cannot be read at all are the histories' subject)
            _reset_context(); acc.count('rejected_pipelines'); acc.outcome('derive-rejected'); return
        acc.states += 1; acc.transitions += 1
        try:
            Y = apply_shortcut(case['short'], X, st.built.owned)
            for _ in range(2):
                for env in Y: list(env.read())
            acc.transitions += 2
        except ERRORS as e:    # noqa   the derived environment may be rejected; X must survive the attempt all the same
            _reset_context(); acc.count('derived_environment_rejected')
        try:
            again = [cinter(i) for i in X[0].read()]
        except ERRORS as e:    # noqa
            _reset_context()
            acc.violation(f'derived environment|re-reading the upstream raises {type(e).__name__} after the derived one was read|{case["store"]}', f'{label}: {e!r:.200}', case); return
        acc.states += 1; acc.transitions += 1; acc.traces += 1
        if first: acc.mark_nontrivial()
        if again != first:
            k = next((i for i, (a, b) in enumerate(zip(first, again)) if a != b), min(len(first), len(again)))
            acc.violation(f'derived environment|reading it changed what the upstream environment gives|{case["store"]}',
                          f'{label} on {case["src"]}{case["chain"]}: interaction {k}: {first[k:k+1]!r:.250} -> {again[k:k+1]!r:.250}', case)
            return
        now = snapshot(st.built)
        if any(now.get(k) != v for k, v in st.snap.items()):      # (objects a shortcut of the harness adds later, e.g. the logging learner, are not the caller's data of X)
            acc.violation(f'derived environment|caller-owned data modified|{case["store"]}', label, case); return
        acc.outcome(('derive', case['store'], len(first)))

    # -------------------------------------------------------------- one operation + its oracle
    def step(self, st, op, refs, ref_params, i):
        """Apply `op` to the real object and compare with the reference; raises Fail."""
        base, j = op_split(op)
        env = st.sibs[j] if st.sibs else st.env
        ref = refs[j]
        if base == 'full':
            try:
                got = [cinter(x) for x in env.read()]
            except ERRORS as e:    # noqa
                raise Fail(f'read raises {type(e).__name__}', repr(e), i)
            if got != ref: raise Fail(diff_mode(got, ref, ref), f'read {len(got)} interactions {got!r:.300}, a fresh pipeline yields {len(ref)}: {ref!r:.300}', i)
            st.read_done[j] = True
        elif base in PARTS:
            k = PARTS[base]
            it = None
            try:
                it = iter(env.read())
                got = [cinter(x) for x in itertools.islice(it, k)]
            except ERRORS as e:    # noqa
                raise Fail(f'read raises {type(e).__name__}', repr(e), i)
            finally:
                it = None
                gc.collect()
            want = ref[:k]
            if got != want: raise Fail(diff_mode(got, want, ref), f'first {k} items {got!r:.300}, a fresh pipeline yields {want!r:.300}', i)
        elif base == 'params':
            if st.read_done[j]:
                try:
                    got = cparams(env.params)
                except ERRORS as e:    # noqa
                    raise Fail(f'params raises {type(e).__name__} after a full read', repr(e), i)
                if got != ref_params[j]:
                    raise Fail('params differ from the params of a fresh pipeline after its first read', f'{got!r:.300} vs {ref_params[j]!r:.300}', i)
            else:
                try: env.params
                except ERRORS: pass    # noqa   (not constrained before the first read)
        elif base == 'pickle':
            try:
                new = pickle.loads(pickle.dumps(env))
            except ERRORS as e:    # noqa   accepted rejection
                return 'pickle_rejected:' + type(e).__name__
            if st.sibs:                    # member j of a collection is replaced by its unpickled copy
                st.sibs[j] = Environments(new)[0]
            else:
                st.env = new
                if st.facade:
                    st.envs = Environments(new); st.env = st.envs[0]
        elif base in ('mat', 'cache', 'chunk', 'save'):
            try:
                if base == 'mat': envs = st.envs.materialize()
                elif base == 'cache': envs = st.envs.cache()
                elif base == 'chunk': envs = st.envs.chunk()
                else:
                    self._zipn += 1
                    path = os.path.join(self._scratch(), f'save{self._zipn}.zip')
                    st.zips.append(path)
                    envs = st.envs.save(path)
                if len(envs) != 1: raise Fail(f'{base}() does not give one environment', f'{len(envs)} environments', i)
                env = envs[0]
            except Fail: raise
            except ERRORS as e:    # noqa
                _reset_context()
                raise Fail(f'{base}() raises {type(e).__name__}', repr(e), i)
            st.envs, st.env = envs, env
            if base == 'save': st.read_done[0] = False      # a new object that has not been read yet
        else:
            raise ValueError(op)
        now = snapshot(st.built)
        if now != st.snap:
            names = sorted(k for k in now if now[k] != st.snap.get(k))
            raise Fail(f'caller-owned data modified: {", ".join(names)}', f'{names[0]}: {st.snap[names[0]]!r:.200} -> {now[names[0]]!r:.200}', i)
        changed = defaults_changed()
        if changed:
            raise Fail(f'a shared default argument object was modified: {", ".join(changed)}', 'every later call that relies on the default sees the modified object', i)
        return None

    def run_history(self, pipe, hist, refs, ref_params, acc=None, final_params=False):
        """Execute one history on a fresh pipeline.  -> None | Fail"""
        st = None
        if 'mem' not in pipe: _fresh_process_state()
        try:
            try:
                st = self.build(pipe)
            except ERRORS as e:    # noqa
                return Fail(f'construction raises {type(e).__name__}', repr(e), -1)
            for i, op in enumerate(hist):
                if acc is not None: acc.transitions += 1
                r = self.step(st, op, refs, ref_params, i)
                if r and acc is not None: acc.count(r.split(':')[0])
            if final_params:               # observation after the last operation (reported as one more operation `params`)
                for j in range(2 if st.sibs else 1):
                    if st.read_done[j]:
                        if acc is not None: acc.transitions += 1
                        op = f'params@{j}' if st.sibs else 'params'
                        try:
                            self.step(st, op, refs, ref_params, len(hist))
                        except Fail as f:
                            f.op = op; raise
            if acc is not None: acc.traces += 1
            return None
        except Fail as f:
            return f
        finally:
            if st is not None:
                for z in st.zips:
                    try: os.unlink(z)
                    except OSError: pass

    # -------------------------------------------------------------- classification of a failure (finding key)
    @staticmethod
    def family(mode):
        """Failure modes that one root cause typically shows as, depending on which operation trips over it."""
        if mode.startswith('read yields'): return 'yields'
        if ' raises ' in mode: return 'raises'
        if mode.startswith('caller-owned data modified'): return 'caller-owned'
        return mode

    def fails_like(self, pipe, hist, fam):
        """-> the Fail if `hist` fails at its last operation with a mode of family `fam`, else None"""
        status, refs, ref_params, _ = self.reference(pipe)
        if status != 'ok': return None
        f = self.run_history(pipe, hist, refs, ref_params)
        return f if (f is not None and self.family(f.mode) == fam and f.step == len(hist) - 1) else None

    def minimise_history(self, pipe, hist, fail):
        """Greedy: drop operations (never the failing last one), then generalise p3 -> p1 -> full, mat/save (last) -> full,
        while a failure of the same family at the last operation remains.  -> (history, Fail of that history)"""
        hist = list(hist); fam = self.family(fail.mode)
        changed = True
        while changed:
            changed = False
            for j in range(len(hist) - 1):
                h2 = hist[:j] + hist[j + 1:]
                f2 = self.fails_like(pipe, h2, fam)
                if f2 is not None:
                    hist, fail = h2, f2; changed = True; break
        for j in range(len(hist)):
            base, sib = op_split(hist[j])
            suffix = f'@{sib}' if '@' in hist[j] else ''
            last = j == len(hist) - 1
            for simpler in {'p3': ('full', 'p1'), 'p30': ('full', 'p1'), 'p1': ('full',), 'mat': ('full',) if last else (), 'save': ('full',) if last else ()}.get(base, ()):
                h2 = hist[:j] + [simpler + suffix] + hist[j + 1:]
                f2 = self.fails_like(pipe, h2, fam)
                if f2 is not None:
                    hist, fail = h2, f2; break
        return hist, fail

    def fails_anyhow(self, pipe, hist):
        """-> the first Fail of `hist` on `pipe` (any mode, any step), else None"""
        status, refs, ref_params, _ = self.reference(pipe)
        if status != 'ok': return None
        return self.run_history(pipe, hist, refs, ref_params)

    def blame(self, pipe, hist, fail):
        """-> (component label, input flavour or None, Fail that names the mode, minimal history on the blamed component).
        (a) the bare source already fails under this history (any mode: what the filters make of it is a consequence);
        (b) else drop filters from the chain while the failure (same family) remains;
        (c) then isolate the shortest failing suffix of the reduced chain on a harness-made, perfectly re-readable source that
            replays what a fresh upstream prefix yields; else the source with the reduced chain."""
        chain = list(pipe['chain']); fam = self.family(fail.mode)
        fan = ' x shuffle(n=2)' if pipe.get('fan') else ''
        srclabel = SOURCES[pipe['src']][1]
        if not chain: return srclabel + fan, None, fail, hist
        alone = dict(pipe, chain=[])
        f2 = self.fails_anyhow(alone, hist)
        if f2 is not None and f2.step >= 0:
            h2, f2 = self.minimise_history(alone, list(hist[:f2.step + 1]), f2)
            return srclabel + fan, None, f2, h2
        changed = True
        while changed and len(chain) > 1:
            changed = False
            for k in range(len(chain)):
                c2 = chain[:k] + chain[k + 1:]
                f2 = self.fails_like(dict(pipe, chain=c2), hist, fam)
                if f2 is not None:
                    chain, fail, changed = c2, f2, True; break
        for j in range(len(chain) - 1, -1, -1):
            up = {'src': pipe['src'], 'chain': chain[:j], 'facade': False}
            fresh = lambda up=up: list(self.build(up, reset=False).env.read())
            try:
                items = fresh()
            except ERRORS:    # noqa
                continue
            iso = dict(pipe, chain=chain[j:], mem=fresh)
            f2 = self.fails_like(iso, hist, fam)
            if f2 is not None:
                h2, f2 = self.minimise_history(iso, hist, f2)
                return ' > '.join(FILTERS[f][0] for f in chain[j:]) + fan, (flavour(items[0]) if items else 'empty'), f2, h2
        return srclabel + ' > ' + ' > '.join(FILTERS[f][0] for f in chain) + fan, None, fail, hist

    def classify(self, pipe, hist, fail):
        """-> (finding key, minimal history, pipeline the history is for).  The key names the blamed component, the failure
        mode and the minimal history ON THE BLAMED COMPONENT; the witness is the minimal history on the explored pipeline."""
        hist = list(hist[:fail.step + 1]) if fail.step >= 0 else []
        if hist: hist, fail = self.minimise_history(pipe, hist, fail)
        if pipe.get('duo'):
            fam = self.family(fail.mode)
            short = pipe['short']
            touched = {op_split(o)[1] for o in hist}
            if len(touched) == 1:                      # only one member involved: does that environment alone fail the same way?
                pipe1 = {'src': pipe['src2' if touched == {1} else 'src'], 'chain': [], 'facade': True}
                hist1 = [op_split(o)[0] for o in hist]
                f1 = self.fails_like(pipe1, hist1, fam)
                if f1 is not None: return self.classify(pipe1, hist1, f1)
            for part in short.split('_'):              # a two-step shortcut: does one of its steps alone fail the same way?
                if part != short and part in SHORTCUTS:
                    f2 = self.fails_like(dict(pipe, short=part), hist, fam)
                    if f2 is not None:
                        short, fail = part, f2; break
            names = {}                                 # members named in the order they are first touched
            for o in hist:
                if op_split(o)[1] not in names: names[op_split(o)[1]] = 'ab'[len(names)]
            kinds = ','.join(KIND.get(op_split(o)[0], op_split(o)[0]) + '@' + names[op_split(o)[1]] for o in hist) or 'none'
            mode = 'a member\'s read differs from a fresh twin of that member alone' if fam == 'yields' else fail.mode
            if short == 'none':
                return f"Environments({SOURCES[pipe['src']][1]}, {SOURCES[pipe['src2']][1]})|{mode}|history={kinds}", hist, pipe
            return f"Environments.{short}() on a collection of two environments|{mode}|history={kinds}", hist, pipe
        if pipe.get('fan') and hist:
            # the same failure on the plain pipeline  ... > Shuffle(seed of the sibling read last)  ?
            pipe2 = {'src': pipe['src'], 'chain': pipe['chain'] + [f'Shuffle{op_split(hist[-1])[1]}'], 'facade': True}
            hist2 = [op_split(o)[0] for o in hist]
            f2 = self.fails_like(pipe2, hist2, self.family(fail.mode))
            if f2 is not None: return self.classify(pipe2, hist2, f2)
        comp, flv, kfail, khist = self.blame(pipe, hist, fail)
        feat = []
        if flv: feat.append(f'input={flv}')
        if pipe['facade'] and not pipe.get('fan') and all(o in A_RAW for o in hist) and self.fails_like(dict(pipe, facade=False), hist, self.family(fail.mode)) is None:
            feat.append('through the Environments facade only')
        feat.append('history=' + (','.join(KIND.get(op_split(o)[0], op_split(o)[0]) + ('' if '@' not in o else '@' + o[-1]) for o in khist) or 'none'))
        return f'{comp}|{kfail.mode}|{"; ".join(feat)}', hist, pipe

    # -------------------------------------------------------------- a case = all histories of one pipeline starting with one operation
    def run_saves(self, case, acc):
        n, (a, b), (c, d), ow = case['n'], case['s1'], case['s2'], case['overwrite']
        s1, s2 = set(range(a, b)), set(range(c, d))
        rel = 'equal to' if s1 == s2 else 'a superset of' if s1 < s2 else 'a subset of' if s2 < s1 else 'overlapping' if s1 & s2 else 'disjoint from'
        feat = f'second collection {rel} the first; overwrite={ow}; file holds {">10" if len(s1) > 10 else "<=10"} environments'
        K = lambda mode: f'Environments.save() onto an existing save file|{mode}|{feat}'
        _fresh_process_state(); _reset_context()
        refs = []
        for j in range(n):                                         # fresh twins: each environment alone
            env = Environments(tiny_env(j))[0]
            refs.append(([cinter(x) for x in env.read()], cparams(env.params)))
        self._zipn += 1
        path = os.path.join(self._scratch(), f'saves{self._zipn}.zip')

        def members(ret):
            out = []
            for i in range(len(ret)):
                env = ret[i]
                items = [cinter(x) for x in env.read()]
                out.append((items, cparams(env.params)))
            return out

        def check(ret, required, allowed, what):
            got = members(ret); acc.transitions += len(got)
            for g in got:
                if not any(g == refs[j] for j in allowed):
                    return acc.violation(K(f'a member of the {what} collection reads like none of the saved environments'), f'{g!r:.300}', case)
            for j in sorted(required):
                if not any(g == refs[j] for g in got):
                    return acc.violation(K(f'an environment of the saved collection is missing from the {what} collection'),
                                         f'environment {j} of {sorted(required)} is not among the {len(got)} members (params {[g[1] for g in got]!r:.300})', case)
            return True

        try:
            E = [tiny_env(j) for j in range(n)]                    # ONE collection of fresh objects; both saves take sub-collections of it
            acc.states += 3; acc.transitions += 2
            try:
                ret1 = Environments(E[a:b]).save(path)
                if check(ret1, s1, s1, 'first returned') is not True: return
                try:
                    ret2 = Environments(E[c:d]).save(path, overwrite=ow)
                except CobaException as e:
                    if not ow and not s1 <= s2:                    # documented rejection: the file does not match and overwrite is False
                        acc.outcome('saves:rejected'); acc.traces += 1; return
                    return acc.violation(K(f'raises {type(e).__name__}'), repr(e), case)
                if check(ret2, s2, s1 | s2, 'returned') is not True: return
                if check(Environments.from_save(path), s2, s1 | s2, 'from_save') is not True: return
                if s1 <= s2:                                       # the file was continued: the objects handed out earlier must still read the same
                    if check(ret1, s1, s1, 'earlier returned (re-read)') is not True: return
            except ERRORS as e:    # noqa
                _reset_context()
                return acc.violation(K(f'raises {type(e).__name__}'), repr(e), case)
            acc.traces += 1
            acc.outcome(f'saves:{rel}:{ow}')
            if acc._cur: acc.nontrivial.add((acc._cur[0] << 20) | 1)
        finally:
            try: os.unlink(path)
            except OSError: pass

    def run_case(self, case, acc):
        if case.get('scenario') == 'saves': return self.run_saves(case, acc)
        if case.get('scenario') == 'derive': return self.run_derive(case, acc)
        pipe = {k: case[k] for k in ('src', 'src2', 'short', 'duo', 'chain', 'facade', 'fan') if k in case}
        if 'hist' in case:                                     # replay of one history
            return self.replay_history(pipe, case['hist'], acc)
        ops, depth, first, need = case['ops'], case['depth'], case['first'], set(case.get('need') or ())
        status, refs, ref_params, raw = self.reference(pipe)
        if status != 'ok':
            acc.count('rejected_pipelines'); acc.outcome('rejected:' + type(refs).__name__); return
        s2, refs2, ref_params2, _ = self.reference(pipe)
        if s2 != 'ok' or refs2 != refs or ref_params2 != ref_params:
            acc.violation(f'{self.label(pipe)}|two fresh pipelines disagree on their first read|history=none', f'{refs!r:.300} vs {refs2!r:.300}', dict(pipe, hist=[]))
            return
        acc.outcome(case_hash(refs)); acc.count('cases_explored')
        nontrivial = any(refs)
        cidx = acc._cur[0] if acc._cur else 0
        seen = {}                                              # failure signature -> key (classification is the expensive part)
        prev = None
        for li, tail in enumerate(histories(ops, depth - 1, min_len=depth - 1)):     # maximal histories; every prefix is checked on the way
            hist = (first,) + tail
            if need and not (need & set(hist)): continue       # covered by the plan over the smaller alphabet
            lcp = 0
            if prev is not None:
                while lcp < depth and prev[lcp] == hist[lcp]: lcp += 1
            for n in range(lcp + 1, depth + 1):                # distinct histories (prefixes) reached for the first time
                if not need or (need & set(hist[:n])): acc.states += 1
            prev = hist
            f = self.run_history(pipe, hist, refs, ref_params, acc, final_params=True)
            if nontrivial and sum(1 for o in hist if op_split(o)[0] in READS) >= 2:
                acc.nontrivial.add((cidx << 20) | li)
            if f is None: continue
            acc.count('failing_histories')
            if f.step == len(hist):                            # the look-up after the last operation failed
                hist = hist + (f.op,)
            sig = (f.mode, tuple(KIND.get(o, o) for o in hist[:f.step + 1]))
            if sig not in seen:
                key, mh, wp = self.classify(pipe, hist, f)
                seen[sig] = key
                acc.violation(key, f.what, dict(wp, hist=list(mh)), order=(len(wp['chain']), len(mh), cidx, li))

    def replay_history(self, pipe, hist, acc):
        status, refs, ref_params, _ = self.reference(pipe)
        if status != 'ok': return
        if not hist:
            s2, refs2, p2, _ = self.reference(pipe)
            if refs2 != refs or p2 != ref_params:
                acc.violation(f'{self.label(pipe)}|two fresh pipelines disagree on their first read|history=none', 'replayed', dict(pipe, hist=[]))
            return
        f = self.run_history(pipe, hist, refs, ref_params)
        if f is not None:
            key, mh, wp = self.classify(pipe, hist, f)
            acc.violation(key, f.what, dict(wp, hist=list(mh)))

    @staticmethod
    def label(pipe):
        if pipe.get('duo'): return f"Environments.{pipe['short']}() on a collection of two environments"
        return ' > '.join([SOURCES[pipe['src']][1]] + [FILTERS[f][0] for f in pipe['chain']]) + (' x shuffle(n=2)' if pipe.get('fan') else '')


def _harden(v):
    if isinstance(v, (list, tuple, dict, str, int, float, type(None))): return v
    if isinstance(v, primitives.Sparse): return dict(v.items())
    if isinstance(v, primitives.Dense): return list(v)
    return v


CHECK = C04()
